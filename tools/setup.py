#!/venv/bin/python
"""MANIFEST.setup_cmd: regenerate Gen files from /repo and build every Lean project (offline)."""
import subprocess
import sys
from concurrent.futures import ThreadPoolExecutor
from pathlib import Path

sys.path.insert(0, str(Path(__file__).resolve().parent))
import translate  # noqa: E402
from vlib import LEAN  # noqa: E402


def build(proj: Path):
    p = subprocess.run(["lake", "build"], cwd=proj, capture_output=True, text=True)
    return proj.name, p.returncode, (p.stdout + p.stderr)[-2000:]


def main():
    projects = sorted(p.parent for p in LEAN.glob("*/lakefile.toml"))
    for p in projects:
        ch, fails = translate.run(p.name)
        print(f"translate {p.name}: changed={ch} failures={fails}")
    rc = 0
    with ThreadPoolExecutor(4) as ex:
        for name, code, tail in ex.map(build, projects):
            print(f"lake build {name}: rc={code}")
            if code != 0:
                print(tail)
                rc = 1
    # every check rebuilds what it needs and reports a broken build itself (as broken obligations);
    # a project that does not build must not stop the other engines from being set up
    print("setup finished; projects with build problems are reported by their own checks" if rc else "setup ok")
    sys.exit(0)


if __name__ == "__main__":
    main()
