#!/venv/bin/python
"""Regenerate MANIFEST.json from the table below (single source of truth for what is claimed)."""
import json
import os
import sys

HERE = os.path.dirname(os.path.dirname(os.path.abspath(__file__)))
LEVEL_NOTE = ("Trusted: Lean 4.33 kernel (axioms per theorem are audited on every run: subset of propext, Classical.choice, Quot.sound; no sorry/"
              "native_decide/bv_decide/added axioms), the translator tools/gen/*.py, the correspondence harness (differential testing of the "
              "hand-written model against the implementation: validated, not verified), external Python behaviour supplied per case (NFC, "
              "Unicode classes, float repr, re). See DESIGN.md section 4 and the evidence file for which clauses are theorems and which are "
              "backed by correspondence + search only.")

# property -> (engine, technique, text)
CLAIMED = {
    "C01": ("text", "Lean 4 proof over hand-written reader/emitter model (document-level round trip for flat documents; lexer/emitter lemmas for the rest) + differential correspondence + failing-input search",
            "Theorems (all inputs of the class): for every document made of an envelope and a forest of KEY::scalar lines and ARBITRARILY NESTED BLOCKS (scalars: quoted strings of any characters, bare words, "
            "booleans, null, integers) the canonical text is accepted by the strict reader, which returns the same document, and canonicalising it again gives the same bytes (C01_tree_canonical_is_readable, "
            "C01_tree_fixed_point; flat documents: C01_flat_fixed_point); "
            "one fixed-point step is stable; emit ignores positions. PARTIAL: for documents with sections, lists, comments, META, zones, expressions the document-level statement is an open proof target "
            "(all in progress) and is backed by the tie only: regenerated lexer/emitter/parser tables pinned by decide facts; exact correspondence (canonical text, strict verdict) of the full "
            "lexer+parser+emitter transcription on generated documents, the shipped corpus, exhaustive token sequences and mutations; oracle on the real code incl. tools."),
    "C02": ("text", "Lean 4 proof (content preservation for flat documents; reader value typing; list values at parser level) + content-model oracle + AST correspondence",
            "Theorems: reading the canonical text of every document made of lines and arbitrarily nested blocks yields exactly its name, keys, nesting, order and values with their types, nothing else "
            "(C02_tree_content_preserved, C02_flat_content_preserved; strict and lenient entry points, exact parser warnings); parseValue on (nested) list tokens of any length returns exactly the list (C02_nested_list_typed); STRING/NUMBER/BOOLEAN/NULL tokens are read back "
            "as str/int/float/bool/null for every state and continuation. PARTIAL: sections, comments, META, zones, lists inside documents are backed by the content oracle (content known "
            "independently of any parser, covering matrix value kind x position) and the correspondence on full ASTs with positions."),
    "C03": ("text", "Lean 4 proof (convergence of every whitespace/quote spelling of flat documents; emitter is a function of content; alias table; indentation; final newline) + convergence search",
            "Theorems: every lenient spelling of a flat document — spaces around ::, leading indentation, trailing spaces, blank and whitespace-only lines, quotes around plain words, triple quotes, "
            "omitted or mis-laid ===END=== — canonicalises to the canonical bytes through both canonicalisers, for all documents and all spellings (C03_flat_converge, C03_flat_spellings_agree); "
            "emit ignores every source position (any depth); alias normalisation agrees with the regenerated ASCII_ALIASES; block trees are emitted with exactly 2 spaces per level; final newline. "
            "PARTIAL: alias spellings of expressions, one-line vs multi-line lists and spellings of nested documents (in progress) are decided by the search: independent lenient spellings per "
            "document incl. the far corner (every site non-canonical) converge byte-for-byte; independent strict-profile recogniser; octave_write(lenient) bytes."),
    "C04": ("text", "Lean 4 proof (escape/unescape inverse; every quoted or bare string, boolean, null survives emit -> tokenize -> parse inside a flat document) + exhaustive scalar round trip",
            "Theorems hold for every string of any characters: unescape(escape s) = s; the quoted lexeme re-lexes to ONE STRING token carrying s; a bare word to one IDENTIFIER token; at document level "
            "(flat documents) the value read back equals the value written (C02_flat_content_preserved). PARTIAL: numbers (int/float re-lex, in progress), list / inline-map / META positions and NFC "
            "(finding F16) are decided by the exhaustive correspondence: strings <=3 over the class alphabet x 9 positions, random strings, ints to 4300 digits, floats; octave_write changes path."),
    "C05": ("text", "Lean 4 proof (a zone is tokenised verbatim for every content, marker and tag; no NFC inside fences; verbatim emission) + zone pipelines search",
            "Theorems (every content: tabs, NFD, backslashes, quotes, operators, ===END===, shorter backtick runs): normalisation returns the text unchanged with exactly one span, tabs are accepted "
            "inside it and only there, the lexer yields FENCE_OPEN / LITERAL_CONTENT / FENCE_CLOSE carrying exactly the content, tag and marker, with no receipt (C05_zone_lexes_verbatim); the emitter "
            "writes it back verbatim; an empty zone keeps its fence tokens. Finding C05N1 is located in the lexer (content of one empty line is tokenised like the empty zone) with the negation "
            "proved on the witness. PARTIAL: the parser half / whole round trip (in progress), zones inside blocks and the tool routes are decided by zone-dense generated documents through 9 "
            "pipelines compared with the generator's model and by the model/implementation zone correspondence."),
    "C07": ("text", "Lean 4 proof (lexer-level bijection between normalised tokens and normalisation receipts for every input; canonical flat text has none) + receipt bijection search",
            "Theorems (every input text, both lexer modes): the normalisation receipts are, in order, exactly the normalised tokens with original text, replacement and position "
            "(C07_lexer_receipts_bijection, every_rewrite_has_receipt, every_receipt_has_rewrite); the log is append-only; canonical flat documents yield no normalisation receipt. PARTIAL: parser-level "
            "rewrites (multi-word values, constructor repairs) and the tool routes (finding C07N1) are decided by the search: expected receipts from the renderer's own layout arithmetic, compared as "
            "lists with positions; model/implementation receipt lists correspond exactly."),
    "C20": ("text", "Lean 4 proof (lexer: closure, progress, no hang; parser: no foreign exception escapes) + exhaustive/seeded exception-class correspondence + deterministic cost scaling",
            "Theorems (every input): only positioned LexerErrors escape tokenize, every iteration consumes input, the fuel is never exhausted; the parser never lets a foreign Python exception escape "
            "(C20_parser_closed / C20_reader_closed); tools: guard coverage of every stage from the regenerated try/except structure. PARTIAL: parser fuel adequacy (no hang) is in progress; "
            "C20_tools_total_partial rests on listed exception-free stages; runtime limits (recursion, memory) are outside. Search: exhaustive token sequences, random Unicode, mutations, depth ladders, "
            "deadline-guarded tool calls (a hang is a failure with the input), scaling on sys.monitoring event counts."),
}
EXTRA = {}  # filled from tools/manifest_extra.json (builders' engines, wired by the lead)


def main():
    props = [json.loads(l) for l in open(os.path.join(HERE, "properties.jsonl"))]
    extra_path = os.path.join(HERE, "tools", "manifest_extra.json")
    extra = json.load(open(extra_path)) if os.path.exists(extra_path) else {}
    claimed = dict(CLAIMED)
    for k, v in extra.items():
        claimed[k] = (v["engine"], v["technique"], v["text"])
    checks = []
    for p in props:
        pid = p["id"]
        if pid not in claimed:
            continue
        eng, tech, text = claimed[pid]
        checks.append({
            "property_id": pid,
            "quick_cmd": f"/venv/bin/python tools/check.py {pid} --tier quick",
            "thorough_cmd": f"/venv/bin/python tools/check.py {pid} --tier thorough",
            "evidence_file": f"evidence/{pid}.json",
            "replay_cmd_template": f"/venv/bin/python tools/check.py {pid} --replay {{path}}",
            "engine": eng,
            "level_claimed": {"category": "proof", "text": text, "design_ref": f"DESIGN.md section 7 {pid}, section 11"},
            "level_note": LEVEL_NOTE,
            "technique": tech,
        })
    engines = {}
    for pid, (eng, _t, _x) in claimed.items():
        engines.setdefault(eng, []).append(pid)
    man = {
        "version": 1,
        "setup_cmd": "/venv/bin/python tools/setup.py",
        "hooks": {"guard": "OCTAVE_MCP_VERIF", "enable": "checks export OCTAVE_MCP_VERIF=1; no source hook exists in /repo: all interposition (file-system calls, "
                  "kill points, schedules, module-state snapshots) is done from the harness", "baseline_off_cmd": "/venv/bin/python tools/baseline.py",
                  "source_commits": [], "add_only": True},
        "engines": [{"name": e, "path": f"lean/{e}", "serves_properties": sorted(ps),
                     "kind_free_text": "Lean 4 lake project (executable model, generated tables, theorems, JSON-lines driver) + tools/props/*.py correspondence and search"}
                    for e, ps in sorted(engines.items())],
        "checks": checks,
        "not_applicable": [{"property_id": p["id"], "reason": "not claimed yet: its engine is still being built/validated in this round (no technique switch; see DESIGN.md section 11)"}
                           for p in props if p["id"] not in claimed],
        "notes": "Checks exit 2 (no VIOLATION line) on infrastructure failure. Known findings: known_findings/<id>.txt. Fix commits in /repo: REPO_FIXES.md.",
    }
    json.dump(man, open(os.path.join(HERE, "MANIFEST.json"), "w"), indent=1)
    print("claimed:", sorted(claimed))


if __name__ == "__main__":
    main()
