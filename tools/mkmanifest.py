#!/venv/bin/python
"""Regenerate MANIFEST.json from the table below (single source of truth for what is claimed)."""
import json
import os
import sys

HERE = os.path.dirname(os.path.dirname(os.path.abspath(__file__)))
LEVEL_NOTE = ("Trusted: Lean 4.33 kernel (axioms per theorem are audited on every run: subset of propext, Classical.choice, Quot.sound; no sorry/"
              "native_decide/bv_decide/added axioms), the translator tools/gen/*.py, the correspondence harness (differential testing of the "
              "hand-written model against the implementation: validated, not verified), external Python behaviour supplied per case (NFC, "
              "Unicode classes, float repr, re). See DESIGN.md section 4 and the evidence file for which clauses are theorems and which are "
              "backed by correspondence + search only.")

# property -> (engine, technique, text)
CLAIMED = {
    "C01": ("text", "Lean 4 proof over hand-written reader/emitter model + differential correspondence + failing-input search",
            "Theorems: fixed points of the canonicaliser are stable under any number of passes; the whole model evaluated by the kernel on a nested document. "
            "Tie: regenerated lexer/emitter/parser tables pinned by decide facts; exact correspondence (canonical text, strict verdict) of the full "
            "lexer+parser+emitter transcription on generated documents, the shipped corpus, exhaustive token sequences and mutations; oracle on the real code incl. tools."),
    "C02": ("text", "Lean 4 proof (reader value typing) + content-model oracle + AST correspondence",
            "Theorems: STRING/NUMBER/BOOLEAN/NULL tokens are read back as str/int/float/bool/null for every parser state and continuation. Oracle: content known independently "
            "of any parser (generator model), covering matrix value kind x position; correspondence on full ASTs with positions."),
    "C03": ("text", "Lean 4 proof (emitter is a function of content; alias table; indentation; final newline) + convergence search",
            "Theorems: emit ignores every source position (any depth), alias normalisation agrees with the regenerated ASCII_ALIASES, 2 spaces per level, final newline. "
            "Oracle: several independent lenient spellings per document converge byte-for-byte; independent strict-profile recogniser; octave_write(lenient) bytes."),
    "C04": ("text", "Lean 4 proof (escape/unescape inverse, quoted lexeme re-lexes to one STRING token, reserved-prefix quoting) + exhaustive scalar round trip",
            "Theorems hold for every string. Exhaustive strings <=3 over the class alphabet x 9 positions, random strings, ints to 4300 digits, floats; emitter and reader "
            "models correspond exactly on all of them; octave_write changes path."),
    "C05": ("text", "Lean 4 proof (no NFC / verbatim copy inside fences for arbitrary environments; verbatim emission) + zone pipelines search",
            "Zone-dense generated documents through 9 pipelines; zones and neighbours compared with the generator's model; model/implementation zone correspondence."),
    "C07": ("text", "Lean 4 proof (one receipt with exact position per normalising lexer step, none otherwise) + receipt bijection search",
            "Expected receipts come from the renderer's own layout arithmetic; receipts compared as lists with positions; model/implementation receipt lists correspond exactly."),
    "C20": ("text", "Lean 4 proof (scanner progress lemmas, no foreign exception from int()) + exhaustive/seeded exception-class correspondence + deterministic cost scaling",
            "Reader: exhaustive token sequences, random Unicode, mutations, depth ladders; exception classes of model and implementation agree; scaling on sys.monitoring event counts. "
            "Tools: every tool x flag combination returns a JSON-serialisable envelope."),
}
EXTRA = {}  # filled from tools/manifest_extra.json (builders' engines, wired by the lead)


def main():
    props = [json.loads(l) for l in open(os.path.join(HERE, "properties.jsonl"))]
    extra_path = os.path.join(HERE, "tools", "manifest_extra.json")
    extra = json.load(open(extra_path)) if os.path.exists(extra_path) else {}
    claimed = dict(CLAIMED)
    for k, v in extra.items():
        claimed[k] = (v["engine"], v["technique"], v["text"])
    checks = []
    for p in props:
        pid = p["id"]
        if pid not in claimed:
            continue
        eng, tech, text = claimed[pid]
        checks.append({
            "property_id": pid,
            "quick_cmd": f"/venv/bin/python tools/check.py {pid} --tier quick",
            "thorough_cmd": f"/venv/bin/python tools/check.py {pid} --tier thorough",
            "evidence_file": f"evidence/{pid}.json",
            "replay_cmd_template": f"/venv/bin/python tools/check.py {pid} --replay {{path}}",
            "engine": eng,
            "level_claimed": {"category": "proof", "text": text, "design_ref": f"DESIGN.md section 7 {pid}, section 11"},
            "level_note": LEVEL_NOTE,
            "technique": tech,
        })
    engines = {}
    for pid, (eng, _t, _x) in claimed.items():
        engines.setdefault(eng, []).append(pid)
    man = {
        "version": 1,
        "setup_cmd": "/venv/bin/python tools/setup.py",
        "hooks": {"guard": "OCTAVE_MCP_VERIF", "enable": "checks export OCTAVE_MCP_VERIF=1; no source hook exists in /repo: all interposition (file-system calls, "
                  "kill points, schedules, module-state snapshots) is done from the harness", "baseline_off_cmd": "/venv/bin/python tools/baseline.py",
                  "source_commits": [], "add_only": True},
        "engines": [{"name": e, "path": f"lean/{e}", "serves_properties": sorted(ps),
                     "kind_free_text": "Lean 4 lake project (executable model, generated tables, theorems, JSON-lines driver) + tools/props/*.py correspondence and search"}
                    for e, ps in sorted(engines.items())],
        "checks": checks,
        "not_applicable": [{"property_id": p["id"], "reason": "not claimed yet: its engine is still being built/validated in this round (no technique switch; see DESIGN.md section 11)"}
                           for p in props if p["id"] not in claimed],
        "notes": "Checks exit 2 (no VIOLATION line) on infrastructure failure. Known findings: known_findings/<id>.txt. Fix commits in /repo: REPO_FIXES.md.",
    }
    json.dump(man, open(os.path.join(HERE, "MANIFEST.json"), "w"), indent=1)
    print("claimed:", sorted(claimed))


if __name__ == "__main__":
    main()
