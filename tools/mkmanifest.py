#!/venv/bin/python
"""Regenerate MANIFEST.json from the table below (single source of truth for what is claimed)."""
import json
import os
import sys

HERE = os.path.dirname(os.path.dirname(os.path.abspath(__file__)))
LEVEL_NOTE = ("Trusted: Lean 4.33 kernel (axioms per theorem are audited on every run: subset of propext, Classical.choice, Quot.sound; no sorry/"
              "native_decide/bv_decide/added axioms), the translator tools/gen/*.py, the correspondence harness (differential testing of the "
              "hand-written model against the implementation: validated, not verified), external Python behaviour supplied per case (NFC, "
              "Unicode classes, float repr, re). See DESIGN.md section 4 and the evidence file for which clauses are theorems and which are "
              "backed by correspondence + search only.")

# property -> (engine, technique, text)
CLAIMED = {
    "C01": ("text", "Lean 4 proof over hand-written lexer/parser/emitter model (document-level round trip, construct by construct, all documents of each class) + differential correspondence + failing-input search",
            "Theorems (all documents of the class; strings of any characters, bare words, booleans, null, integers; any length, any depth): the canonical text is accepted by the strict reader, "
            "which returns the same document, and canonicalising it again gives the same bytes, for flat documents (C01_flat_fixed_point), arbitrarily nested blocks (C01_tree_fixed_point), META + trees "
            "(C01_meta_fixed_point), sections with ids 1 / 2b / NAME nested to any depth (C01_sect_fixed_point), expressions with every operator (C01_expr_fixed_point), list values (C01_list_fixed_point), "
            "trees with leading / trailing / end-of-document comments (C01_ctree_fixed_point), and two unified classes: rich values inside blocks and sections "
            "(C01_udoc_fixed_point) META + sections + comments on every node (C01_document_fixed_point), joined in the master class with float values and trailing comments behind lists (C01_mdoc_fixed_point); emit ignores positions. NESTED LISTS to any depth below the reader's limit of 100 brackets with float, int and string leaves, in the emitter's mixed one-line / multi-line layout (C01_nested_canonical_is_readable, C01_nested_fixed_point, C01_nested_canon_fixed); inline-map items (C01_maps_fixed_point). PARTIAL: documents outside these classes (orphan comments, zones and spelling freedoms are proved in classes of their own), multi-pair inline "
            "maps, holographic values and zones in lists/META (findings C01N5, C01N6) are backed by the tie only: regenerated lexer/emitter/parser tables pinned by decide facts; exact correspondence "
            "(canonical text, strict verdict) of the full transcription on generated documents, the shipped corpus, exhaustive token sequences and mutations; oracle on the real code incl. tools."),
    "C02": ("text", "Lean 4 proof (content preservation at document level per construct; comments attached and kept; reader value typing; list values) + content-model oracle + AST correspondence",
            "Theorems: reading the canonical text of every document of the classes of C01 yields exactly its name, keys, nesting, order, section ids and values with their types, nothing else, through "
            "the strict and lenient entry points with the exact warning list (C02_flat/_tree/_meta/_sect/_list_content_preserved, ..._lenient_read_silent); every leading, trailing (also empty) and "
            "end-of-document comment of a tree is attached to its node and read back as written, orphan comments stay in their block (C02_ctree_content_preserved, C02_ctree_comments_in_order, C02_comment_orphans, C02_otree_document_read), end to end for trees whose blocks end with orphan comment lines at any depth (C02_orphantree_canonical_is_readable, C02_orphantree_fixed_point, C02_orphantree_comments_in_order); "
            "parseValue on (nested) list tokens of any length returns exactly the list (C02_nested_list_typed); at document level the item at ANY index path of a nested list is read back at the same path with its type (C02_nested_content_preserved, C02_nested_item_preserved). PARTIAL: mixtures outside the unified classes, inline maps, holographic values, zones in "
            "lists are backed by the content oracle (content known independently of any parser, covering matrix value kind x position) and the correspondence on full ASTs with positions."),
    "C03": ("text", "Lean 4 proof (convergence of every whitespace/quote spelling of flat documents, every alias spelling of expressions, every layout of list values, # section markers) + convergence search",
            "Theorems: every lenient spelling of a flat document - spaces around ::, leading indentation, trailing spaces, blank and whitespace-only lines, quotes around plain words, triple quotes, "
            "omitted or mis-laid ===END=== - canonicalises to the canonical bytes through both canonicalisers (C03_flat_converge, C03_flat_spellings_agree); every ASCII-alias spelling of every expression "
            "converges to the Unicode form (C03_expr_alias_converge, C03_expr_spellings_agree); one-line and one-item-per-line layouts of list values converge (C03_list_layouts_converge, "
            "C03_list_layouts_agree); # for the section sign (C03_sect_hash_canonicalises); emit ignores every source position; alias table sound and complete; 2 spaces per level; final newline. "
            "every indentation spelling of a block tree (per-block width >= 1, ragged deeper siblings, blank lines, per-line freedoms, every frame) converges (C03_tree_indent_converge, "
            "C03_tree_spelled_converge, C03_tree_framed_converge), also with ===END=== indented by any number of spaces behind any tree (C03_tree_endindent_converge, C03_tree_endindent_agree); multi-word values of every head kind at any spacing converge (C03_multiword_converge, C03_mwnum_converge, C03_mwbool_converge). PARTIAL: indentation spellings combined with comments / sections / lists are decided by the search: independent lenient spellings per document incl. the far corner (every site non-canonical) converge byte-for-byte; "
            "independent strict-profile recogniser; octave_write(lenient) bytes."),
    "C04": ("text", "Lean 4 proof (escape/unescape inverse; strings, booleans, null, integers survive emit -> tokenize -> parse inside documents; int/float re-lex) + exhaustive scalar round trip",
            "Theorems hold for every string of any characters: unescape(escape s) = s; the quoted lexeme re-lexes to ONE STRING token carrying s; a bare word to one IDENTIFIER token; every int within "
            "CPython's 4300-digit limit and every float repr re-lex to ONE NUMBER token with the same value, beyond the limit a positioned LexerError (C04_int_relex, C04_int_over_limit_refused, "
            "C04_float_relex under the Env law repr(float(r)) = r); at document level the value read back equals the value written (C02_flat_content_preserved and the classes of C01, floats as line values in C02_mdoc_content_preserved, float and negative-int items at any path of a nested list in C04_nested_number_survives, inline-map values in C04_maps_scalar_survives). PARTIAL: floats "
            "in META lists (scalars and floats as META values are C04_metanum_survives), expression-shaped strings in one-item lists (finding C04N1) and NFC (finding F16) are decided by the exhaustive correspondence: strings <=3 over the class alphabet x 9 positions, random strings, "
            "ints to 4300 digits, floats; octave_write changes path."),
    "C05": ("text", "Lean 4 proof (a zone is tokenised, read and re-emitted verbatim for every content, marker and tag; exact guard of finding C05N1) + zone pipelines search",
            "Theorems (every content: tabs, NFD, backslashes, quotes, operators, ===END===, shorter backtick runs): normalisation returns the text unchanged with exactly one span, tabs are accepted "
            "inside it and only there, the lexer yields FENCE_OPEN / LITERAL_CONTENT / FENCE_CLOSE carrying exactly the content, tag and marker, with no receipt (C05_zone_lexes_verbatim); the strict "
            "reader returns the zone with exactly its content (C05_zone_read_verbatim); emit -> read -> emit is a fixed point exactly when the content is not the single empty line "
            "(C05_zone_fixed_point_partial, C05N1_canon_exact); flat lines after a zone are untouched (C05_zone_neighbours_untouched); at token level any number of zones and lines in any order "
            "(C05_items_read). any number of keyed zones anywhere in a forest of lines and nested blocks (C05_ztree_zone_read_verbatim, C05_ztree_fixed_point_partial). the same with bare zones as block children (C05_btree_zone_read_verbatim; guards: not directly after an empty sibling block, not directly under the envelope). PARTIAL: zones in lists/META and the tool routes are decided by zone-dense "
            "generated documents through 9 pipelines compared with the generator's model and by the model/implementation zone correspondence."),
    "C07": ("text", "Lean 4 proof (bijection between normalised tokens and normalisation receipts for every input; exact receipts of every alias spelling; canonical text has none) + receipt bijection search",
            "Theorems (every input text, both lexer modes): the normalisation receipts are, in order, exactly the normalised tokens with original text, replacement and position "
            "(C07_lexer_receipts_bijection, every_rewrite_has_receipt, every_receipt_has_rewrite); every alias spelling of every expression yields exactly one receipt per alias occurrence and the "
            "canonical spelling none (C07_expr_alias_receipts, C07_expr_canonical_no_receipts); canonical flat, nested, commented, sectioned, META and list documents yield no normalisation receipt. "
            "PARSER-level rewrite of multi-word bare values: for every flat document whose values are scalars or runs of identifier words with any spacing, the reader returns the document of the canonical lines "
            "and the multi_word_coalesce receipts are exactly one per multi-word line with words, result, line and column; canonical text yields none (C07_multiword_read, C07_multiword_receipts, "
            "C07_multiword_receipts_exact, C07_multiword_canonical_none). Brace-for-angle repair NAME{q} -> NAME<q> of the lenient lexer: exactly one curlyBrace record per brace spelling, none for canonical "
            "text, none in strict mode (C07_brace_receipts, C07_brace_canonical_none, C07_brace_strict_no_rewrite); and FOR EVERY INPUT TEXT the curlyBrace records of a lenient run are, in order, "
            "in one-to-one correspondence with the brace steps of the run and with distinct IDENTIFIER tokens NAME<q> at the record's line and column, no other token kind ever owns one, a non-lenient run logs "
            "none (C07_braceall_matching, C07_braceall_record_has_token, C07_braceall_trace, C07_braceall_strict_none). Multi-word values headed by an integer or a quoted string (K::3 blind mice, "
            "K::\"s\" x) and by true / false / null / a three-part version (C07_mwbool_read, C07_mwbool_receipts) or any representable number lexeme, raw lexeme kept (C07_mwfloat_read, C07_mwfloat_receipts): exact value, exact receipts, convergence (C07_mwnum_read, C07_mwnum_receipts, C07_mwnum_receipts_exact, C07_mwnum_canonical_none, C03_mwnum_converge); finding C07N3 "
            "(a bracket group adjacent to the last word is dropped without receipt) is a theorem about the model (C07_mwnum_adjacent_bracket_silent) and replayed on the real code. "
            "PARTIAL: the other parser-level rewrites (multi-word values headed by booleans / null / versions, constructor repairs) and the tool routes (findings C07N1, C07N2) are decided by the search: expected receipts from the renderer's own layout "
            "arithmetic, compared as lists with positions; model/implementation receipt lists correspond exactly."),
    "C20": ("text", "Lean 4 proof (lexer and parser: closure, progress, fuel never exhausted) + exhaustive/seeded exception-class correspondence + deterministic cost scaling",
            "Theorems (every input): only positioned LexerErrors escape tokenize, every iteration consumes input, the fuel is never exhausted; the parser never lets a foreign Python exception escape "
            "(C20_parser_closed / C20_reader_closed) and never exhausts its fuel (C20_parser_no_hang, C20_parse_no_hang, C20_parseMetaOnly_no_hang); tools: guard coverage of every stage from the "
            "regenerated try/except structure. PARTIAL: C20_tools_total_partial rests on listed exception-free stages; runtime limits (recursion, memory) and cost (finding C20N1) are outside. Search: "
            "exhaustive token sequences, random Unicode, mutations, depth ladders, deadline-guarded tool calls (a hang is a failure with the input), scaling on sys.monitoring event counts."),
}
EXTRA = {}  # filled from tools/manifest_extra.json (builders' engines, wired by the lead)


def main():
    props = [json.loads(l) for l in open(os.path.join(HERE, "properties.jsonl"))]
    extra_path = os.path.join(HERE, "tools", "manifest_extra.json")
    extra = json.load(open(extra_path)) if os.path.exists(extra_path) else {}
    claimed = dict(CLAIMED)
    for k, v in extra.items():
        claimed[k] = (v["engine"], v["technique"], v["text"])
    checks = []
    for p in props:
        pid = p["id"]
        if pid not in claimed:
            continue
        eng, tech, text = claimed[pid]
        checks.append({
            "property_id": pid,
            "quick_cmd": f"/venv/bin/python tools/check.py {pid} --tier quick",
            "thorough_cmd": f"/venv/bin/python tools/check.py {pid} --tier thorough",
            "evidence_file": f"evidence/{pid}.json",
            "replay_cmd_template": f"/venv/bin/python tools/check.py {pid} --replay {{path}}",
            "engine": eng,
            "level_claimed": {"category": "proof", "text": text, "design_ref": f"DESIGN.md section 7 {pid}, section 11"},
            "level_note": LEVEL_NOTE,
            "technique": tech,
        })
    engines = {}
    for pid, (eng, _t, _x) in claimed.items():
        engines.setdefault(eng, []).append(pid)
    man = {
        "version": 1,
        "setup_cmd": "/venv/bin/python tools/setup.py",
        "hooks": {"guard": "OCTAVE_MCP_VERIF", "enable": "checks export OCTAVE_MCP_VERIF=1; no source hook exists in /repo: all interposition (file-system calls, "
                  "kill points, schedules, module-state snapshots) is done from the harness", "baseline_off_cmd": "/venv/bin/python tools/baseline.py",
                  "source_commits": [], "add_only": True},
        "engines": [{"name": e, "path": f"lean/{e}", "serves_properties": sorted(ps),
                     "kind_free_text": "Lean 4 lake project (executable model, generated tables, theorems, JSON-lines driver) + tools/props/*.py correspondence and search"}
                    for e, ps in sorted(engines.items())],
        "checks": checks,
        "not_applicable": [{"property_id": p["id"], "reason": "not claimed (no technique switch; see DESIGN.md section 11)"}
                           for p in props if p["id"] not in claimed],
        "notes": "Checks exit 2 (no VIOLATION line) on infrastructure failure. Known findings: known_findings/<id>.txt. Fix commits in /repo: REPO_FIXES.md.",
    }
    json.dump(man, open(os.path.join(HERE, "MANIFEST.json"), "w"), indent=1)
    print("claimed:", sorted(claimed))


if __name__ == "__main__":
    main()
