#!/venv/bin/python
"""Entry point: tools/check.py Cxx [--tier quick|thorough] [--replay file]   (cwd = /verif)."""
import importlib
import os
import re
import sys
from pathlib import Path

sys.path.insert(0, str(Path(__file__).resolve().parent))
import vlib  # noqa: E402


def main():
    if len(sys.argv) < 2 or not re.fullmatch(r"C\d+", sys.argv[1]):
        print("usage: check.py Cxx [--tier quick|thorough] [--replay f]", file=sys.stderr)
        sys.exit(2)
    prop = sys.argv[1]
    os.chdir(vlib.VERIF)
    # `kill -USR1 <pid>` prints the Python stack of a run that seems stuck (diagnosis only)
    import faulthandler
    import signal
    faulthandler.register(signal.SIGUSR1, all_threads=True)
    # one check at a time per machine: checks regenerate Gen/*.lean in place and share the lake build directories, so two
    # runs (in particular a run against a scratch tree, VERIF_REPO, next to a run against /repo) must not overlap.
    # A run started by tools/seeded_run.py inherits the lock from its parent (VERIF_LOCK_HELD).
    if not os.environ.get("VERIF_LOCK_HELD"):
        try:
            import fcntl
            lock = open("/tmp/verif_check.lock", "w")
            fcntl.flock(lock, fcntl.LOCK_EX)
            os.environ["VERIF_LOCK_HELD"] = "1"
        except OSError:
            pass
    try:
        mod = importlib.import_module(f"props.{prop.lower()}")
    except BaseException as e:  # noqa: BLE001 - any failure to load the machinery is infrastructure
        print(f"INFRA-FAILURE property={prop}: no check module ({e})", file=sys.stderr)
        sys.exit(2)
    vlib.main_entry(mod.run, prop)


if __name__ == "__main__":
    main()
