#!/usr/bin/env python3
"""Run the pinned suite in a given worktree (PYTHONPATH=<wt>/src), compare with BASELINE stable_pass. exit 0 iff all pass."""
import json, os, subprocess, sys, tempfile, xml.etree.ElementTree as ET
wt = sys.argv[1]
base = json.load(open('/root/.vp/BASELINE.json'))
env = dict(os.environ); env.pop('OCTAVE_MCP_VERIF', None); env['PYTHONPATH'] = wt + '/src'
with tempfile.TemporaryDirectory() as td:
    jx = os.path.join(td, 'j.xml')
    cmd = ['/venv/bin/python', '-m', 'pytest', '-q', '-p', 'no:cacheprovider', '--timeout=900',
           '--continue-on-collection-errors', '-n', '4', '--junitxml=' + jx]
    p = subprocess.run(cmd, cwd=wt, env=env, capture_output=True, text=True)
    passed = set()
    for tc in ET.parse(jx).getroot().iter('testcase'):
        if not any(ch.tag in ('failure', 'error', 'skipped') for ch in tc):
            passed.add(tc.get('classname') + '::' + tc.get('name'))
missing = [t for t in base['stable_pass'] if t not in passed]
print(f'baseline tests={len(base["stable_pass"])} passing_now={len(passed & set(base["stable_pass"]))} missing={len(missing)}')
for t in missing[:40]: print('  MISSING', t)
sys.exit(1 if missing else 0)
