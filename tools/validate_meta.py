#!/venv/bin/python
"""Validate MANIFEST.json and every evidence file against the schemas in /root/.vp."""
import json, sys, glob
import jsonschema
ok = True
man = json.load(open('MANIFEST.json'))
try:
    jsonschema.validate(man, json.load(open('/root/.vp/MANIFEST.schema.json')))
except Exception as e:
    ok = False; print('MANIFEST invalid:', e)
es = json.load(open('/root/.vp/EVIDENCE.schema.json'))
for f in sorted(glob.glob('evidence/*.json')):
    try:
        jsonschema.validate(json.load(open(f)), es)
    except Exception as e:
        ok = False; print(f, 'invalid:', str(e)[:300])
props = [json.loads(l)['id'] for l in open('properties.jsonl')]
claimed = {c['property_id'] for c in man['checks']}
na = {c['property_id'] for c in man.get('not_applicable', [])}
for p in props:
    if (p in claimed) == (p in na):
        ok = False; print('property', p, 'must be exactly one of claimed / not_applicable')
print('meta ok' if ok else 'meta INVALID')
sys.exit(0 if ok else 1)
