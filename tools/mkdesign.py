#!/venv/bin/python
"""Regenerate the generated appendices of DESIGN.md (between the GENERATED markers) from what the machinery itself
recorded: evidence/*.json (theorems + axioms), known_findings/*.txt, seeded/*/{meta,result}.json, MANIFEST.json and
the `fix:` commits of /repo.  Hand-written sections are left alone."""
import json
import re
import subprocess
from pathlib import Path

VERIF = Path(__file__).resolve().parents[1]
BEGIN, END = "<!-- BEGIN GENERATED APPENDICES (tools/mkdesign.py) -->", "<!-- END GENERATED APPENDICES -->"
STD = {"propext", "Classical.choice", "Quot.sound"}


def appendix_theorems():
    man = json.load(open(VERIF / "MANIFEST.json"))
    L = ["## Appendix A. Theorems per property (from the evidence files of the last committed run)", "",
         "Axioms: `std` = a subset of {propext, Classical.choice, Quot.sound}; `none` = no axiom at all. "
         "`gen_*` / `*_fact` declarations are the `decide` facts that pin regenerated tables. "
         "Names ending in `_partial` are proved under an explicit guard (see section 11.4).", ""]
    for c in man["checks"]:
        pid = c["property_id"]
        ev = VERIF / "evidence" / f"{pid}.json"
        if not ev.exists():
            continue
        e = json.load(open(ev))
        cov = e.get("coverage", {})
        th = cov.get("theorems", {})
        L.append(f"**{pid}** — obligations {cov.get('obligations')} (theorems {len(th)}, non-vacuity examples {cov.get('examples', '?')}), "
                 f"discharged {cov.get('discharged')}; checker `{str(cov.get('checker_cmd', ''))[:110]}`")
        L.append("")
        names = []
        for n, ax in sorted(th.items()):
            short = n.split(".")[-1]
            tag = "none" if not ax else ("std" if set(ax) <= STD else "+".join(ax))
            names.append(f"`{short}`" + ("" if tag == "std" else f" ({tag})"))
        L.append(", ".join(names) + ".")
        L.append("")
    return L


def appendix_findings():
    L = ["## Appendix B. Known findings (known_findings/*.txt)", "",
         "| property | id | status | what |", "|---|---|---|---|"]
    for f in sorted((VERIF / "known_findings").glob("C*.txt")):
        for line in f.read_text().splitlines():
            line = line.strip()
            if line.startswith("open:"):
                m = re.match(r"open: property=(\S+) id=(\S+) class=(\S+) what=(.*?) witness=", line)
                if m:
                    L.append(f"| {m.group(1)} | {m.group(2)} | open (class `{m.group(3)}`) | {m.group(4)[:330].replace('|', '¦')} |")
            elif line.startswith("fixed:"):
                m = re.match(r"fixed: property=(\S+) (\S+) (.*)", line)
                if m:
                    L.append(f"| {m.group(1)} | — | fixed in /repo `{m.group(2)}` | {m.group(3)[:330].replace('|', '¦')} |")
    L.append("")
    return L


def appendix_seeded():
    L = ["## Appendix C. Seeded changes and which checks catch them (seeded/*/result.json)", "",
         "Each change was written by a fresh sub-agent that saw only the text of one property and a scratch worktree; it compiles, passes the "
         "2382-test baseline, and its own demonstration fails with the patch and passes without (re-confirmed by `tools/seed_intake.py`). "
         "`concrete` = the check printed a VIOLATION with a failing input replayable on the real code; `tie` = a theorem / translator fact / "
         "correspondence broke and the search found no input (`no-failing-input-found`).", "",
         "| change | files | what it does | check(s) run → verdict (quick tier) |", "|---|---|---|---|"]
    for d in sorted((VERIF / "seeded").iterdir()):
        if not (d / "meta.json").exists():
            continue
        m = json.load(open(d / "meta.json"))
        res = json.load(open(d / "result.json")) if (d / "result.json").exists() else {}
        verdicts = []
        for tier, byp in res.items():
            for p, r in sorted(byp.items()):
                v = r.get("violation_lines") or []
                if r.get("rc") == 1 and v:
                    kind = "tie" if "no-failing-input-found" in v[0] else "concrete"
                    why = ""
                    if r.get("replay"):
                        why = (r["replay"].get("why") if kind == "concrete" else ", ".join(r["replay"].get("broken") or [])) or ""
                    verdicts.append(f"{p}{'' if tier == 'quick' else '/' + tier}: **caught** ({kind}; {r.get('wall_s')} s) {str(why)[:110]}")
                elif r.get("rc") == 0:
                    verdicts.append(f"{p}: missed")
                else:
                    verdicts.append(f"{p}: infra rc={r.get('rc')}")
        files = ", ".join(Path(f).name for f in m.get("files", []))
        L.append(f"| {d.name} | {files} | {str(m.get('summary', ''))[:260].replace('|', '¦')} | {'<br>'.join(verdicts).replace('|', '¦')} |")
    L.append("")
    return L


def appendix_fixes():
    out = subprocess.run(["git", "-C", "/repo", "log", "--format=%h %s", "--reverse"], capture_output=True, text=True).stdout.splitlines()
    L = ["## Appendix D. Repairs committed to /repo (`git log`, subjects starting `fix:`)", ""]
    for line in out:
        h, _, s = line.partition(" ")
        if s.startswith("fix:"):
            L.append(f"* `{h}` {s[:240]}")
    L.append("")
    return L


def main():
    p = VERIF / "DESIGN.md"
    s = p.read_text()
    # section 11 is kept in tools/design_section11.md (hand-written) and spliced in here
    sec = (VERIF / "tools" / "design_section11.md").read_text().rstrip("\n")
    rule = "-" * 93
    if "## 11. As built" in s and BEGIN in s:
        a = s.index("## 11. As built")
        b = s.rindex(rule, 0, s.index(BEGIN))
        s = s[:a] + sec + "\n\n" + s[b:]
    gen = "\n".join([BEGIN, ""] + appendix_theorems() + appendix_findings() + appendix_seeded() + appendix_fixes() + [END])
    if BEGIN in s:
        s = s[:s.index(BEGIN)] + gen + s[s.index(END) + len(END):]
    else:
        s = s.rstrip("\n") + "\n\n---------------------------------------------------------------------------------------------\n\n" + gen + "\n"
    p.write_text(s)
    (VERIF / "REPO_FIXES.md").write_text("# Repairs committed to /repo\n\nEvery commit below is unguarded, starts with `fix:`, touches only what one defect needs, and leaves the "
                                         "unedited 2382-test baseline green (`tools/baseline.py`).  Which property each one concerns is recorded in "
                                         "`known_findings/Cxx.txt` (`fixed:` lines) and DESIGN.md Appendix B.\n\n" + "\n".join(appendix_fixes()[2:]) + "\n")
    print("DESIGN.md appendices regenerated")


if __name__ == "__main__":
    main()
