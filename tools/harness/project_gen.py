"""Seeded structured generator + exhaustive small-scope enumerator of model documents
(see project_docs.py for the content model).  All randomness comes from the `random.Random` passed in,
so every case replays from (seed, index)."""
from __future__ import annotations

import itertools

from harness.project_docs import (A, B, BLOCK_KEYS, C, DOC, FILTER_KEYS, NEAR_KEYS, PLAIN_KEYS, S, SECTION_KEYS, vbool, vfloat, vholo,
                                  vimap, vint, vlist, vnull, vpydict, vstr, vzone)

STR_POOL = ["ACTIVE", "DONE", "a", "hello world", "", "1", "true", "héllo", "x y  z", 'a"b', "back\\slash", "semi;colon", "key: value",
            "- item", "# hash", "A→B", "v1.2.3", "1.0", "null", "a, b", "[x]", "{y}", "**bold**", "tab\there", "日本"]
ML_STR_POOL = ["line1\nline2", "p\n\nq"]
INT_POOL = [0, 1, -3, 42, 12345678901234567890]
FLOAT_POOL = ["1.5", "-0.25", "100000.0", "3.0", "1e-07", "1.23e-05", "-2.5e-09", "1e+16", "0.30000000000000004"]
ZONE_POOL = [("x", None, "```"), ("", None, "```"), ("raw ::  text\n  K::v", "py", "```"), ("a\n\nb", None, "```"), ("x\n", "json", "```"),
             ("hard break  \nnext\t", None, "```"), ("a\n\n\n\nb", "txt", "```"), ("\u00a71::LOOKS_LIKE_A_MARKER\n\u00a72::SECOND\ntext", None, "```"), ("   \nend", None, "```"),
             ("```\nin\n```", "md", "````"), ("- **FAKE**: 1\n## H", None, "```"), ('{"a": [1, 2]}', "json", "```")]
HOLO_POOL = ['["x"∧REQ→§SELF]', '["x"∧REQ]', "[1∧RANGE[1,5]]", '["a"∧ENUM[a,b]]', '["x"∧OPT→§META]']
COMMENT_POOL = ["note", "TODO: check", "a // b", "x::y"]
NAME_POOL = ["DOC", "D", "MY_DOC", "X1", "Status"]
SECTION_IDS = ["1", "2", "2b", "10", "0"]

# ---------------------------------------------------------------------------------------------
# STRING values whose text, if it were ever written without its quotes or taken for layout, is something else
# in the language (feature `lookalikes`; C15 turns it on — C14's feature sets do not, its stream is unchanged).
# Three classes; each is a class of legitimate string values, every member must survive as that very string.
# ---------------------------------------------------------------------------------------------
# (a) spelled like a literal or a keyword of this or a neighbouring notation, in the "wrong" case or dialect
LITERAL_LIKE_POOL = ["True", "TRUE", "False", "FALSE", "Null", "NULL", "tRUE", "truE", "nULL", "None", "NONE", "nil", "Nil", "NaN", "nan",
                     "Infinity", "inf", "-inf", "Yes", "yes", "No", "no", "on", "off", "Vs", "VS", "undefined", "true1", "trueX", "nulls",
                     "null/x", "META", "END", "SEAL"]
# (b) would be a comment, a path, a fence, a marker, an operator, a number, a bracket … when written bare
BARE_SYNTAX_POOL = [
    # comment-like / slashes / dots (identifier characters of the lexer that the emitter's identifier pattern does not allow first)
    "//cdn.example.com/app.js", "//fileserver/builds", "//", "// note", "///", "/usr/bin", "/", "./x", "../up", "./run.sh", "a//b", "a/b",
    "src/app.py", "x//", ".", "..", "...", ".gitignore", "x.", "a.b",
    # hyphens / digits first
    "a-", "-a", "-", "--", "--flag", "a-b", "2b", "1abc", "0", "00", "01", "-1", "+1", "1.", ".5", "1e5", "1e", "0x10", "1_000", "1,2", "1.2.3", "v1",
    # fences, separators, envelopes, markers
    "---", "```", "```py", "````", "~~~", "===END===", "===X===", "===", "==", "=", "#x", "#1", "#", "# x", "§x", "§1", "§",
    "§1::X", "§SEAL::SEAL", "OCTAVE::6.0.0", "META:",
    # assignment / block operators
    "::", "a::b", "K::v", ":", "a:", "a:b", ":a",
    # expression operators, ASCII aliases, sigils
    "→", "->", "a->b", "<->", "a<->b", "⊕", "+", "a+b", "&", "a&b", "∧", "a∧b", "|", "a|b", "∨", "~", "a~b", "⧺",
    "a⧺b", "⇌", "a⇌b", "a vs b", "@", "@x", "a@b", "$", "$VAR", "$1:name", "*", "?", "!", "%", "^", "⚡",
    # brackets, annotations, constructors, separators, quotes, escapes
    "<", ">", "<x>", "a<b>", "NAME<q>", "NEVER<A,B>", "a<", "[", "]", "[]", "[a]", "a[1]", "{", "}", "{}", "{a}", "(", ")", "()", "a(b)", "FN(x)",
    ",", "a,b", ",a", ";", "'", "'a'", '"', '""', '"a"', "\\", "\\n", "\\t", "a\\", "\\\"",
    # blanks
    " ", "  a", "a ", " a b ", "\ta", "a\t", "a\n", "\n", "\n\n",
]
# the emitter protects a reserved word followed by a non-word character (true.x); the harness's own renderer (project_docs.render, not
# ours to edit) writes those bare, so they are used on the API route only
RESERVED_PREFIX_POOL = ["true.x", "true-x", "false.y", "null-y", "vs.", "vs.a"]
# (c) contains a character that str.splitlines() / some editors take for a line boundary although it is not "\n": legal inside a
# quoted string and inside a literal zone, kept verbatim by reader and emitter
LINE_BOUNDARY_CHARS = ["\u2028", "\u2029", "\x0c", "\x0b", "\x85", "\x1c", "\x1d", "\x1e", "\r"]
LINE_BOUNDARY_POOL = (["first paragraph\u2028second paragraph", "p1\u2029p2", "page1\x0cpage2", "col\x0bcol", "nel\x85nel", "fs\x1cgs\x1drs\x1eus\x1fend",
                       "cr\rcr", "crlf\r\nend", "\u2028", "\x0c", "\x85", "\r", "tail\u2029", "\x0bhead", "two\u2028\u2028breaks", "mixed\u2028\x0c\x85\x0b"]
                      + ["a%sb" % c for c in ("\x1c", "\x1d", "\x1e")])
LOOKALIKE_POOL = LITERAL_LIKE_POOL + BARE_SYNTAX_POOL + LINE_BOUNDARY_POOL
ZONE_LINE_BOUNDARY_POOL = [("a\u2028b", None, "```"), ("p1\u2029p2\nnext", "txt", "```"), ("page1\x0cpage2", None, "```"), ("v\x0bt", "py", "```"), ("n\x85l", None, "```"),
                           ("fs\x1cgs\x1drs\x1e", None, "```"), ("\u2028", None, "```"), ("line\n\x0c\nline", None, "```"), ("cr\rcr", None, "```"), ("x\u2028\n", "json", "```")]


def lookalike_docs(strings=None, zones=None):
    """Deterministic family: for each string of the three classes one document per POSITION GROUP a string value can take
    — scalar (nested in a block, in a section, and as the last node before the seal), list item (first of a one-line list, middle of a
    multi-line list, last item, value of an inline map, item of a list inside an inline map) and META (field value, item of a META list) —
    and for each zone of class (c) one document with that literal zone (nested and last).  [(label, doc)]."""
    out = []
    for s in (LOOKALIKE_POOL + RESERVED_PREFIX_POOL if strings is None else strings):
        v = vstr(s)
        out.append(("scalar", s, DOC([A("FIRST", vint(1)), B("BLK", [A("INNER", v), A("NEXT", vint(2))]), S("1", "SEC", [A("INSEC", v)]), A("K", v)], name="DOC")))
        out.append(("list", s, DOC([A("L1", vlist([v, vint(1)])), A("L3", vlist([vstr("a"), v, vstr("b")])), A("LAST", vlist([vstr("a"), v])),
                                    A("M", vlist([vimap([("k", v)]), vimap([("k2", vlist([v, vstr("z")]))])])), A("AFTER", vint(1))], name="DOC")))
        out.append(("meta", s, DOC([A("K", vint(1))], name="DOC", meta=[("TYPE", v), ("TAGS", vlist([v, vstr("t")])), ("OWNER", vstr("o"))])))
    for c, tag, f in (ZONE_LINE_BOUNDARY_POOL if zones is None else zones):
        out.append(("zone", c, DOC([B("BLK", [A("Z", vzone(c, tag, f)), A("NEXT", vint(2))]), A("ZLAST", vzone(c, tag, f))], name="DOC", meta=[("TYPE", vstr("T"))])))
    return out


def scalar(rng, md_safe=True, feats=()):
    r = rng.random()
    if r < 0.45:
        if "lookalikes" in feats and rng.random() < 0.3:
            return vstr(rng.choice(LOOKALIKE_POOL))
        pool = STR_POOL if (md_safe or rng.random() < 0.7) else ML_STR_POOL
        return vstr(rng.choice(pool))
    if r < 0.65:
        return vint(rng.choice(INT_POOL))
    if r < 0.75:
        return vfloat(rng.choice(FLOAT_POOL))
    if r < 0.9:
        return vbool(rng.random() < 0.5)
    return vnull()


def list_value(rng, feats, depth=0, from_text=True):
    n = rng.choice([0, 1, 1, 2, 2, 3, 4])
    items = []
    for _ in range(n):
        r = rng.random()
        if r < 0.15 and depth < 2:
            items.append(list_value(rng, feats, depth + 1, from_text))
        elif r < 0.3 and "imaps" in feats and depth == 0:
            # the reader yields one single-pair InlineMap per `k::v` item; the API allows any number of pairs
            npairs = 1 if from_text else rng.choice([0, 1, 2, 3])
            keys = rng.sample(["k", "k2", "id", "STATUS", "n"], npairs)
            items.append(vimap((k, scalar(rng, feats=feats)) if rng.random() < 0.8 or not from_text else (k, vlist([scalar(rng, feats=feats) for _ in range(rng.choice([0, 1, 2]))])) for k in keys))
        else:
            items.append(scalar(rng, feats=feats))
    return vlist(items)


def value(rng, feats, from_text=True):
    r = rng.random()
    if r < 0.5:
        return scalar(rng, md_safe="mlstr" not in feats, feats=feats)
    if r < 0.75 and "lists" in feats:
        return list_value(rng, feats, 0, from_text)
    if r < 0.85 and "zones" in feats:
        c, tag, f = rng.choice(ZONE_LINE_BOUNDARY_POOL if "lookalikes" in feats and rng.random() < 0.25 else ZONE_POOL)
        return vzone(c, tag, f)
    if r < 0.92 and "holo" in feats:
        return vholo(rng.choice(HOLO_POOL))
    if r < 0.97 and "imaps" in feats and not from_text:
        keys = rng.sample(["k", "k2", "id", "CI"], rng.choice([0, 1, 2]))
        return vimap((k, scalar(rng, feats=feats)) for k in keys)
    return scalar(rng, feats=feats)


def key(rng, feats, used, kind="a"):
    """Sibling keys are distinct unless the `dups` feature is on."""
    for _ in range(50):
        r = rng.random()
        if r < 0.35:
            k = rng.choice(FILTER_KEYS)
        elif r < 0.5:
            k = rng.choice(NEAR_KEYS)
        elif kind == "a":
            k = rng.choice(PLAIN_KEYS)
        elif kind == "b":
            k = rng.choice(BLOCK_KEYS + PLAIN_KEYS[:3])
        else:
            k = rng.choice(SECTION_KEYS + FILTER_KEYS[:2])
        if "dups" in feats and used and rng.random() < 0.35:
            k = rng.choice(sorted(used))
        if k not in used or "dups" in feats:
            used.add(k)
            return k
    k = "U%d" % len(used)
    used.add(k)
    return k


def comments(rng, feats):
    if "comments" in feats and rng.random() < 0.2:
        return [rng.choice(COMMENT_POOL) for _ in range(rng.choice([1, 1, 2]))]
    return None


def lc_ok(out, depth, from_text):
    """Leading comments only where the reader attaches them to the node that follows: after an assignment
    sibling, or as first child of a container (a comment after a container's last line is captured by
    that container; a comment before the first top-level node is dropped — C02 findings, not ours)."""
    if not from_text:
        return True
    if not out:
        return depth > 0
    return out[-1]["n"] == "a"


def children(rng, feats, depth, maxdepth, from_text, in_section=False):
    n = rng.choice([0, 1, 2, 2, 3, 4]) if depth > 0 else rng.choice([1, 2, 3, 4, 5, 6])
    used: set = set()
    kinds = []
    for _ in range(n):
        r = rng.random()
        if r < 0.6 or depth >= maxdepth:
            kinds.append("a")
        elif r < 0.9:
            kinds.append("b")
        elif "sections" in feats and (depth == 0 or in_section or "nested_sections" in feats):
            kinds.append("s")
        else:
            kinds.append("a")
    if depth > 0 and "assign_after_block" not in feats:
        kinds.sort(key=lambda k: 0 if k == "a" else 1)      # assignments first, then containers
    out = []
    for i, kd in enumerate(kinds):
        last = i == len(kinds) - 1
        if kd == "a":
            v = value(rng, feats, from_text)
            tc = rng.choice(COMMENT_POOL[:2]) if ("comments" in feats and rng.random() < 0.1 and v["t"] not in ("zone", "list")) else None
            out.append(A(key(rng, feats, used, "a"), v, comments(rng, feats) if lc_ok(out, depth, from_text) else None, tc))
        elif kd == "b":
            ch = children(rng, feats, depth + 1, maxdepth, from_text, False)
            if not ch and from_text and (depth > 0 or not last):
                # an empty nested block/section captures the lines that follow it (lenient reader): keep
                # text documents inside what reads back as written
                ch = [A(key(rng, feats, set(), "a"), scalar(rng, feats=feats))]
            out.append(B(key(rng, feats, used, "b"), ch, comments(rng, feats) if lc_ok(out, depth, from_text) else None))
        else:
            ch = children(rng, feats, depth + 1, maxdepth, from_text, True)
            if not ch and from_text and (depth > 0 or not last):
                ch = [A(key(rng, feats, set(), "a"), scalar(rng, feats=feats))]
            out.append(S(rng.choice(SECTION_IDS), key(rng, feats, used, "s"), ch, comments(rng, feats) if lc_ok(out, depth, from_text) else None))
        if "comments" in feats and not from_text and rng.random() < 0.08:
            out.append(C(rng.choice(COMMENT_POOL)))
    return out


def meta(rng, feats, from_text=True):
    if "meta" not in feats or rng.random() < 0.3:
        return []
    ps = [("TYPE", vstr(rng.choice(LOOKALIKE_POOL) if "lookalikes" in feats and rng.random() < 0.2 else rng.choice(["TEST", "SESSION_LOG", "x y"])))]
    if rng.random() < 0.6:
        ps.append(("VERSION", vstr(rng.choice(["1.0", "2.1.0", "v3"]))))
    if rng.random() < 0.3:
        ps.append((rng.choice(["STATUS", "TESTS", "OWNER"]), scalar(rng, feats=feats)))
    if rng.random() < 0.3 and "lists" in feats:
        ps.append(("TAGS", vlist([scalar(rng, feats=feats) for _ in range(rng.choice([0, 1, 2, 3]))])))
    if "meta_nested" in feats and rng.random() < 0.6:
        inner = [("J", scalar(rng, feats=feats))]
        if rng.random() < 0.6:
            inner.append(("L", vlist([scalar(rng, feats=feats) for _ in range(rng.choice([1, 2]))])))
        ps.append(("SUB", vpydict(inner)))
    return ps


CLEAN_FEATS = ("lists", "imaps", "zones", "meta", "comments")
ALL_FEATS = CLEAN_FEATS + ("sections", "nested_sections", "dups", "holo", "assign_after_block", "meta_nested", "mlstr")


def gen_doc(rng, feats=CLEAN_FEATS, maxdepth=3, from_text=True, envelope=False):
    secs = children(rng, feats, 0, maxdepth, from_text)
    if from_text and secs and secs[0].get("lc"):
        secs[0].pop("lc")       # a comment before the first node is dropped by the reader (finding F6 of C02)
    d = DOC(secs, name=rng.choice(NAME_POOL), meta=meta(rng, feats, from_text))
    if envelope:
        if rng.random() < 0.25:
            d["sep"] = True
        if rng.random() < 0.25:
            d["front"] = rng.choice(["name: x", "title: T\ntags: [a, b]"])
        if rng.random() < 0.3 and (d["front"] is None or (not from_text and rng.random() < 0.3)):
            # frontmatter followed by the grammar sentinel is not re-readable today (the sentinel is read as an
            # assignment and the envelope is lost): only API-built documents combine them (known finding of C15)
            d["gv"] = rng.choice(["5.1.0", "6.0.0"])
    return d


# ---------------------------------------------------------------------------------------------
# exhaustive small scope
# ---------------------------------------------------------------------------------------------
def templates(feats):
    """Node templates for the exhaustive enumeration: every construct the property lists, the filter keys
    at top level and nested, near-miss keys, every value kind."""
    t = [
        A("STATUS", vstr("ACTIVE")), A("TESTS", vlist([vstr("t1"), vint(2)])), A("A", vint(1)), A("STAT", vstr("x")),
        A("K", vlist([vstr("a"), vstr("b"), vstr("c")])), A("L", vlist([vimap([("k", vstr("v"))]), vimap([("k2", vint(2))])])),
        A("Z", vzone("raw ::  text", "py", "```")), A("E", vlist([])), A("N", vnull()), A("T", vbool(True)), A("F", vfloat("1.5")),
        A("Q", vstr("1")), A("NN", vlist([vlist([vstr("a")]), vlist([])])),
        B("BLK", [A("X", vint(1)), A("RISKS", vlist([vstr("r1"), vstr("r2")]))]),
        B("CI", [A("X", vint(1)), B("INNER", [A("Y", vstr("deep"))])]),
        B("OUT", [A("P", vint(0)), B("MID", [A("DEPS", vstr("d")), A("Q", vbool(False))])]),
        B("DECISIONS", []), B("EMPTY", []),
        # nesting deeper than the six heading levels Markdown has (the rendering must still show every level)
        B("D1", [B("D2", [B("D3", [B("D4", [B("D5", [B("D6", [B("D7", [A("DEEP_LEAF", vstr("bottom")), B("D8", [A("STATUS", vstr("deepest"))])])])])])])])]),
        A("ZW", vzone("hard break  \nnext\t\n\n\n\nend", None, "```")),
        B("PLAIN", [A("P", vint(1))]),
    ]
    if "sections" in feats:
        t += [S("1", "SEC", [A("S1", vint(1)), A("TESTS", vstr("t")), B("SB", [A("CI", vstr("yes"))])]), S("2", "RISKS", [])]
    if "dups" in feats:
        t += [A("A", vint(2)), B("BLK", [A("X", vint(9))]), B("DUPS", [A("X", vint(1)), A("X", vint(2))])]
    if "holo" in feats:
        t += [A("H", vholo('["x"∧REQ→§SELF]'))]
    if "assign_after_block" in feats:
        t += [B("MIX", [A("P", vint(1)), B("IN", [A("Q", vint(2))]), A("R", vint(3))])]
    return t


def exhaustive(feats, width):
    """All top-level sequences of `width` templates (ordered, repetition allowed only with the `dups` feature)."""
    ts = templates(feats)
    docs = []
    for combo in itertools.product(range(len(ts)), repeat=width):
        nodes = [ts[i] for i in combo]
        keys = [n["k"] for n in nodes if n["n"] in ("a", "b")]
        if "dups" not in feats and len(set(keys)) != len(keys):
            continue
        # an empty block/section directly followed by a sibling stays a sibling at top level (checked), fine
        docs.append(DOC([dict(n) for n in nodes], name="DOC", meta=[("TYPE", vstr("T"))] if len(combo) % 2 else []))
    return docs
