"""Content-model document generator for the text engine (C01 C02 C03 C05 C07 C09 C15).

A *content model* is a plain Python tree saying what a document contains, independently of any
parser.  `render(model, spelling)` writes it as OCTAVE text, choosing at every site one of the
documented lenient spellings (or the canonical one), and records
  * the expected AST content (JSON form of tools/harness/text.py, positions included where the
    renderer knows them), and
  * the rewrite receipts the reader is documented to issue for the non-canonical choices
    (kind, original, replacement, line, column).
All randomness comes from the `random.Random` handed in, so a case is replayable from its seed.
"""
from __future__ import annotations

import random

ALIASES = {"→": ["->"], "⊕": ["+"], "⧺": ["~"], "⇌": ["vs", "<->"], "∨": ["|"], "∧": ["&"], "§": ["#"]}
KEYS = ["K", "KEY_2", "a.b", "x-y", "Name", "STATUS", "RISKS", "TESTS", "Ünï", "k9", "_p", "ID", "PATTERN", "REGEX"]
ALWAYS_QUOTE = ("PATTERN", "REGEX")
WORDS = ["alpha", "Beta", "g_1", "x.y", "done", "ACTIVE", "pend-ing", "truex", "nullable", "vsx", "A1", "True", "NULL", "FALSE"]
PLAIN_QUOTED = ["cr\rhere", "two words", "a,b", "x:y", "has \"q\"", "back\\slash", "tab\there", "nl\nline", "", "1abc", "true", "null", "vs",
                "-dash", "é accent", "a→b c", "[br]", "# hash", "// not comment", "50%", "a=b", "(p)", "semi;colon", "$", "§ref x",
                "//server/share", "//cdn.example.com/lib.js", "/usr/bin", "./src", "docs/readme.md", "a//b", "http://x/y", "1.0rc1", "2.5e-05x",
                "a→true", "X@null", "Speed→vs", "A⊕false.x", "true.", "null-x", "vs.a", "NAME{q}", "x<y>", "a<>", "N<a,b>", "\\n", "end\\",
                # strings that BEGIN or END with a layout character (line break, blank, tab): every quoting style must keep them
                "\nlead", "trail\n", "\n", "\n\ntwo", "\n  indented\n", " lead", "trail ", " ", "\tlead", "trail\t", "\n== banner ==\n"]
MW_EXTRA = ['"List<str>"', '"<docs>"', '"two words"', "42", '"1"', '"a→b"']
COMMENTS = ["note", "TODO: x", "a // b", "ünï", "x::y", "-> arrow", "\"q\""]
ZONE_LINES = ["plain", "  indented", "\ttab", "A::1", "===END===", "---", "``", "a -> b", "é́ nfd", "back\\slash \\n", "\"quoted\"",
              "x & y | z # w", "trailing  ", "", "// c", "[1,2", "true", "see \"x\" then \\textbf{important}", "// url http://h/p PKG{latest}",
              "NAME{q} and A{b}", "K::\"s\" // c X{y}", "Ω{x} ́combining"]
SHORT_FENCE_TAILS = ["", "", "cafe\u0301 title", "py", "  ", "é́"]
TAGS = [None, "python", "json", "oct"]
DEEP_NESTING = 5     # documented advisory threshold (docs/grammar/octave-v1.0-grammar.ebnf §6: "Warning at depth 5")


class Spelling:
    """Lenient choices; `canonical=True` makes every choice the canonical one."""

    def __init__(self, rng: random.Random, canonical: bool = False, p: float = 0.5, only: set | None = None, envelope: bool = False,
                 extreme: bool = False, alias_index: int | None = None, triple: str | None = None):
        self.rng, self.canonical, self.p, self.only = rng, canonical, p, only
        # deterministic corners for the fixed families: which ASCII alias of an operator (index into ALIASES[op], clipped) and
        # which triple-quoted form ("raw" line breaks / "esc" escape sequences) a site takes WHEN it takes a non-canonical option
        self.alias_index, self.triple = alias_index, triple
        # extreme: EVERY applicable site takes a non-canonical option (the far corner of the spelling space)
        self.extreme = extreme
        # may the envelope line of a document named INFERRED be left out?  A reader feature (C01/C02 exercise it); the tools treat
        # text without an envelope as plain text to wrap, so tool-level checks and C03's freedoms do not use it
        self.envelope = envelope

    def flip(self, kind: str) -> bool:
        if self.canonical or (self.only is not None and kind not in self.only):
            return False
        return True if self.extreme else self.rng.random() < self.p

    def choice(self, kind: str, options):
        if self.canonical or (self.only is not None and kind not in self.only):
            return options[0]
        return self.rng.choice(options[1:] if (self.extreme and len(options) > 1) else options)


class Writer:
    def __init__(self):
        self.lines = [""]
        self.receipts = []
        self.advisories = []       # expected non-rewrite records (deep_nesting), see r_value
        self.deep_lines = set()

    @property
    def line(self):
        return len(self.lines)

    @property
    def col(self):
        return len(self.lines[-1]) + 1

    def w(self, s: str):
        parts = s.split("\n")
        self.lines[-1] += parts[0]
        for p in parts[1:]:
            self.lines.append(p)

    def nl(self):
        self.lines.append("")

    def text(self):
        return "\n".join(self.lines)


# ---------------------------------------------------------------------------------------------
# generation of content models
# ---------------------------------------------------------------------------------------------

def gen_scalar(rng, allow_multi=True):
    r = rng.random()
    if r < 0.22:
        return {"t": "word", "v": rng.choice(WORDS)}
    if r < 0.40:
        return {"t": "qstr", "v": rng.choice(PLAIN_QUOTED)}
    if r < 0.50 and allow_multi:
        # a multi-word bare value: the first word is a plain word, later ones may be quoted words (kept WITH their quotes in the
        # coalesced string) or numbers
        return {"t": "words", "v": [rng.choice(WORDS)] + [rng.choice(WORDS + MW_EXTRA) for _ in range(rng.randint(1, 2))]}
    if r < 0.62:
        return {"t": "int", "v": rng.choice([0, 1, -1, 42, 10**12, -7, 2024])}
    if r < 0.68:
        return {"t": "float", "v": rng.choice([3.14, -0.5, 1e16, 2.5e-07, 100.0])}
    if r < 0.76:
        return {"t": "bool", "v": rng.random() < 0.5}
    if r < 0.82:
        return {"t": "null"}
    if r < 0.88:
        return {"t": "var", "v": rng.choice(["$VAR", "$1:role", "$x_2"])}
    if r < 0.94:
        return {"t": "ann", "name": rng.choice(["NEVER", "Athena", "T_1"]), "args": [rng.choice(WORDS[:6]) for _ in range(rng.randint(1, 2))]}
    return {"t": "version", "v": rng.choice(["1.2.3", "0.1.0-beta.1", "2.0+build"])}


def gen_expr(rng):
    n = rng.randint(2, 4)
    # two or more tension operators in one expression (`A vs B vs C`) are accepted by the lenient reader (advisory
    # spec_violation/chained_tension, no rewrite) and canonicalise to A⇌B⇌C: members of the C01/C03 quantifiers like any other
    ops = [rng.choice(["→", "⊕", "⧺", "⇌", "∨", "@"]) for _ in range(n - 1)]
    return {"t": "expr", "operands": [rng.choice(WORDS[:7]) for _ in range(n)], "ops": ops}


def gen_zone(rng):
    n = rng.choice([0, 1, 1, 2, 3, 5])
    lines = [rng.choice(ZONE_LINES) for _ in range(n)]
    if lines == [""]:
        lines = ["x", ""]
    flen = rng.choice([3, 3, 4, 5, 6])
    if rng.random() < 0.35 and flen > 3:
        # a shorter backtick run (with or without trailing text) is zone CONTENT and must stay verbatim
        lines.insert(rng.randint(0, len(lines)), "`" * rng.randint(3, flen - 1) + rng.choice(SHORT_FENCE_TAILS))
    return {"t": "zone", "lines": lines, "tag": rng.choice(TAGS), "fence": flen}


def gen_value(rng, depth=0, atom=False):
    r = rng.random()
    if atom or depth >= 3 or r < 0.55:
        return gen_scalar(rng)
    if r < 0.70:
        return gen_expr(rng)
    if r < 0.92:
        n = rng.choice([0, 1, 2, 2, 3, 4])
        items = []
        for _ in range(n):
            q = rng.random()
            if q < 0.2 and depth < 2:
                items.append({"t": "pair", "k": rng.choice(KEYS[:6]), "v": gen_scalar(rng, allow_multi=False)})
            elif q < 0.35 and depth < 2:
                sub = gen_value(rng, depth + 1)
                items.append(sub if sub["t"] != "zone" else gen_scalar(rng, allow_multi=False))
            else:
                items.append(gen_scalar(rng, allow_multi=False))
        return {"t": "list", "items": items}
    return gen_zone(rng)


def gen_comments(rng, p=0.2):
    return [rng.choice(COMMENTS) for _ in range(rng.choice([1, 1, 2]))] if rng.random() < p else []


def gen_nodes(rng, depth, n, in_section=False, zones=True):
    nodes = []
    for _ in range(n):
        r = rng.random()
        lead = gen_comments(rng)
        if r < 0.62 or depth >= 3:
            key = rng.choice(KEYS)
            v = gen_value(rng)
            if v["t"] == "zone" and not zones:
                v = gen_scalar(rng)
            trail = rng.choice(COMMENTS + [""]) if (rng.random() < (0.3 if v["t"] == "list" else 0.15) and v["t"] != "zone") else None
            nodes.append({"t": "assign", "lead": lead, "k": key, "v": v, "trail": trail})
        elif r < 0.9:
            ch = gen_nodes(rng, depth + 1, rng.choice([0, 1, 1, 2, 3]), zones=zones)
            if zones and ch and rng.random() < 0.12:
                pos = rng.randint(0, len(ch))
                if not (pos > 0 and ch[pos - 1]["t"] == "block" and not ch[pos - 1]["ch"]):
                    ch.insert(pos, {"t": "bzone", "lead": gen_comments(rng, 0.2), "v": gen_zone(rng)})
            orphan = gen_comments(rng, 0.1) if ch else []
            nodes.append({"t": "block", "lead": lead, "k": rng.choice(KEYS), "target": rng.choice([None, None, "T", "SELF"]),
                          "ch": ch, "orphan": orphan})
        else:
            nodes.append({"t": "assign", "lead": lead, "k": rng.choice(KEYS), "v": gen_scalar(rng), "trail": None})
    return nodes


def gen_doc(rng: random.Random, size: int = 4, zones: bool = True, sections: bool = True, meta: bool = True,
            frontmatter: bool = True) -> dict:
    d = {"name": rng.choice(["DOC", "My_Doc", "_x9", "DOC", "INFERRED"]), "gv": None, "fm": None, "meta": [], "sep": False, "nodes": [], "trailing": []}
    if frontmatter and rng.random() < 0.15:
        d["fm"] = rng.choice(["name: Agent (Specialist)\ndescription: x: y", "a: 1", "title: \"q\"\n# yaml comment"])
    if rng.random() < 0.2:
        d["gv"] = rng.choice(["5.1.0", "6", "6.0.0-beta.1"])
    if meta and rng.random() < 0.6:
        for _ in range(rng.randint(1, 3)):
            k = rng.choice(["TYPE", "VERSION", "STATUS", "OWNER", "X_1"])
            if any(k == e[0] for e in d["meta"]):
                continue
            if rng.random() < 0.2:
                def nv():
                    v = gen_value(rng, depth=1)
                    return v if v["t"] != "zone" else gen_scalar(rng)
                d["meta"].append([k, {"nested": [[kk, nv()] for kk in rng.sample(["A", "B", "C"], rng.randint(1, 2))]}])
            else:
                v = gen_value(rng, depth=1)
                if v["t"] == "zone":
                    v = gen_scalar(rng)
                d["meta"].append([k, v])
        d["sep"] = rng.random() < 0.4
    d["nodes"] = gen_nodes(rng, 0, rng.randint(1, size), zones=zones)
    if sections and rng.random() < 0.4:
        for i in range(rng.randint(1, 2)):
            sid = rng.choice([str(i + 1), f"{i + 1}b", "CONTEXT"])
            d["nodes"].append({"t": "section", "lead": gen_comments(rng, 0.1), "id": sid, "name": rng.choice(["NAME", "RULES", sid if not sid[0].isdigit() else "S"]),
                               "ann": rng.choice([None, None, "a,b", "x"]), "ch": gen_nodes(rng, 1, rng.randint(1, 3), zones=zones)})
    if rng.random() < 0.15:
        d["trailing"] = gen_comments(rng, 1.0)
    return d


# ---------------------------------------------------------------------------------------------
# canonical value semantics (what the AST value is) — independent of the parser
# ---------------------------------------------------------------------------------------------

def value_json(v):
    """Expected AST value (JSON form) of a content-model value."""
    t = v["t"]
    if t == "word" or t == "qstr" or t == "var" or t == "version":
        return {"s": v["v"]}
    if t == "words":
        return {"s": " ".join(v["v"])}
    if t == "int":
        return {"i": str(v["v"])}
    if t == "float":
        return {"f": repr(v["v"])}
    if t == "bool":
        return v["v"]
    if t == "null":
        return None
    if t == "ann":
        return {"s": f"{v['name']}<{','.join(v['args'])}>"}
    if t == "expr":
        s = v["operands"][0]
        for op, o in zip(v["ops"], v["operands"][1:]):
            s += op + o
        return {"s": s}
    if t == "list":
        return {"l": [value_json(i) for i in v["items"]]}
    if t == "pair":
        return {"m": [[v["k"], value_json(v["v"])]]}
    if t == "zone":
        return {"z": {"c": "\n".join(v["lines"]), "t": v["tag"], "m": "`" * v["fence"]}}
    raise ValueError(t)


def expected_doc(d) -> dict:
    """Expected content of the parsed document (JSON form without positions)."""
    def node(n):
        if n["t"] == "assign":
            return {"a": {"k": n["k"], "v": value_json(n["v"]), "lead": n["lead"], "trail": n["trail"]}}
        if n["t"] == "bzone":
            return {"a": {"k": "", "v": value_json(n["v"]), "lead": n["lead"], "trail": None}}
        if n["t"] == "block":
            return {"b": {"k": n["k"], "ch": [node(c) for c in n["ch"]] + [{"c": c} for c in n["orphan"]], "lead": n["lead"], "target": n["target"]}}
        if n["t"] == "section":
            return {"sec": {"id": n["id"], "k": n["name"], "ann": n["ann"], "ch": [node(c) for c in n["ch"]], "lead": n["lead"]}}
        raise ValueError(n["t"])
    meta = []
    for k, v in d["meta"]:
        meta.append([k, {"d": [[kk, value_json(vv)] for kk, vv in v["nested"]]} if "nested" in v else {"v": value_json(v)}])
    return {"name": d["name"], "meta": meta, "sep": d["sep"], "sections": [node(n) for n in d["nodes"]], "gv": d["gv"], "fm": d["fm"],
            "trailing": d["trailing"]}


def strip_positions(j):
    """Remove ln/col from an AST JSON (content view)."""
    if isinstance(j, dict):
        return {k: strip_positions(v) for k, v in j.items() if k not in ("ln", "col")}
    if isinstance(j, list):
        return [strip_positions(x) for x in j]
    return j


# ---------------------------------------------------------------------------------------------
# rendering
# ---------------------------------------------------------------------------------------------

def _escape(s):
    return s.replace("\\", "\\\\").replace('"', '\\"').replace("\n", "\\n").replace("\t", "\\t")


def _sp(sp: Spelling, kind="space"):
    return sp.choice(kind, ["", " ", "  "])


def r_op(w: Writer, sp: Spelling, op: str, spaced_ok=True):
    """write an operator, possibly as an ASCII alias (receipt: normalization)."""
    alias = None
    if op in ALIASES and sp.flip("alias"):
        alias = sp.rng.choice(ALIASES[op]) if sp.alias_index is None else ALIASES[op][min(sp.alias_index, len(ALIASES[op]) - 1)]
    if alias == "vs":
        w.w(" ")
        w.receipts.append(["normalization", "vs", {"s": op}, w.line, w.col])
        w.w("vs ")
        return
    pre = _sp(sp) if spaced_ok else ""
    w.w(pre)
    if alias:
        w.receipts.append(["normalization", alias, {"s": op}, w.line, w.col])
        w.w(alias)
    else:
        w.w(op)
    w.w(_sp(sp) if spaced_ok else "")


def r_scalar(w: Writer, sp: Spelling, v, in_list=False):
    t = v["t"]
    if t == "word":
        q = sp.choice("quotes", ["bare", "quoted", "triple"])
        if q == "bare":
            w.w(v["v"])
        elif q == "quoted":
            w.w('"' + v["v"] + '"')
        else:
            w.receipts.append(["normalization", '"""', {"s": v["v"]}, w.line, w.col])
            w.w('"""' + v["v"] + '"""')
    elif t == "qstr":
        s = v["v"]
        raw_ok = "\\" not in s and '"""' not in s and not s.endswith('"') and "\t" not in s
        if sp.flip("quotes") and (raw_ok or sp.flip("quotes")):
            w.receipts.append(["normalization", '"""', {"s": s}, w.line, w.col])
            if raw_ok and (sp.triple == "raw" if sp.triple else sp.choice("quotes", [True, True, False])):
                # a triple-quoted string may span lines (raw newline = newline in the value)
                w.w('"""' + s + '"""')
            else:
                # ... and it reads the same escape sequences as a quoted string, so ANY string can be written this way
                w.w('"""' + _escape(s) + '"""')
        else:
            w.w('"' + _escape(s) + '"')
    elif t == "words":
        if sp.flip("multiword") and not in_list:
            w.receipts.append(["multi_word_coalesce", list(v["v"]), " ".join(v["v"]), "", w.line, w.col])
            w.w((" " if not sp.canonical and sp.rng.random() < 0.3 else " ").join(v["v"]))
        else:
            w.w('"' + _escape(" ".join(v["v"])) + '"')
    elif t == "int":
        w.w(str(v["v"]))
    elif t == "float":
        w.w(repr(v["v"]))
    elif t == "bool":
        w.w("true" if v["v"] else "false")
    elif t == "null":
        w.w("null")
    elif t == "var":
        w.w(v["v"])
    elif t == "version":
        w.w(v["v"] if sp.flip("quotes") else '"' + v["v"] + '"')
    elif t == "ann":
        if sp.flip("constructor"):
            w.w(v["name"] + "[" + ",".join(v["args"]) + "]")
        else:
            w.w(v["name"] + "<" + ",".join(v["args"]) + ">")
    else:
        raise ValueError(t)


def r_value(w: Writer, sp: Spelling, v, indent: int, in_list=False, ldepth: int = 0):
    t = v["t"]
    if t == "expr":
        w.w(v["operands"][0])
        for op, o in zip(v["ops"], v["operands"][1:]):
            r_op(w, sp, op)
            w.w(o)
    elif t == "list":
        items = v["items"]
        multi = sp.flip("layout") and len(items) > 0
        # advisory the reader is documented to give (grammar §6: "warning at depth 5"): the first bracket of a LINE that opens
        # nesting level >= 5 — known here from the model's own nesting, not from any bracket counting over the text
        if ldepth + 1 >= DEEP_NESTING and w.line not in w.deep_lines:
            w.deep_lines.add(w.line)
            w.advisories.append(["deep_nesting", ldepth + 1, DEEP_NESTING, w.line, w.col])
        w.w("[")
        if not items:
            w.w(_sp(sp))    # `[ ]`: blanks inside an empty list are layout
        for i, it in enumerate(items):
            if multi:
                w.nl()
                w.w(" " * (indent + sp.choice("indent", [2, 1, 3, 4])))
            else:
                w.w(_sp(sp))
            if it["t"] == "pair":
                w.w(it["k"] + _sp(sp) + "::" + _sp(sp))
                if it["k"] in ALWAYS_QUOTE and isinstance(value_json(it["v"]), dict) and "s" in value_json(it["v"]):
                    w.w('"' + _escape(value_json(it["v"])["s"]) + '"')
                else:
                    r_scalar(w, sp, it["v"], in_list=True)
            elif it["t"] in ("list", "expr"):
                r_value(w, sp, it, indent + 2, in_list=True, ldepth=ldepth + 1)
            elif it["t"] == "zone":
                raise ValueError("zone inside list not rendered")
            else:
                r_scalar(w, sp, it, in_list=True)
            w.w(_sp(sp))
            if i < len(items) - 1 or (sp.flip("layout") and multi):
                w.w(",")
        if multi:
            w.nl()
            w.w(" " * indent)
        w.w("]")
    else:
        r_scalar(w, sp, v, in_list=in_list)


def r_zone(w: Writer, v, fence_indent: int):
    w.w(" " * fence_indent + "`" * v["fence"] + (v["tag"] or ""))
    for ln in v["lines"]:
        w.nl()
        w.w(ln)
    w.nl()
    w.w(" " * fence_indent + "`" * v["fence"])


def _eol(w: Writer, sp: Spelling):
    if sp.flip("trailing_space"):
        w.w(" " * sp.rng.randint(1, 3))
    w.nl()
    while sp.flip("blank") and sp.rng.random() < 0.5:
        if sp.rng.random() < 0.3:
            w.w(" " * sp.rng.randint(1, 4))
        w.nl()


def r_comments(w: Writer, sp: Spelling, comments, indent):
    for c in comments:
        w.w(" " * indent + "//" + sp.choice("space", [" ", "", "  "]) + c)
        _eol(w, sp)


def r_nodes(w: Writer, sp: Spelling, nodes, indent: int):
    for n in nodes:
        r_comments(w, sp, n.get("lead", []), indent)
        if n["t"] == "bzone":
            r_zone(w, n["v"], indent)
            _eol(w, sp)
        elif n["t"] == "assign":
            w.w(" " * indent + n["k"] + _sp(sp) + "::")
            if n["v"]["t"] == "zone":
                w.nl()
                r_zone(w, n["v"], indent)
            else:
                w.w(_sp(sp))
                v = n["v"]
                if n["k"] in ALWAYS_QUOTE and isinstance(value_json(v), dict) and "s" in value_json(v):
                    # PATTERN / REGEX values are string literals: canonical (and here every) spelling is quoted
                    w.w('"' + _escape(value_json(v)["s"]) + '"')
                else:
                    r_value(w, sp, v, indent)
                if n["trail"] is not None:
                    # an empty end-of-line comment is written `//` (canonical: " //", no trailing blank)
                    w.w(sp.choice("space", [" ", "  ", "   "]) + "//" + ((sp.choice("space", [" ", ""]) + n["trail"]) if n["trail"] else ""))
            _eol(w, sp)
        elif n["t"] == "block":
            w.w(" " * indent + n["k"])
            if n["target"]:
                w.w("[")
                r_op(w, sp, "→", spaced_ok=False)
                r_op(w, sp, "§", spaced_ok=False)
                w.w(n["target"] + "]")
            w.w(":")
            _eol(w, sp)
            ci = indent + sp.choice("indent", [2, 1, 3, 4])
            r_nodes(w, sp, n["ch"], ci)
            r_comments(w, sp, n["orphan"], ci)
        elif n["t"] == "section":
            w.w(" " * indent)
            r_op(w, sp, "§", spaced_ok=False)
            w.w(n["id"] + "::" + n["name"])
            if n["ann"]:
                w.w("[" + n["ann"] + "]")
            _eol(w, sp)
            ci = indent + sp.choice("indent", [2, 1, 3, 4])
            r_nodes(w, sp, n["ch"], ci)


def render(d: dict, sp: Spelling):
    """-> (text, receipts)."""
    text, receipts, _adv = render_full(d, sp)
    return text, receipts


def render_full(d: dict, sp: Spelling):
    """-> (text, rewrite receipts, advisories): advisories = the deep_nesting records [kind, depth, threshold, line, column] the
    reader owes for lists the MODEL nests >= DEEP_NESTING deep (one per line, at the first such bracket)."""
    w = Writer()
    if d["fm"] is not None:
        w.w("---\n" + d["fm"] + "\n---\n")
        w.nl()
    if d["gv"]:
        w.w("OCTAVE::" + d["gv"])
        _eol(w, sp)
    # a document named INFERRED may be written without its envelope line (the reader infers exactly that name)
    if not (d["name"] == "INFERRED" and not d["gv"] and sp.envelope and sp.flip("envelope")):
        w.w("===" + d["name"] + "===")
        _eol(w, sp)
    if d["meta"]:
        w.w("META:")
        _eol(w, sp)
        mi = sp.choice("indent", [2, 1, 3, 4])
        for k, v in d["meta"]:
            if "nested" in v:
                w.w(" " * mi + k + ":")
                _eol(w, sp)
                ni = mi + sp.choice("indent", [2, 1, 3])
                for kk, vv in v["nested"]:
                    w.w(" " * ni + kk + _sp(sp) + "::" + _sp(sp))
                    r_value(w, sp, vv, ni)
                    _eol(w, sp)
            else:
                w.w(" " * mi + k + _sp(sp) + "::" + _sp(sp))
                r_value(w, sp, v, mi)
                _eol(w, sp)
    if d["sep"]:
        w.w("---")
        _eol(w, sp)
    # the whole body may be indented under the envelope — but not below a META block, whose children it would join
    base = 0 if d["meta"] else sp.choice("body_indent", [0, 0, 2, 1, 3])
    r_nodes(w, sp, d["nodes"], base)
    r_comments(w, sp, d["trailing"], base)
    if not sp.flip("end"):
        w.w("===END===")
        w.nl()
    return w.text(), w.receipts, w.advisories


# ---------------------------------------------------------------------------------------------
# known-finding class predicates over content models (input-based, narrow)
# ---------------------------------------------------------------------------------------------

def _has_children(n) -> bool:
    return n["t"] in ("block", "section") and (len(n.get("ch", [])) > 0 or len(n.get("orphan", [])) > 0)


def kf_comment_after_nested(d) -> bool:
    """C02N1: a comment line that follows the last child of a block/section and belongs (by its
    indentation) to the next node of an OUTER level — i.e. leading comments of a node whose previous
    sibling is a block/section with children, or document-trailing comments after such a sibling —
    is attached to the inner block as an orphan comment instead."""
    def walk(nodes, trailing):
        for i, n in enumerate(nodes):
            if i > 0 and n.get("lead") and _has_children(nodes[i - 1]) and False:
                return True
            if n["t"] in ("block", "section") and walk(n["ch"], []):
                return True
        if trailing and nodes and _has_children(nodes[-1]):
            return True
        return False
    return walk(d["nodes"], d["trailing"])


# ---------------------------------------------------------------------------------------------
# covering matrix: every value kind in every position (C02 quantifier)
# ---------------------------------------------------------------------------------------------

def value_kinds():
    ks = [{"t": "word", "v": "alpha"}, {"t": "word", "v": "truex"}, {"t": "words", "v": ["two", "words"]}, {"t": "int", "v": 42},
          {"t": "int", "v": -7}, {"t": "float", "v": 3.14}, {"t": "float", "v": 1e16}, {"t": "bool", "v": True}, {"t": "bool", "v": False},
          {"t": "null"}, {"t": "var", "v": "$VAR"}, {"t": "var", "v": "$1:role"}, {"t": "ann", "name": "NEVER", "args": ["A", "B"]},
          {"t": "ann", "name": "Athena", "args": ["wisdom"]}, {"t": "version", "v": "1.2.3"},
          {"t": "expr", "operands": ["A", "B", "C"], "ops": ["→", "⊕"]}, {"t": "expr", "operands": ["Speed", "Quality"], "ops": ["⇌"]},
          {"t": "list", "items": []}, {"t": "list", "items": [{"t": "word", "v": "a"}]},
          {"t": "list", "items": [{"t": "int", "v": 1}, {"t": "qstr", "v": "x y"}]},
          {"t": "list", "items": [{"t": "word", "v": "a"}, {"t": "word", "v": "b"}, {"t": "word", "v": "c"}]},
          {"t": "list", "items": [{"t": "pair", "k": "k", "v": {"t": "int", "v": 1}}, {"t": "word", "v": "z"}]},
          {"t": "list", "items": [{"t": "list", "items": [{"t": "int", "v": 1}]}, {"t": "null"}]}]
    ks += [{"t": "qstr", "v": s} for s in PLAIN_QUOTED]
    return ks


def matrix_docs():
    """[(position, kind index, doc model)] — every value kind at top level, block child, nested block child,
    section child, META, nested META, list item, inline-map value; zones where the grammar has them."""
    out = []
    base = lambda: {"name": "M", "gv": None, "fm": None, "meta": [], "sep": False, "nodes": [], "trailing": []}  # noqa: E731
    asg = lambda v: {"t": "assign", "lead": [], "k": "K", "v": v, "trail": None}  # noqa: E731
    atom = lambda v: v["t"] not in ("list", "expr", "words", "zone")  # noqa: E731
    zone = {"t": "zone", "lines": ["a -> b", "  x"], "tag": "py", "fence": 3}
    empty_zone = {"t": "zone", "lines": [], "tag": None, "fence": 4}
    for i, v in enumerate(value_kinds() + [zone, empty_zone]):
        isz = v["t"] == "zone"
        d = base(); d["nodes"] = [asg(v), asg({"t": "int", "v": 9})]; out.append(("top", i, d))
        d = base(); d["nodes"] = [{"t": "block", "lead": [], "k": "B", "target": None, "ch": [asg({"t": "int", "v": 1}), asg(v), asg({"t": "int", "v": 2})], "orphan": []}, asg({"t": "int", "v": 9})]
        out.append(("block", i, d))
        d = base(); d["nodes"] = [{"t": "block", "lead": [], "k": "B", "target": "T", "ch": [{"t": "block", "lead": [], "k": "C", "target": None, "ch": [asg(v)], "orphan": []}, asg({"t": "int", "v": 2})], "orphan": []}]
        out.append(("nested-block", i, d))
        d = base(); d["nodes"] = [{"t": "section", "lead": [], "id": "1", "name": "S", "ann": None, "ch": [asg(v), asg({"t": "int", "v": 2})]}, asg({"t": "int", "v": 9})]
        out.append(("section", i, d))
        if not isz:
            d = base(); d["meta"] = [["TYPE", {"t": "word", "v": "X"}], ["F", v]]; d["nodes"] = [asg({"t": "int", "v": 9})]; out.append(("meta", i, d))
            d = base(); d["meta"] = [["N", {"nested": [["F", v], ["G", {"t": "int", "v": 1}]]}]]; d["nodes"] = [asg({"t": "int", "v": 9})]; out.append(("nested-meta", i, d))
            if v["t"] not in ("words",):
                d = base(); d["nodes"] = [asg({"t": "list", "items": [{"t": "word", "v": "a"}, v, {"t": "word", "v": "b"}]})]; out.append(("list-item", i, d))
            if atom(v):
                d = base(); d["nodes"] = [asg({"t": "list", "items": [{"t": "pair", "k": "k", "v": v}, {"t": "pair", "k": "PATTERN", "v": v}]})]; out.append(("imap-value", i, d))
    # bare zones as block children in every sibling position
    for pos in range(3):
        ch = [asg({"t": "int", "v": 1}), asg({"t": "int", "v": 2})]
        ch.insert(pos, {"t": "bzone", "lead": [], "v": zone})
        d = base(); d["nodes"] = [{"t": "block", "lead": [], "k": "B", "target": None, "ch": ch, "orphan": []}, asg({"t": "int", "v": 9})]
        out.append((f"bare-zone@{pos}", 0, d))
    return out


# ---------------------------------------------------------------------------------------------
# fixed families: a handful of deterministic members of input classes the seeded generator reaches only rarely
# (each check judges them with its own oracle, in the canonical spelling and in the deterministic corners of the spelling space)
# ---------------------------------------------------------------------------------------------

EDGE_STRINGS = ["\nlead", "\n", "\n\ntwo", "trail\n", "\n  indented\n", "\n== banner ==\n", " lead", "trail ", " ", "\tlead", "trail\t"]


def _base(name="F"):
    return {"name": name, "gv": None, "fm": None, "meta": [], "sep": False, "nodes": [], "trailing": []}


def _asg(k, v, trail=None):
    return {"t": "assign", "lead": [], "k": k, "v": v, "trail": trail}


def _blk(k, ch):
    return {"t": "block", "lead": [], "k": k, "target": None, "ch": ch, "orphan": []}


def _lst(*items):
    return {"t": "list", "items": list(items)}


def _nest(v, n):
    for _ in range(n):
        v = _lst(v)
    return v


def family_docs():
    """[(family, member name, content model)]."""
    out = []
    wd = lambda s: {"t": "word", "v": s}  # noqa: E731
    ex = lambda operands, ops: {"t": "expr", "operands": list(operands), "ops": list(ops)}  # noqa: E731
    # -- expressions with two or more tension operators (advisory only; canonical text A⇌B⇌C), in every position -----------------
    chains = [ex("ABC", "⇌⇌"), ex(["Scope", "Time", "Cost"], "⇌⇌"), ex("ABCD", "⇌⇌⇌"), ex("ABCD", "⇌→⇌"), ex("ABCD", "→⇌⇌"), ex("ABCD", "⇌⇌⊕"),
              ex("ABC", "⇌⇌")]
    for i, e in enumerate(chains):
        d = _base(); d["nodes"] = [_asg("K", e), _asg("Z", {"t": "int", "v": 9})]; out.append(("chained-tension", f"top{i}", d))
    e = chains[1]
    d = _base(); d["nodes"] = [_asg("K", _lst(e))]; out.append(("chained-tension", "list-single", d))
    d = _base(); d["nodes"] = [_asg("K", _lst(wd("x"), e, wd("y")))]; out.append(("chained-tension", "list-middle", d))
    d = _base(); d["nodes"] = [_asg("K", _lst(_lst(chains[0]), ex("AB", "⇌")))]; out.append(("chained-tension", "list-nested", d))
    d = _base(); d["nodes"] = [_blk("B", [_asg("J", {"t": "int", "v": 1}), _asg("K", e)]), _asg("Z", {"t": "int", "v": 9})]; out.append(("chained-tension", "block", d))
    d = _base(); d["nodes"] = [{"t": "section", "lead": [], "id": "1", "name": "S", "ann": None, "ch": [_asg("K", e)]}]; out.append(("chained-tension", "section", d))
    d = _base(); d["meta"] = [["TYPE", wd("T")], ["F", e]]; d["nodes"] = [_asg("Z", {"t": "int", "v": 9})]; out.append(("chained-tension", "meta", d))
    d = _base(); d["meta"] = [["N", {"nested": [["F", chains[0]]]}]]; d["nodes"] = [_asg("Z", {"t": "int", "v": 9})]; out.append(("chained-tension", "nested-meta", d))
    # neighbours of the class: one tension; several binary tensions in one list
    d = _base(); d["nodes"] = [_asg("K", ex("AB", "⇌")), _asg("L", _lst(ex("AB", "⇌"), ex("CD", "⇌")))]; out.append(("chained-tension", "binary-neighbours", d))
    # -- strings that begin / end with a layout character, in every position a string can take ----------------------------------
    for i, s0 in enumerate(EDGE_STRINGS):
        q = {"t": "qstr", "v": s0}
        d = _base(); d["meta"] = [["TYPE", wd("LOG")], ["BANNER", q]]
        d["nodes"] = [_asg("K", q), _blk("B", [_asg("K", q), _asg("L", _lst(q, wd("a"), {"t": "pair", "k": "k", "v": q}))]), _asg("Z", {"t": "int", "v": 9})]
        out.append(("edge-strings", f"s{i}", d))
    # -- n literally empty lists, then a list: the reader owes NO record for any of them (nothing is nested, nothing rewritten) ----
    keys = ["OWNERS", "REVIEWERS", "BLOCKERS", "LABELS", "WATCHERS", "LINKS", "NOTES_2"]
    for n in range(0, 8):
        tail = [_asg("STAGES", _lst(wd("plan"), wd("build"))), _asg("LAST", _lst())]
        d = _base(); d["nodes"] = [_asg(keys[i % 7] + ("" if i < 7 else "_b"), _lst()) for i in range(n)] + tail; out.append(("empty-lists", f"top{n}", d))
        d = _base(); d["nodes"] = [_blk("B", [_asg(keys[i % 7] + ("" if i < 7 else "_b"), _lst()) for i in range(n)] + tail), _asg("Z", _lst(_lst(wd("a"))))]
        out.append(("empty-lists", f"block{n}", d))
        d = _base(); d["nodes"] = [_asg("K", _lst(*([_lst() for _ in range(n)] + [_lst(wd("a"), _lst(wd("b")))]))), _asg("Z", _lst(wd("c")))]
        out.append(("empty-lists", f"items{n}", d))
    d = _base(); d["meta"] = [["TYPE", wd("T")]] + [[k, _lst()] for k in ("A_1", "B_1", "C_1", "D_1", "E_1")]
    d["nodes"] = [_asg("K", _lst(_lst(wd("a")), wd("b"))), _asg("F", ex("AB", "→")), _asg("G", _lst(ex("AB", "→")))]; out.append(("empty-lists", "meta5", d))
    d = _base(); d["nodes"] = [_asg(f"E{i}", _lst(), trail="c") for i in range(6)] + [_asg("F", ex("AB", "→")), _asg("G", _lst(ex("AB", "→"), _lst()))]
    out.append(("empty-lists", "then-flow", d))
    # -- genuinely deep lists: the advisory is owed exactly where the MODEL nests >= DEEP_NESTING, once per line ------------------
    for n in (3, 4, 5, 6, 8):
        d = _base(); d["nodes"] = [_asg("K", _nest(wd("a"), n)), _asg("L", _lst(wd("b"), _lst(wd("c")))), _asg("M", _nest(_lst(), n - 1))]
        out.append(("deep-lists", f"depth{n}", d))
    d = _base(); d["nodes"] = [_asg("K", _lst(_nest(wd("a"), 4), _nest(wd("b"), 5), wd("c"), _nest(_lst(), 4)))]; out.append(("deep-lists", "siblings", d))
    return out
