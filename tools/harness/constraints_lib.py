"""Harness library of the `constraints` engine (property C08).

* portable encodings of values / constraints (JSON, replayable) <-> real Python objects <-> driver JSON
* the external tables a case needs (`re.match` verdicts, `re.compile` validity, `repr(float(s))`)
* pools with every boundary (see the comments: each value is there to kill a mutation)
* the independent reference oracle written from the statement of property C08
* known-finding class predicates (narrow, input based)
"""
from __future__ import annotations

import itertools
import json
import math
import re

# ------------------------------------------------------------------------------------------------
# values: portable form == driver form
#   None | True/False | {"i": "<dec>"} | {"f": {"r": repr, "n": .., "d": ..} | {"r":..,"t": "inf|-inf|nan"}}
#   | {"s": str} | {"l": [..]} | {"z": {"c": content, "t": tag|None, "f": fence}}
# ------------------------------------------------------------------------------------------------

def enc_num(x) -> dict:
    """exact value of an int/float/bool"""
    if isinstance(x, float):
        if x != x:
            return {"t": "nan"}
        if x == math.inf:
            return {"t": "inf"}
        if x == -math.inf:
            return {"t": "-inf"}
        n, d = x.as_integer_ratio()
        return {"n": str(n), "d": str(d)}
    return {"n": str(int(x)), "d": "1"}


def enc_val(v):
    from octave_mcp.core.ast_nodes import LiteralZoneValue
    if v is None or isinstance(v, bool):
        return v
    if isinstance(v, int):
        return {"i": str(v)}
    if isinstance(v, float):
        d = enc_num(v)
        d["r"] = repr(v)
        return {"f": d}
    if isinstance(v, str):
        return {"s": v}
    if isinstance(v, list):
        return {"l": [enc_val(x) for x in v]}
    if isinstance(v, LiteralZoneValue):
        return {"z": {"c": v.content, "t": v.info_tag, "f": v.fence_marker}}
    raise ValueError(f"unsupported value kind {type(v).__name__}")


def dec_num(d):
    if "t" in d:
        return float(d["t"])
    n, den = int(d["n"]), int(d["d"])
    return n / den if den != 1 else n


def dec_val(e):
    from octave_mcp.core.ast_nodes import LiteralZoneValue
    if e is None or isinstance(e, bool):
        return e
    if "i" in e:
        return int(e["i"])
    if "f" in e:
        f = e["f"]
        if "t" in f:
            return float(f["t"])
        return int(f["n"]) / int(f["d"])
    if "s" in e:
        return e["s"]
    if "l" in e:
        return [dec_val(x) for x in e["l"]]
    if "z" in e:
        z = e["z"]
        return LiteralZoneValue(content=z["c"], info_tag=z["t"], fence_marker=z["f"])
    raise ValueError(e)


def contains_nan_in_list(v, inside=False):
    if isinstance(v, float):
        return inside and v != v
    if isinstance(v, list):
        return any(contains_nan_in_list(x, True) for x in v)
    return False


# ------------------------------------------------------------------------------------------------
# constraints: portable spec (list) -> real object -> driver JSON (read back from the real object)
#   ["REQ"] ["OPT"] ["DIR"] ["APPEND_ONLY"] ["DATE"] ["ISO8601"] ["LITERAL"]
#   ["CONST", enc_val] ["ENUM", [enc_val...]] ["TYPE", t] ["REGEX", p] ["RANGE", enc_val, enc_val]
#   ["MAX_LENGTH", n] ["MIN_LENGTH", n] ["LANG", tag]
# ------------------------------------------------------------------------------------------------

def build_impl(c):
    from octave_mcp.core import constraints as C
    k = c[0]
    if k == "REQ":
        return C.RequiredConstraint()
    if k == "OPT":
        return C.OptionalConstraint()
    if k == "DIR":
        return C.DirConstraint()
    if k == "APPEND_ONLY":
        return C.AppendOnlyConstraint()
    if k == "DATE":
        return C.DateConstraint()
    if k == "ISO8601":
        return C.Iso8601Constraint()
    if k == "LITERAL":
        return C.LiteralConstraint()
    if k == "CONST":
        return C.ConstConstraint(const_value=dec_val(c[1]))
    if k == "ENUM":
        return C.EnumConstraint(allowed_values=[dec_val(x) for x in c[1]])
    if k == "TYPE":
        return C.TypeConstraint(expected_type=c[1])
    if k == "REGEX":
        return C.RegexConstraint(pattern=c[1])
    if k == "RANGE":
        return C.RangeConstraint(min_value=dec_val(c[1]), max_value=dec_val(c[2]))
    if k == "MAX_LENGTH":
        return C.MaxLengthConstraint(max_length=c[1])
    if k == "MIN_LENGTH":
        return C.MinLengthConstraint(min_length=c[1])
    if k == "LANG":
        return C.LangConstraint(expected_lang=c[1])
    raise ValueError(k)


_SIMPLE = {"RequiredConstraint": "REQ", "OptionalConstraint": "OPT", "DirConstraint": "DIR", "AppendOnlyConstraint": "APPEND_ONLY",
           "DateConstraint": "DATE", "Iso8601Constraint": "ISO8601", "LiteralConstraint": "LITERAL"}


def obj_to_driver(o):
    """Driver JSON of a real constraint object (attributes as they are after construction)."""
    n = type(o).__name__
    if n in _SIMPLE:
        return {"k": _SIMPLE[n]}
    if n == "ConstConstraint":
        return {"k": "CONST", "v": enc_val(o.const_value)}
    if n == "EnumConstraint":
        if not all(isinstance(a, str) for a in o.allowed_values):
            raise ValueError("ENUM allowed value is not a str after __post_init__")
        return {"k": "ENUM", "a": list(o.allowed_values)}
    if n == "TypeConstraint":
        return {"k": "TYPE", "t": o.expected_type}
    if n == "RegexConstraint":
        return {"k": "REGEX", "p": o.pattern}
    if n == "RangeConstraint":
        for b in (o.min_value, o.max_value):
            if not isinstance(b, (int, float)):
                raise ValueError("RANGE bound is not a number")
        return {"k": "RANGE", "lo": enc_num(o.min_value), "hi": enc_num(o.max_value)}
    if n == "MaxLengthConstraint":
        if not isinstance(o.max_length, int):
            raise ValueError("MAX_LENGTH bound is not an int")
        return {"k": "MAX_LENGTH", "n": str(int(o.max_length))}
    if n == "MinLengthConstraint":
        if not isinstance(o.min_length, int):
            raise ValueError("MIN_LENGTH bound is not an int")
        return {"k": "MIN_LENGTH", "n": str(int(o.min_length))}
    if n == "LangConstraint":
        return {"k": "LANG", "t": o.expected_lang}
    raise ValueError("unknown constraint class " + n)


def norm_driver_c(d):
    """canonical form of driver JSON of a constraint (for comparing parse results)."""
    return json.dumps(d, sort_keys=True, ensure_ascii=False)


# ------------------------------------------------------------------------------------------------
# externals
# ------------------------------------------------------------------------------------------------

def re_tables(patterns, values):
    """[(p, str(v), matched)] for every pattern x value, and [(p, compiles)]."""
    re_rows, ok_rows = [], []
    strs = []
    for v in values:
        try:
            s = str(v)
        except Exception:
            continue
        if s not in strs:
            strs.append(s)
    for p in patterns:
        try:
            cp = re.compile(p)
            ok_rows.append([p, True])
        except re.error:
            ok_rows.append([p, False])
            continue
        except Exception:
            continue        # RecursionError/OverflowError...: leave unsupplied -> driver answers unsupported
        for s in strs:
            re_rows.append([p, s, cp.match(s) is not None])
    return re_rows, ok_rows


def regex_candidates(text):
    """every argument text a REGEX[...] part of `text` could have (generous superset), raw and unquoted."""
    out = []
    for m in re.finditer(r"REGEX\[", text):
        i = m.end()
        for j in range(i, len(text)):
            if text[j] == "]":
                arg = text[i:j]
                for cand in (arg, arg[1:-1] if arg.startswith('"') and arg.endswith('"') else arg):
                    if cand not in out:
                        out.append(cand)
    return out


def float_repr_table(text):
    """(numeral, repr(float(numeral))) for every atom candidate of `text` (generous superset)."""
    rows = []
    for piece in re.split(r"[\[\],∧()]", text):
        for cand in {piece, piece.strip()}:
            if cand and ("." in cand or "e" in cand.lower()):
                try:
                    rows.append([cand, repr(float(cand))])
                except ValueError:
                    pass
    return rows


# ------------------------------------------------------------------------------------------------
# pools.  Every entry names the mutation(s) it is there to kill.
# ------------------------------------------------------------------------------------------------

def S(x):
    return {"s": x}


def I(x):
    return {"i": str(x)}


def F(x):
    return enc_val(float(x))


def Z(content, tag, fence="```"):
    return {"z": {"c": content, "t": tag, "f": fence}}


def L(*xs):
    return {"l": list(xs)}


POOL_C_CORE = [
    ["REQ"], ["OPT"],
    ["CONST", S("ACTIVE")], ["CONST", S("DONE")], ["CONST", I(1)], ["CONST", F(1.0)], ["CONST", True], ["CONST", None],
    ["ENUM", [S("ACTIVE"), S("ACTIVATING"), S("DONE")]],          # ambiguity ACT/ACTIV, unique D, non-prefix TIV
    ["ENUM", [S("ACT"), S("ACTIVE")]],                            # exact match that is also a prefix of another
    ["ENUM", [I(1), True, None]],                                 # __post_init__ str(): '1','True','None'
    ["TYPE", "STRING"], ["TYPE", "NUMBER"], ["TYPE", "BOOLEAN"], ["TYPE", "LIST"],
    ["REGEX", "^[a-z]+$"],
    ["RANGE", I(1), I(5)],
    ["MAX_LENGTH", 3], ["MIN_LENGTH", 3],
    ["DATE"], ["ISO8601"],
]

POOL_C_MORE = [
    ["CONST", S("")], ["CONST", S("1")], ["CONST", F(2.5)], ["CONST", L(S("A"))], ["CONST", Z("x", "python")],
    ["ENUM", [S("A"), S("B")]], ["ENUM", [S("")]], ["ENUM", [S("AB"), S("AB")]],     # ENUM[] parses to ['']; duplicates
    ["ENUM", [F(1.5), S("2024-01-15")]],
    ["TYPE", "LITERAL"], ["TYPE", "string"],                       # not keys of type_map -> E999
    ["REGEX", "^a$"], ["REGEX", "^\\d{3}$"], ["REGEX", "^A"], ["REGEX", "b"], ["REGEX", ""],
    ["DIR"], ["APPEND_ONLY"],
    ["RANGE", I(0), I(0)], ["RANGE", F(-1.5), F(2.5)], ["RANGE", I(1), F(math.inf)], ["RANGE", I(0), I(10 ** 20)],
    ["MAX_LENGTH", 0], ["MIN_LENGTH", 0], ["MIN_LENGTH", 1],
    ["LITERAL"], ["LANG", "python"], ["LANG", "JSON"],
]

POOL_C_THOROUGH = [
    ["CONST", F(math.nan)], ["CONST", F(math.inf)], ["CONST", L()], ["CONST", False], ["CONST", I(0)],
    ["ENUM", [S("é"), S("éa")]],
    ["RANGE", F(math.nan), I(5)], ["RANGE", True, I(5)],
    ["REGEX", "^(a|ab)$"],
    ["MAX_LENGTH", True],
    ["LANG", "é"],
]

POOL_V = [
    None, S(""), S(" "),
    # ENUM: exact, ambiguous prefixes, unique prefix, non-prefix substrings, suffix, case, leading space
    S("ACTIVE"), S("ACTIV"), S("ACT"), S("AC"), S("CTIVE"), S("TIV"), S("DONE"), S("ONE"), S("D"), S("A"), S("AB"), S("B"),
    S("active"), S(" ACTIVE"), S("ACTIVE "), S("ACTIVEX"), S("ACTIVATING"),
    # REGEX / lengths 0..4 (MAX/MIN_LENGTH 3 and 0/1 bounds +-1), trailing newline ($), digits
    S("a"), S("ab"), S("abc"), S("abcd"), S("a\n"), S("abc\n"), S("aB"), S("ab1"), S("b"), S("xbx"), S("123"), S("12"), S("1234"), S("١٢٣"),
    # str() collisions with non-str values
    S("1"), S("True"), S("None"), S("1.0"), S("1.5"), S("[]"), S("['A']"),
    # numbers at and around the RANGE bounds; bool is never a number
    True, False, I(0), I(1), I(2), I(5), I(6), I(-1), I(3), I(10 ** 20), I(10 ** 20 + 2 ** 15), I(-(10 ** 20)), I(10 ** 400), I(-(10 ** 400)), I(2 ** 53),
    F(1.0), F(0.5), F(0.9999999999999999), F(5.0), F(5.000000000000001), F(2.5), F(2.5000000000000004), F(-1.5), F(-1.5000000000000002),
    F(0.0), F(-0.0), F(math.inf), F(-math.inf), F(math.nan), F(1e20), F(1.5),
    # numeric strings: bounds, whitespace, underscore, non-finite, non-ASCII digits, junk
    S("5"), S("0"), S("6"), S("0.9"), S("5.1"), S("5.0"), S(" 3 "), S("\t3\n"), S("1_0"), S("1__0"), S("_3"), S("3_"),
    S("nan"), S("NaN"), S("-nan"), S("inf"), S("-inf"), S("Infinity"), S("1e0"), S("1E0"), S("1e400"), S("-1e400"), S("1e-400"),
    S("٣"), S("٦"), S("３"), S("0x3"), S("3.0.0"), S("+3"), S("-0"), S("3e"), S(".5"), S("5."), S("\x1c3"),
    # lists (lengths 0..4, nesting, mixed)
    L(), L(S("A")), L(S("A"), I(1)), L(I(1), I(2), I(3)), L(S("a"), S("b"), S("c"), S("d")), L(L(I(1))), L(None), L(F(1.5)), L(S("it's")),
    L(S("é")), L(F(math.nan)),
    # dates
    S("2024-01-15"), S("2024-02-29"), S("2024-02-30"), S("2023-02-29"), S("1900-02-29"), S("2000-02-29"), S("2024-1-15"), S("2024-13-01"),
    S("2024-00-10"), S("2024-04-31"), S("2024-04-30"), S("2024-01-00"), S("0000-01-01"), S("0001-01-01"), S("9999-12-31"),
    S("2024-01-15\n"), S("2024-01-15 "), S(" 2024-01-15"), S("x2024-01-15"), S("٢٠٢٤-٠١-١٥"), S("2024-01-1５"), S("2024/01/15"), S("20240115"),
    S("2024-01-15T10:00:00"), S("2024-01-15T10:00:00Z"), S("2024-01-15T10:00:00+05:00"), S("2024-01-15T10:00:00-05:30"), S("2024-01-15T25:00:00"),
    S("2024-01-15T10:60:00"), S("2024-01-15T10:00:00+24:00"), S("2024-01-15T10:00"), S("2024-01-15 10:00:00"), S("2024-01-15T"), S("2024-01-15TZ"),
    S("2024-W03-1"), S("2024-W54-1"), S("0000-W01-1"), S("Z"), S("2024-02-30T10:00:00"), S("2024-01-15T10:00:00.123456"), S("2024-01-15T10:00:00:123"),
    # paths
    S("/a/b"), S("./a"), S("a\x00b"), S("\x00"),
    # literal zones
    Z("x", "python"), Z("x", "Python"), Z("x", "PYTHON"), Z("", None), Z("x", ""), Z("x", "json"), Z("x", "pythonx"), Z("x", "pytho"),
    Z("it's", "python", "````"), Z("é", "python"), Z("x", "É"),
]

# values the parse-path evaluation uses (a cross-section of POOL_V)
POOL_V_SMALL = [None, S(""), S("ACTIVE"), S("ACT"), S("ACTIV"), S("D"), S("TIV"), S("abc"), S("abcd"), S("ab"), S("a\n"), True, I(1), I(5), I(6), I(0),
                F(1.0), F(2.5), F(5.000000000000001), F(math.nan), I(10 ** 400), S("5"), S("6"), S("nan"), S("1_0"), S("٣"), L(), L(S("A")), L(I(1), I(2), I(3)),
                L(S("a"), S("b"), S("c"), S("d")), S("2024-01-15"), S("2024-02-30"), S("2024-01-15T10:00:00Z"), S("a\x00b"), Z("x", "Python"), Z("x", None), S("1.5"), S("X")]

# the widened L=3 sweep over the large constraint pool uses this cross-section
POOL_V_TINY = [None, S(""), S("ACTIVE"), S("ACT"), S("abc"), S("abcd"), True, I(1), I(5), I(6), F(math.nan), S("nan"), L(S("A")),
               L(I(1), I(2), I(3), I(4)), S("2024-01-15"), F(2.5)]

# constraint texts for ConstraintChain.parse: (text) — well-formed, quirky and malformed
POOL_T_CORE = [
    "REQ", "OPT", "DIR", "APPEND_ONLY", "DATE", "ISO8601", "TYPE[LITERAL]", "LANG[python]", "LANG[Python]",
    "CONST[ACTIVE]", "CONST[1]", "CONST[1.0]", "CONST[true]", "CONST[null]", 'CONST["a b"]', "CONST[1_0]", "CONST[1e400]", "CONST[nan]",
    "ENUM[ACTIVE,ACTIVATING,DONE]", "ENUM[A, B]", "ENUM[1,true,null]", "ENUM[]", "ENUM[1.50,2]",
    "TYPE[STRING]", "TYPE(NUMBER)", "TYPE[BOOLEAN]", "TYPE[LIST]", "TYPE[string]",
    'REGEX["^[a-z]+$"]', "REGEX[^a$]", "REGEX[(]",
    "RANGE[1,5]", "RANGE[-1.5,2.5]", "RANGE[5,1]", "RANGE[1]", "RANGE[a,5]", "RANGE[true,5]", "RANGE[1,1e400]",
    "MAX_LENGTH[3]", "MIN_LENGTH[3]", "MAX_LENGTH[-1]", "MAX_LENGTH[3.0]", "MIN_LENGTH[true]", "MAX_LENGTH[ 3 ]", "MAX_LENGTH[٣]",
    "LANG[]", "LANG[ ]", "FOO", "req", "CONST[", "REQ]", "",
]
POOL_T_MORE = [
    " REQ ", "REQ\t", "　REQ", "TYPE[LITERAL] ", "TYPE[ LITERAL]", "LANG[ py ]", "LANG[É]",
    "CONST[]", "CONST[ x ]", "CONST['q']", 'CONST["]', 'CONST["a\\"b"]', "CONST['a\\\\b']", "CONST[+5]", "CONST[-0]", "CONST[1e5]", "CONST[1E5]",
    "CONST[.5]", "CONST[5.]", "CONST[1e]", "CONST[e]", "CONST[1_0.5]", "CONST[٣]", "CONST[٣.٥]", "CONST[0x10]", "CONST[True]", "CONST[ null ]",
    "CONST[[1,2]]", "CONST[a]]", "CONST[a,b]", "CONST[-1e400]", "CONST[1__0]", "CONST[１２]",
    "ENUM[A]", "ENUM[A,,B]", "ENUM[ A , B ]", 'ENUM["a,b"]', "ENUM[A,A]", "ENUM[1e0]", "ENUM[null,false]",
    "TYPE[]", "TYPE()", "TYPE(STRING]", "TYPE[STRING)", "TYPE[ STRING ]", "TYPE[LITERAL]X",
    'REGEX[""]', 'REGEX["]', "REGEX[]", 'REGEX["^\\d{3}$"]', 'REGEX["^[a-z]+$"', "REGEX[[a-z]]", "REGEX[a b]", "REGEX[a∧b]",
    "RANGE[1,5,9]", "RANGE[,]", "RANGE[ 1 , 5 ]", "RANGE[1.0,5]", "RANGE[5,5]", "RANGE[-1e400,1e400]", "RANGE[null,5]", 'RANGE["1",5]', "RANGE[1_0,2_0]", "RANGE[false,true]",
    "MAX_LENGTH[]", "MAX_LENGTH[0]", "MAX_LENGTH[null]", "MAX_LENGTH[1e1]", "MIN_LENGTH[-0]", "MIN_LENGTH[+3]", "MIN_LENGTH[3_0]", "MAX_LENGTH[3]]", "MAX_LENGTH[[3]",
    "REQ∧", "∧REQ", "REQ OPT", "REQ  OPT", "(REQ)", "[REQ]", "APPEND_ONLY ", "append_only", "DATE[]", "ISO8601Z",
]

SEPARATORS = ["∧", " ", " ∧ ", "  ", "∧∧"]


# ------------------------------------------------------------------------------------------------
# the independent reference oracle (from the statement of C08; three-valued: True / False / None = don't care)
# ------------------------------------------------------------------------------------------------

def _is_zone(v):
    return type(v).__name__ == "LiteralZoneValue"


def _kind(v):
    if v is None:
        return "none"
    if isinstance(v, bool):
        return "bool"
    if isinstance(v, int):
        return "int"
    if isinstance(v, float):
        return "float"
    if isinstance(v, str):
        return "str"
    if isinstance(v, list):
        return "list"
    if _is_zone(v):
        return "zone"
    return "other"


def _leap(y):
    return (y % 4 == 0 and y % 100 != 0) or y % 400 == 0


def _real_date(y, m, d):
    if not (1 <= y <= 9999 and 1 <= m <= 12 and d >= 1):
        return False
    ml = 29 if (m == 2 and _leap(y)) else [31, 28, 31, 30, 31, 30, 31, 31, 30, 31, 30, 31][m - 1]
    return d <= ml


_ASCII_DATE = re.compile(r"([0-9]{4})-([0-9]{2})-([0-9]{2})\Z")
_DOC_ISO = re.compile(r"([0-9]{4})-([0-9]{2})-([0-9]{2})(?:T([0-9]{2}):([0-9]{2}):([0-9]{2})(Z|[+-]([0-9]{2}):([0-9]{2}))?)?\Z")


def oracle_member(c, v):
    """Documented meaning of one constraint (portable spec `c`) on the Python value `v`."""
    k = c[0]
    kind = _kind(v)
    if k == "REQ":                                    # non-empty
        return not (v is None or (kind == "str" and v == ""))
    if k == "OPT":
        return True
    if k == "CONST":                                  # equality
        cv = dec_val(c[1])
        return bool(v == cv)
    if k == "ENUM":                                   # exact or unique-prefix match
        allowed = [str(dec_val(a)) for a in c[1]]
        s = str(v)
        if s in allowed:
            return True
        n = sum(1 for a in allowed if a[:len(s)] == s)
        if len(set(allowed)) != len(allowed) and n > 1 and len({a for a in allowed if a[:len(s)] == s}) == 1:
            return None                               # duplicates in the list: "unique" is not defined by the statement
        return n == 1
    if k == "TYPE":                                   # by value kind, booleans never numbers
        t = c[1]
        if t == "STRING":
            return kind == "str"
        if t == "NUMBER":
            return kind in ("int", "float")
        if t == "BOOLEAN":
            return kind == "bool"
        if t == "LIST":
            return kind == "list"
        return False                                  # unknown type keyword: nothing is of that type
    if k == "REGEX":                                  # pattern match, patterns anchored at both ends
        p = c[1]
        if not (p.startswith("^") and p.endswith("$")):
            return None
        return re.compile(p).search(str(v)) is not None
    if k == "DIR":
        return "\x00" not in str(v)
    if k == "APPEND_ONLY":
        return kind == "list"
    if k == "RANGE":                                  # inclusive numeric bounds; bool is not a number
        lo, hi = dec_val(c[1]), dec_val(c[2])
        if kind == "bool":
            return False
        if kind in ("int", "float"):
            x = v
        elif kind == "str":
            try:
                x = float(v)                          # the number the numeral denotes
            except ValueError:
                return False
        else:
            return False
        if lo != lo or hi != hi:
            return None                               # a NaN bound is not a numeric bound (cannot be written in a chain text)
        if x != x:
            return False                              # nan is in no range
        if kind == "int" and abs(x) > 2 ** 53:
            exact = bool(lo <= x <= hi)                   # Python compares int with float exactly
            try:
                rounded = bool(lo <= float(x) <= hi)
            except OverflowError:
                return None if exact else False       # no binary64 for this int: only "outside the bounds" is judged
            return exact if exact == rounded else None    # binary64 rounding of a huge int decides: outside the statement
        return bool(lo <= x <= hi)
    if k == "MAX_LENGTH":                             # strings and lists only
        return kind in ("str", "list") and len(v) <= c[1]
    if k == "MIN_LENGTH":
        return kind in ("str", "list") and len(v) >= c[1]
    if k == "DATE":                                   # a real YYYY-MM-DD date
        m = _ASCII_DATE.match(str(v))
        return bool(m) and _real_date(int(m.group(1)), int(m.group(2)), int(m.group(3)))
    if k == "ISO8601":                                # date or datetime
        s = str(v)
        m = _DOC_ISO.match(s)
        if m:                                         # one of the documented forms: decided by the calendar/clock
            ok = _real_date(int(m.group(1)), int(m.group(2)), int(m.group(3)))
            if m.group(4) is not None:
                ok = ok and int(m.group(4)) <= 23 and int(m.group(5)) <= 59 and int(m.group(6)) <= 59
            if m.group(8) is not None:
                if int(m.group(8)) > 23 or int(m.group(9)) > 59:
                    return None if ok else False
            return ok
        if len(s.encode("utf-8", "surrogatepass")) < 7 or not re.match(r"[0-9]{4}", s):
            return False                              # no ISO 8601 date starts otherwise
        return None                                   # other ISO 8601 shapes: the reading is "what fromisoformat accepts"
    if k == "LITERAL":
        return kind == "zone"
    if k == "LANG":                                   # case-insensitive tag match on a literal zone
        if kind != "zone" or v.info_tag is None or v.info_tag == "":
            return False
        return v.info_tag.lower() == c[1].lower()
    raise ValueError(k)


def oracle_conflict(chain):
    """REQ with OPT, two different CONSTs, a CONST outside an ENUM."""
    kinds = [c[0] for c in chain]
    if "REQ" in kinds and "OPT" in kinds:
        return True
    consts = [dec_val(c[1]) for c in chain if c[0] == "CONST"]
    for a, b in itertools.combinations(consts, 2):
        if a != b:
            return True
    for c in chain:
        if c[0] == "ENUM":
            allowed = [str(dec_val(a)) for a in c[1]]
            if any(str(cv) not in allowed for cv in consts):
                return True
    return False


def oracle_chain(chain, v, member_cache=None):
    """True / False / None (don't care)."""
    if oracle_conflict(chain):
        return False
    dontcare = False
    for c in chain:
        r = oracle_member(c, v)
        if r is False:
            return False
        if r is None:
            dontcare = True
    return None if dontcare else True


# ------------------------------------------------------------------------------------------------
# known-finding class predicates (input based, narrow).  Signature: (chain specs, python value) -> bool
# (F19, C08N1/F36 and F37 are fixed in /repo: their predicates are gone, their witnesses live in corpus/C08)
# ------------------------------------------------------------------------------------------------

def spec_exempt(chain, v):
    """Inputs outside the hypotheses of the Lean RANGE theorem (`RangeGuard`): a NaN bound (not writable in a chain text),
    or an int value beyond 2^53 (the code compares after binary64 rounding).  The Lean spec is not consulted there."""
    for c in chain:
        if c[0] == "RANGE":
            lo, hi = dec_val(c[1]), dec_val(c[2])
            if lo != lo or hi != hi:
                return True
            if isinstance(v, int) and not isinstance(v, bool) and abs(v) > 2 ** 53:
                return True
    return False


CLASS_PREDICATES = {}          # no open known finding for C08 at present
