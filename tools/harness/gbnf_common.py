"""Shared harness for the gbnf engine (properties C12, C13): encoders for the Lean driver, document
builders for the FIELDS / META.CONTRACT routes, runners for the four observation points of the
real code, an independent *reference* reading of the compiler's documented behaviour used only by
the known-finding class predicates, and the pools.

Nothing here imports octave_mcp at module level (vlib sets sys.path first).
"""
from __future__ import annotations

import asyncio
import os
import re
import shutil
import tempfile
from pathlib import Path

# --------------------------------------------------------------------------------------------------
# encoders (real objects -> driver JSON)
# --------------------------------------------------------------------------------------------------

def enc_constraint(c):
    from octave_mcp.core import constraints as C
    t = type(c)
    simple = {C.RequiredConstraint: "REQ", C.OptionalConstraint: "OPT", C.DirConstraint: "DIR", C.AppendOnlyConstraint: "APPEND_ONLY",
              C.RangeConstraint: "RANGE", C.MaxLengthConstraint: "MAX_LENGTH", C.DateConstraint: "DATE", C.Iso8601Constraint: "ISO8601"}
    if t in simple:
        return {"k": simple[t]}
    if t is C.EnumConstraint:
        return {"k": "ENUM", "a": [str(v) for v in c.allowed_values]}
    if t is C.ConstConstraint:
        v = c.const_value
        return {"k": "CONST", "s": str(v), "py": "bool" if isinstance(v, bool) else ("none" if v is None else "other")}
    if t is C.TypeConstraint:
        if not isinstance(c.expected_type, str):
            raise ValueError("non-str expected_type")
        return {"k": "TYPE", "t": c.expected_type}
    if t is C.RegexConstraint:
        return {"k": "REGEX", "p": c.pattern}
    if t is C.MinLengthConstraint:
        if not isinstance(c.min_length, int) or isinstance(c.min_length, bool):
            raise ValueError("non-int min_length")
        return {"k": "MIN_LENGTH", "n": c.min_length}
    return {"k": "OTHER"}


def enc_chain(chain):
    """ConstraintChain | None -> list | None"""
    if chain is None:
        return None
    return [enc_constraint(c) for c in chain.constraints]


def enc_field(name, field_def):
    ch = None
    if field_def.pattern and field_def.pattern.constraints:
        ch = enc_chain(field_def.pattern.constraints)
    return {"name": name, "lower": name.lower(), "chain": ch}


def enc_schema(schema, envelope: bool):
    return {"op": "compile_schema", "name": schema.name, "upper": schema.name.upper(), "envelope": envelope,
            "fields": [enc_field(n, fd) for n, fd in schema.fields.items()]}


def enc_tokens(tokens):
    out = []
    for t in tokens:
        v = t.value
        out.append({"ty": t.type.name, "v": v if isinstance(v, str) else "", "sv": str(v)})
    return out


def has_surrogate(s: str) -> bool:
    return any(0xD800 <= ord(c) <= 0xDFFF for c in s)


# --------------------------------------------------------------------------------------------------
# building schemas
# --------------------------------------------------------------------------------------------------

def api_schema(name, fields):
    """fields: [(field_name, chain_text | None)] -> SchemaDefinition via ConstraintChain.parse
    (the schema reader's own constraint parser).  Raises ValueError if a chain text is not accepted."""
    from octave_mcp.core.constraints import ConstraintChain
    from octave_mcp.core.holographic import HolographicPattern
    from octave_mcp.core.schema_extractor import FieldDefinition, SchemaDefinition
    s = SchemaDefinition(name=name, version="1.0")
    for fname, ctext in fields:
        chain = ConstraintChain.parse(ctext) if ctext is not None else None
        s.fields[fname] = FieldDefinition(name=fname, pattern=HolographicPattern(example=None, constraints=chain, target=None), raw_value=ctext)
    return s


def fields_doc(name, fields, block=None):
    """Schema document with a FIELDS block.  fields: [(key, chain_text | None)]."""
    out = [f"==={name}===", "META:", "  TYPE::PROTOCOL_DEFINITION", '  VERSION::"1.0"', "", "POLICY:", '  VERSION::"1.0"', "  UNKNOWN_FIELDS::REJECT", "", "FIELDS:"]
    for k, ct in fields:
        out.append(f'  {k}::["x"∧{ct}]' if ct else f'  {k}::["x"]')
    out.append("===END===")
    return "\n".join(out) + "\n"


def octave_quote(s: str) -> str:
    return '"' + s.replace("\\", "\\\\").replace('"', '\\"').replace("\n", "\\n").replace("\t", "\\t") + '"'


def contract_doc(type_text, entries, name="DOC"):
    """entries: list of raw entry texts, e.g. 'FIELD[STATUS]::REQ∧ENUM[A,B]'. type_text is raw OCTAVE."""
    return f"==={name}===\nMETA:\n  TYPE::{type_text}\n  VERSION::\"1.0\"\n  CONTRACT::[{', '.join(entries)}]\n===END===\n"


# --------------------------------------------------------------------------------------------------
# observation points on the real code
# --------------------------------------------------------------------------------------------------

class Sandbox:
    """temp cwd with specs/schemas/ on the loader's search path; write targets under w/."""

    def __init__(self):
        self.root = Path(tempfile.mkdtemp(prefix="gbnf-sb-"))
        (self.root / "specs" / "schemas").mkdir(parents=True)
        (self.root / "w").mkdir()
        self.old = os.getcwd()
        self.n = 0

    def __enter__(self):
        os.chdir(self.root)
        return self

    def __exit__(self, *a):
        os.chdir(self.old)
        shutil.rmtree(self.root, ignore_errors=True)

    def put_schema(self, name, text):
        (self.root / "specs" / "schemas" / f"{name.lower()}.oct.md").write_text(text, encoding="utf-8")

    def fresh_target(self):
        self.n += 1
        return str(self.root / "w" / f"t{self.n}.oct.md")


def run_tool(tool, **kw):
    return asyncio.run(tool.execute(**kw))


def invalid_instance(schema_name):
    """A document that the validator must reject under `schema_name` (unknown field in the block
    keyed by the schema's name; UNKNOWN_FIELDS defaults to REJECT)."""
    return f"===INSTANCE===\nMETA:\n  TYPE::X\n  VERSION::\"1.0\"\n\n{schema_name}:\n  ZZ_UNKNOWN_FIELD_QQ::1\n===END===\n"


def route_compile_tool(content=None, schema=None):
    from octave_mcp.mcp.compile_grammar import CompileGrammarTool
    kw = {"format": "gbnf"}
    if content is not None:
        kw["content"] = content
    if schema is not None:
        kw["schema"] = schema
    r = run_tool(CompileGrammarTool(), **kw)
    return r.get("grammar") if r.get("status") == "success" else None, r


def route_eject(content):
    from octave_mcp.mcp.eject import EjectTool
    r = run_tool(EjectTool(), content=content, schema="X", format="gbnf")
    return (r.get("output") if r.get("format") == "gbnf" else None), r


def route_validate_hint(schema_name):
    from octave_mcp.mcp.validate import ValidateTool
    r = run_tool(ValidateTool(), content=invalid_instance(schema_name), schema=schema_name, grammar_hint=True)
    gh = r.get("grammar_hint") or {}
    return gh.get("grammar"), r


def route_write_hint(schema_name, target):
    from octave_mcp.mcp.write import WriteTool
    r = run_tool(WriteTool(), target_path=target, content=invalid_instance(schema_name), schema=schema_name, grammar_hint=True)
    gh = r.get("grammar_hint") or {}
    return gh.get("grammar"), r


# --------------------------------------------------------------------------------------------------
# reference reading (independent of the source and of the Lean model) — used ONLY to decide
# whether a failure lies inside an already recorded finding class
# --------------------------------------------------------------------------------------------------

STRUCTURAL = ("ws", "field", "content", "document", "root")
STRUCTURAL_ENVELOPE = ("envelope-start", "envelope-end", "meta-block", "meta-content", "meta-field")


def ref_sanitize(name: str) -> str:
    out = []
    for ch in name.lower():
        if ch == ".":
            out.append("_dot_")
        elif ch == "/":
            out.append("_slash_")
        elif ch == "-":
            out.append("_")
        elif ord(ch) < 128:
            if ch == "_" or ("a" <= ch <= "z") or ("A" <= ch <= "Z") or ("0" <= ch <= "9"):
                out.append(ch)
        else:
            out.append("_u%x_" % ord(ch))
    r = "".join(out)
    if r and r[0] in "0123456789":
        r = "r_" + r
    r = re.sub("_+", "_", r).strip("_")
    return r or "unnamed_field"


def ref_rule_names(field_names):
    """rule names compile_schema is documented to assign: the sanitised name, made unique against the earlier
    fields and the five structural names by the suffixes -2, -3, ..."""
    used = []
    for n in field_names:
        base = ref_sanitize(n)
        cur, k = base, 2
        while cur in used or cur in STRUCTURAL:
            cur = f"{base}-{k}"
            k += 1
        used.append(cur)
    return used


# ---- class predicate of the one open C12 finding (input based).  `fields` = [(name, chain_enc | None)] ----

def kf_underscore_rule_name(name, fields, envelope):
    """F23: a sanitised field rule name contains '_' (not a llama.cpp name character)."""
    return any("_" in ref_sanitize(n) for n, _ in fields)
