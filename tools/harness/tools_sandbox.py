"""Sandbox for driving the four MCP tools of /repo (engine `tools`, properties C10 / C20-tools).

A sandbox is a fresh temporary directory tree

    <root>/cwd/                      working directory of the calls (loader.get_schema_search_paths uses Path.cwd())
    <root>/cwd/specs/schemas/*.oct.md   generated schemas *on the search path*  (GEN_* below)
    <root>/cwd/outside/evil.oct.md   a perfectly good schema that is NOT on the search path; only a
                                     path-like name (`../../outside/EVIL`) could reach it
    <root>/home/.octave/standards/   hermetic cache used by write.py for `latest` / `frozen@sha256:…`
    <root>/emptyhome/                a HOME without any cache
    <root>/w/                        write targets (fresh file name per call)

Everything is deterministic text; nothing here depends on the seed.  The process' cwd and HOME are
switched by `Sandbox.enter()`; use it only inside worker processes (or restore with `leave()`).
"""
from __future__ import annotations

import hashlib
import os
import shutil
import tempfile
from pathlib import Path

PARENT_ENV = "VERIF_TOOLS_SANDBOX_PARENT"

# ---------------------------------------------------------------------------------------------
# generated schemas
# ---------------------------------------------------------------------------------------------

def _schema(name: str, version: str | None, policy: str | None, fields: list[str], extra: str = "") -> str:
    out = [f"==={name}===", "META:", "  TYPE::SCHEMA"]
    if version is not None:
        out.append(f'  VERSION::"{version}"')
    out.append("  STATUS::ACTIVE")
    if policy is not None:
        out += ["", "POLICY:", '  VERSION::"1.0"', f"  UNKNOWN_FIELDS::{policy}"]
    if fields:
        out += ["", "FIELDS:"] + ["  " + f for f in fields]
    if extra:
        out += ["", extra]
    out.append("===END===")
    return "\n".join(out) + "\n"


GEN_SCHEMAS = {
    # name on the search path -> text.  File name is <name.lower()>.oct.md unless stated otherwise.
    "GEN_FIELDS": _schema("GEN_FIELDS", "2.1", "REJECT", [
        'NAME::["example"∧REQ]',
        'STATUS::["ACTIVE"∧REQ∧ENUM[DRAFT,ACTIVE,DEPRECATED]]',
        'COUNT::[3∧OPT∧TYPE[NUMBER]]',
        'CODE::["ab"∧OPT∧REGEX["^[a-z]+$"]]',
    ]),
    "GEN_NOVERSION": _schema("GEN_NOVERSION", None, "IGNORE", ['NAME::["example"∧REQ]']),
    "GEN_WARN": _schema("GEN_WARN", "0.3", "WARN", ['NAME::["example"∧REQ]']),
    "GEN_EMPTY": _schema("GEN_EMPTY", "1.0", "REJECT", []),
    "GEN_BROKEN": "===GEN_BROKEN===\nFIELDS:\n  NAME::[\"x\"∧REQ\n===END===\n",      # unbalanced bracket: load raises
    "GEN_TABBED": "===GEN_TABBED===\nFIELDS:\n\tNAME::[\"x\"∧REQ]\n===END===\n",      # tab: lexer error while loading
    # the envelope name differs from the file name: section_schemas is keyed by the *envelope* name
    "GEN_ALIAS": _schema("OTHER_NAME", "7", "REJECT", ['NAME::["example"∧REQ]']),
}
# stored under its exact (upper-case) file name only: reached through the second filename pattern
GEN_UPPER_ONLY = {"GEN_UPPER": _schema("GEN_UPPER", "1.1", "REJECT", ['NAME::["example"∧REQ]'])}

EVIL = _schema("EVIL", "6.6.6", "REJECT", ['NAME::["example"∧REQ]'])
STANDARD_DEFAULT = _schema("STD_DEFAULT", "9.0", "REJECT", ['NAME::["example"∧REQ]'])
STANDARD_FROZEN = _schema("STD_FROZEN", "9.1", "REJECT", ['NAME::["example"∧REQ]'])
STANDARD_CORRUPT = _schema("STD_CORRUPT", "9.2", "REJECT", ['NAME::["example"∧REQ]'])

FROZEN_GOOD_DIGEST = hashlib.sha256(STANDARD_FROZEN.encode("utf-8")).hexdigest()
# a digest whose cache file exists but holds different bytes (hash mismatch -> VocabularyError)
FROZEN_MISMATCH_DIGEST = hashlib.sha256(b"what was pinned").hexdigest()
FROZEN_ABSENT_DIGEST = hashlib.sha256(b"never cached").hexdigest()


class Sandbox:
    def __init__(self):
        parent = os.environ.get(PARENT_ENV) or None
        self.root = Path(tempfile.mkdtemp(prefix=f"sb{os.getpid()}-", dir=parent))
        self.cwd = self.root / "cwd"
        self.home = self.root / "home"
        self.emptyhome = self.root / "emptyhome"
        self.w = self.root / "w"
        sdir = self.cwd / "specs" / "schemas"
        sdir.mkdir(parents=True)
        for name, text in GEN_SCHEMAS.items():
            (sdir / f"{name.lower()}.oct.md").write_text(text, encoding="utf-8")
        for name, text in GEN_UPPER_ONLY.items():
            (sdir / f"{name}.oct.md").write_text(text, encoding="utf-8")
        (self.cwd / "outside").mkdir()
        (self.cwd / "outside" / "evil.oct.md").write_text(EVIL, encoding="utf-8")
        (self.cwd / "outside" / "EVIL.oct.md").write_text(EVIL, encoding="utf-8")
        std = self.home / ".octave" / "standards"
        std.mkdir(parents=True)
        (std / "default.oct.md").write_bytes(STANDARD_DEFAULT.encode("utf-8"))
        (std / f"{FROZEN_GOOD_DIGEST[:16]}.oct.md").write_bytes(STANDARD_FROZEN.encode("utf-8"))
        (std / f"{FROZEN_MISMATCH_DIGEST[:16]}.oct.md").write_bytes(STANDARD_CORRUPT.encode("utf-8"))
        self.emptyhome.mkdir()
        self.w.mkdir()
        self._saved = None
        self._n = 0

    def enter(self, home: str = "home"):
        if self._saved is None:
            self._saved = (os.getcwd(), os.environ.get("HOME"))
        os.chdir(self.cwd)
        os.environ["HOME"] = str(self.home if home == "home" else self.emptyhome)

    def set_home(self, home: str):
        os.environ["HOME"] = str(self.home if home == "home" else self.emptyhome)

    def leave(self):
        if self._saved is not None:
            os.chdir(self._saved[0])
            if self._saved[1] is None:
                os.environ.pop("HOME", None)
            else:
                os.environ["HOME"] = self._saved[1]
            self._saved = None

    def fresh_target(self, suffix: str = ".oct.md") -> Path:
        self._n += 1
        return self.w / f"t{self._n:06d}{suffix}"

    def destroy(self):
        self.leave()
        shutil.rmtree(self.root, ignore_errors=True)


_SANDBOX: Sandbox | None = None
_SANDBOX_PID = None


def worker_sandbox() -> Sandbox:
    """One sandbox per process, created lazily below $VERIF_TOOLS_SANDBOX_PARENT (pool workers do not
    run atexit handlers, so the *parent* process removes the whole tree: see `sandbox_parent`)."""
    global _SANDBOX, _SANDBOX_PID
    if _SANDBOX is None or _SANDBOX_PID != os.getpid() or not _SANDBOX.root.exists():
        _SANDBOX = Sandbox()
        _SANDBOX_PID = os.getpid()
    return _SANDBOX


class sandbox_parent:
    """Context manager for the coordinating process: creates the directory under which every worker
    builds its sandbox and removes it (with all sandboxes) at the end."""

    def __enter__(self):
        self.dir = tempfile.mkdtemp(prefix="verif-tools-")
        self.prev = os.environ.get(PARENT_ENV)
        os.environ[PARENT_ENV] = self.dir
        return self.dir

    def __exit__(self, *exc):
        global _SANDBOX
        if _SANDBOX is not None and _SANDBOX_PID == os.getpid():
            _SANDBOX.leave()
            _SANDBOX = None
        shutil.rmtree(self.dir, ignore_errors=True)
        if self.prev is None:
            os.environ.pop(PARENT_ENV, None)
        else:
            os.environ[PARENT_ENV] = self.prev
        return False
