"""C10 harness: pools, case generation, execution of the real tools on *forced* stage-outcome classes,
independent stage probe (abstract outcomes for the Lean model), envelope view, and the property oracle.

A *case* is a plain JSON dict (replayable):
  {"tool": "validate", "content": <content key>, "schema": <str>, "profile": <str|None>, "fix":…, "diff_only":…,
   "compact":…, "grammar_hint":…, "debug_grammar":…, "input": "content|file|both|neither|file_missing|file_badext|file_dir",
   "home": "home|emptyhome"}
  {"tool": "write", "content":…, "schema": <str|None>, "lenient":…, "corrections_only":…, "grammar_hint":…, "debug_grammar":…,
   "mode": "content|normalize|changes|both", "target": "fresh|existing|badext|dir|parent_is_file|dangling_symlink",
   "base_hash": None|"good"|"bad", "policy": "error|salvage|bogus", "home":…}
  {"tool": "eject", "content": <key|None>, "schema":…, "format":…, "mode":…}
  {"tool": "grammar", "content": <key|None>, "schema": <str|None>, "format": "gbnf|json_schema|bogus"}
  {"tool": "cli_validate", "content":…, "schema": <str|None>, "fix":…, "stdin":…}
  {"tool": "cli_write", "content":…, "schema": <str|None>}
`content` is a key of CONTENTS or {"text": "..."} for literal text.

`run_case(case)` is executed in worker processes (it switches cwd and HOME to the worker's sandbox) and returns
  {"impl": view | {"raise": …}, "req": <request for the Lean driver>, "failures": [(why_class, why)…],
   "tags": [distribution keys]}.
"""
from __future__ import annotations

import asyncio
import hashlib
import itertools
import json
import os
import subprocess
from pathlib import Path

from harness import tools_sandbox as SB
from harness import tools_total as TT

STATUSES = ("VALIDATED", "UNVALIDATED", "INVALID")

# ---------------------------------------------------------------------------------------------
# contents (each designed with respect to the schemas of the sandbox and of the package)
# ---------------------------------------------------------------------------------------------

def _doc(name, meta=None, sections=(), front=None):
    out = []
    if front is not None:
        out += ["---"] + front + ["---"]
    out.append(f"==={name}===")
    if meta is not None:
        out.append("META:")
        out += ["  " + m for m in meta]
    for key, fields in sections:
        out.append(f"{key}:")
        out += ["  " + f for f in fields]
    out.append("===END===")
    return "\n".join(out) + "\n"


_ALL_SECTION_KEYS = ["GEN_NOVERSION", "GEN_WARN", "OTHER_NAME", "GEN_UPPER", "GEN_EMPTY", "EVIL", "STD_DEFAULT", "STD_FROZEN", "STD_CORRUPT"]
_DEBATE_OK = ["THREAD_ID::d1", 'TOPIC::"t"', "MODE::fixed", "STATUS::active", "PARTICIPANTS::[Wind,Wall]", "TURNS::[t1,t2]"]

CONTENTS = {
    # ---- builtin META dict schema ----
    "meta_ok": _doc("D", ["TYPE::T", 'VERSION::"1"', "STATUS::ACTIVE"]),
    "meta_missing_version": _doc("D", ["TYPE::T"]),
    "meta_bad_enum": _doc("D", ["TYPE::T", 'VERSION::"1"', "STATUS::BOGUS"]),
    "meta_enum_case": _doc("D", ["TYPE::T", 'VERSION::"1"', "STATUS::active"]),          # lenient write repairs it
    "meta_extra_field": _doc("D", ["TYPE::T", 'VERSION::"1"', "EXTRA::1"]),               # an error only under STRICT
    "meta_bad_type": _doc("D", ["TYPE::[a,b]", 'VERSION::"1"']),
    "no_meta": "A::1\n",
    # ---- schema files with FIELDS (generated GEN_FIELDS) ----
    "fields_ok": _doc("D", None, [("GEN_FIELDS", ["NAME::foo", "STATUS::ACTIVE", "COUNT::3", 'CODE::"ab"'])]),
    "fields_missing_req": _doc("D", None, [("GEN_FIELDS", ["STATUS::ACTIVE"])]),
    "fields_bad_enum": _doc("D", None, [("GEN_FIELDS", ["NAME::foo", "STATUS::BOGUS"])]),
    "fields_enum_case": _doc("D", None, [("GEN_FIELDS", ["NAME::foo", "STATUS::active"])]),   # repair(): enum casefold
    "fields_unknown": _doc("D", None, [("GEN_FIELDS", ["NAME::foo", "STATUS::ACTIVE", "ZZZ::1"]), ("GEN_WARN", ["NAME::foo", "ZZZ::1"])]),
    "fields_bad_regex": _doc("D", None, [("GEN_FIELDS", ["NAME::foo", "STATUS::ACTIVE", 'CODE::"AB1"'])]),
    "fields_bad_type": _doc("D", None, [("GEN_FIELDS", ["NAME::foo", "STATUS::ACTIVE", "COUNT::abc"])]),
    # ---- one document that every findable schema accepts / rejects ----
    "multi_ok": _doc("MULTI", ["TYPE::T", 'VERSION::"1"'],
                     [("GEN_FIELDS", ["NAME::foo", "STATUS::ACTIVE"])] + [(k, ["NAME::foo"]) for k in _ALL_SECTION_KEYS]
                     + [("TEST_HOLOGRAPHIC", ["NAME::foo", "STATUS::ACTIVE"]), ("DEBATE_TRANSCRIPT", _DEBATE_OK),
                        ("SKILL_SCHEMA", ["TYPE::SKILL", 'VERSION::"1.0"'])],
                     front=["name: s", "description: d", "allowed-tools: [a]"]),
    "multi_bad": _doc("MULTI", ["TYPE::T"],
                      [("GEN_FIELDS", ["STATUS::ACTIVE"])] + [(k, ["OTHER::foo"]) for k in _ALL_SECTION_KEYS]
                      + [("TEST_HOLOGRAPHIC", ["STATUS::ACTIVE"]), ("DEBATE_TRANSCRIPT", ["TOPIC::t"]),
                         ("SKILL_SCHEMA", ["VERSION::\"1.0\""])]),
    # ---- special shapes ----
    "zones": "===Z===\nMETA:\n  TYPE::T\n  VERSION::\"1\"\nCODE::\n```py\nx = 1\n```\nB:\n  INNER::\n  ```\n  y\n  ```\n===END===\n",
    "fenced_md": "```octave\n===D===\nMETA:\n  TYPE::T\n  VERSION::\"1\"\n===END===\n```\n",          # write unwraps a markdown fence
    "ascii_ops": "".join(f"K{i}::a->b\n" for i in range(7)),                    # lenient: W002 corrections (> 5 compilations)
    "holo": 'K::["x"∧REQ]\n',                                                   # F33 for eject(format=json)
    "meta_nested": "===D===\nMETA:\n  TYPE::T\n  VERSION::\"1\"\n  NEST:\n    B::[1,2]\n===END===\n",   # F52 for eject(format=json)
    "contract": _doc("C", ["TYPE::CT", 'VERSION::"1"', "CONTRACT::[FIELD::REQ]"]),
    "annot": "A::NEVER[A,B]\nB::FOO[]\nC::\"true.\"\n",                              # F1/F2/F9 shapes (canonical must stay re-readable)
    "neg_inf": "A::-1e400\n",                                                   # F3: canonical `-inf` is rejected by the lexer
    "holo_quote": 'K::["a\\"b"∧REQ]\n',                                          # F4: canonical loses the escape
    "empty": "",
    "plain": "hello world\nthis is prose\n",
    # ---- unparseable ----
    "bad_bracket": "A::[1,2\n",
    "bad_tab": "A::\t1\n",
    "bad_char": "A::1\n\x01\n",
    "bad_envelope": "===A===\nB::1\n===END===\n===C===\n",
}
UNPARSEABLE = {"bad_bracket", "bad_tab", "bad_char"}

# ---------------------------------------------------------------------------------------------
# project overlays: schema files a project keeps on its own search path (<cwd>/specs/schemas) under a FILE NAME that the package
# provides as well — the name of a builtin dict schema (META) or of a packaged schema of the last search directory (SKILL).  The
# loader finds the project file first; it has real FIELDS, so "the named schema" of a call is the builtin dict rules AND that file.
# A case names its overlay with "project": <key>; the files exist only while that case runs (run_case installs / removes them).
# ---------------------------------------------------------------------------------------------

_OV_FIELDS = ['STAGE::["beta"∧REQ∧ENUM[alpha,beta,stable]]', 'OWNER::["me"∧REQ]', 'BUILD::[7∧OPT∧TYPE[NUMBER]]']
_OV_SECTIONS = ["RELEASE", "PROJECT_META", "PROJECT_SKILL"]
PROJECT_OVERLAYS = {
    # file name = lower-cased builtin dict name (first filename pattern); the envelope name differs from the file name
    "shadow_meta": {"schema": "META", "files": {"meta.oct.md": SB._schema("RELEASE", "2.0", "REJECT", _OV_FIELDS)}},
    # exact upper-case file name only (second filename pattern)
    "shadow_meta_upper": {"schema": "META", "files": {"META.oct.md": SB._schema("PROJECT_META", "3.1", "REJECT", _OV_FIELDS)}},
    # unknown fields only warned about: a document with an extra field has no blocking error
    "shadow_meta_warn": {"schema": "META", "files": {"meta.oct.md": SB._schema("RELEASE", None, "WARN", _OV_FIELDS)}},
    # a packaged (non-dict) name shadowed the same way
    "shadow_skill": {"schema": "SKILL", "files": {"skill.oct.md": SB._schema("PROJECT_SKILL", "0.9", "REJECT", _OV_FIELDS)}},
}


def _ov_doc(fields, meta=("TYPE::T", 'VERSION::"1"')):
    return _doc("D", list(meta), [(k, fields) for k in _OV_SECTIONS])


# every document passes / fails the overlay schemas in one designed way; all but ov_builtin_bad satisfy the builtin META dict rules
OVERLAY_CONTENTS = {
    "ov_ok": _ov_doc(["STAGE::beta", "OWNER::x", "BUILD::3"]),
    "ov_bad_enum": _ov_doc(["STAGE::gamma", "OWNER::x"]),
    "ov_missing_req": _ov_doc(["STAGE::beta"]),
    "ov_unknown": _ov_doc(["STAGE::beta", "OWNER::x", "ZZZ::1"]),            # blocking under REJECT, a warning under WARN
    "ov_enum_case": _ov_doc(["STAGE::BETA", "OWNER::x"]),                    # lenient write repairs it
    "ov_bad_type": _ov_doc(["STAGE::beta", "OWNER::x", "BUILD::many"]),
    "ov_no_section": _doc("D", ["TYPE::T", 'VERSION::"1"'], [("ELSEWHERE", ["STAGE::gamma"])]),   # nothing for the file schema to look at
    "ov_builtin_bad": _ov_doc(["STAGE::beta", "OWNER::x"], meta=("TYPE::T",)),                   # fails the builtin dict rules only
}


def install_overlay(sb, key):
    """write the overlay's files into the sandbox' search directory; returns the paths to remove afterwards."""
    out = []
    for fname, text in PROJECT_OVERLAYS[key]["files"].items():
        f = sb.cwd / "specs" / "schemas" / fname
        if f.exists():
            raise RuntimeError(f"overlay {key}: {f} exists already")
        f.write_text(text, encoding="utf-8")
        out.append(f)
    return out


def preload():
    """Import the implementation in the coordinating process so that forked pool workers inherit it."""
    import octave_mcp.cli.main  # noqa: F401
    import octave_mcp.core.hydrator  # noqa: F401
    import octave_mcp.core.projector  # noqa: F401
    import octave_mcp.core.repair  # noqa: F401
    import octave_mcp.mcp.compile_grammar  # noqa: F401
    import octave_mcp.mcp.eject  # noqa: F401
    import octave_mcp.mcp.validate  # noqa: F401
    import octave_mcp.mcp.write  # noqa: F401


def content_text(c):
    if c is None:
        return None
    if isinstance(c, dict):
        return c["text"]
    return CONTENTS[c] if c in CONTENTS else OVERLAY_CONTENTS[c]


# ---------------------------------------------------------------------------------------------
# schema arguments and their input-based classes
# ---------------------------------------------------------------------------------------------

G = "frozen@sha256:"
SCHEMA_ARGS = [
    ("META", "builtin"),
    ("SKILL", "packaged"), ("TEST_HOLOGRAPHIC", "packaged"), ("DEBATE_TRANSCRIPT", "packaged"),
    ("GEN_FIELDS", "generated"), ("GEN_NOVERSION", "generated"), ("GEN_WARN", "generated"), ("GEN_ALIAS", "generated"),
    ("GEN_UPPER", "generated"),
    ("GEN_EMPTY", "found_empty"),
    ("GEN_BROKEN", "unloadable"), ("GEN_TABBED", "unloadable"),
    ("NOPE", "unknown"), ("EVIL", "unknown"), ("STD_DEFAULT", "unknown"),
    ("meta", "lowercase"), ("gen_fields", "lowercase"), ("Gen_Fields", "lowercase"), ("skill", "lowercase"), ("gEN_FIELDS", "lowercase"),
    ("../../outside/EVIL", "pathlike"), ("../../../schemas/builtin/SKILL", "pathlike"), ("specs/schemas/GEN_FIELDS", "pathlike"),
    ("GEN_FIELDS.oct.md", "pathlike"), ("./GEN_FIELDS", "pathlike"), ("/etc/passwd", "pathlike"), ("GEN_FIELDS/", "pathlike"),
    ("..", "pathlike"),
    ("GEN_FIELDS\n", "malformed"), (" GEN_FIELDS", "malformed"), ("GEN FIELDS", "malformed"), ("GEN-FIELDS", "malformed"),
    ("1GEN", "malformed"), ("_GEN_FIELDS", "malformed"), ("ÉCOLE", "malformed"), ("GEN_FIELDS\x00", "malformed"),
    ("", "empty"),
    ("latest", "hermetic_good"), (G + SB.FROZEN_GOOD_DIGEST, "hermetic_good"), (G + SB.FROZEN_GOOD_DIGEST.upper(), "hermetic_good"),
    (G + SB.FROZEN_MISMATCH_DIGEST, "hermetic_bad"), (G + SB.FROZEN_ABSENT_DIGEST, "hermetic_bad"), (G + "../x", "hermetic_bad"),
    (G + "g" * 64, "hermetic_bad"), ("frozen@" + SB.FROZEN_GOOD_DIGEST, "hermetic_bad"), (G + SB.FROZEN_GOOD_DIGEST[:63], "hermetic_bad"),
    ("LATEST", "unknown"), ("frozen", "lowercase"),
]
SCHEMA_CLASS = dict(SCHEMA_ARGS)
FINDABLE = {"builtin", "packaged", "generated"}


def schema_findable(tool, name, home):
    """By construction of the sandbox: may a call of `tool` with this schema argument legitimately find a
    schema?  (Everything else must come back UNVALIDATED.)"""
    cls = SCHEMA_CLASS.get(name)
    if cls is None:
        return None          # not a pool name: no claim
    if cls in FINDABLE:
        return True
    if cls == "hermetic_good":
        return tool == "write" and home == "home"
    return False


# ---------------------------------------------------------------------------------------------
# pairwise covering arrays (seeded greedy)
# ---------------------------------------------------------------------------------------------

def pairwise(dims: dict, rng, tries=24):
    """Rows (dicts) covering every pair of values of every two dimensions (greedy, seeded)."""
    names = list(dims)
    uncovered = set()
    for i, a in enumerate(names):
        for b in names[i + 1:]:
            for va in range(len(dims[a])):
                for vb in range(len(dims[b])):
                    uncovered.add((a, va, b, vb))
    rows = []
    while uncovered:
        best, best_gain = None, -1
        # seed each candidate with one uncovered pair so that progress is guaranteed
        seed = next(iter(sorted(uncovered))) if len(uncovered) < 50 else rng.choice(sorted(uncovered)[:200])
        for _ in range(tries):
            cand = {n: rng.randrange(len(dims[n])) for n in names}
            cand[seed[0]], cand[seed[2]] = seed[1], seed[3]
            gain = sum(1 for i, a in enumerate(names) for b in names[i + 1:] if (a, cand[a], b, cand[b]) in uncovered)
            if gain > best_gain:
                best, best_gain = cand, gain
        for i, a in enumerate(names):
            for b in names[i + 1:]:
                uncovered.discard((a, best[a], b, best[b]))
        rows.append({n: dims[n][best[n]] for n in names})
    return rows


V_DIMS = {
    "content": [k for k in CONTENTS],
    "schema": [n for n, _ in SCHEMA_ARGS],
    "profile": [None, "STRICT", "STANDARD", "LENIENT", "ULTRA", "strict", "Lenient"],
    "fix": [False, True], "diff_only": [False, True], "compact": [False, True],
    "grammar_hint": [False, True], "debug_grammar": [False, True],
}
W_DIMS = {
    "content": [k for k in CONTENTS],
    "schema": [None] + [n for n, _ in SCHEMA_ARGS],
    "lenient": [False, True], "corrections_only": [False, True],
    "grammar_hint": [False, True], "debug_grammar": [False, True],
    "home": ["home", "home", "emptyhome"],
}
E_DIMS = {"content": [k for k in CONTENTS] + [None], "schema": ["META", "GEN_FIELDS", "NOPE", "../x"],
          "format": ["octave", "json", "yaml", "markdown", "gbnf"], "mode": ["canonical", "authoring", "executive", "developer"]}
G_SCHEMAS = [None, "META", "SKILL", "GEN_FIELDS", "GEN_EMPTY", "GEN_BROKEN", "NOPE", "skill", "../../outside/EVIL", "latest", ""]


def special_cases():
    """Hand-written cases reaching the early-return sites that the product space does not."""
    v = {"tool": "validate", "content": "meta_ok", "schema": "META", "profile": None, "fix": False, "diff_only": False, "compact": False,
         "grammar_hint": False, "debug_grammar": False, "input": "content", "home": "home"}
    w = {"tool": "write", "content": "meta_ok", "schema": "META", "lenient": False, "corrections_only": False, "grammar_hint": False,
         "debug_grammar": False, "mode": "content", "target": "fresh", "base_hash": None, "policy": "error", "home": "home"}
    out = []
    for prof in ("BOGUS", "", "standard ", "ſtrict"):
        for compact in (False, True):
            out.append({**v, "profile": prof, "compact": compact, "diff_only": compact})
    for inp in ("file", "both", "neither", "file_missing", "file_badext", "file_dir", "file_dotdot"):
        for compact in (False, True):
            out.append({**v, "input": inp, "compact": compact})
        out.append({**v, "input": inp, "content": "meta_bad_enum", "profile": "STRICT"})
        out.append({**v, "input": inp, "content": "bad_bracket"})
    for mode in ("normalize", "changes", "both"):
        for target in ("fresh", "existing"):
            for bh in (None, "good", "bad"):
                for content in ("meta_ok", "meta_bad_enum", "bad_bracket"):
                    out.append({**w, "mode": mode, "target": target, "base_hash": bh, "content": content})
    for target in ("existing", "badext", "dir", "parent_is_file", "dangling_symlink", "dotdot"):
        for co in (False, True):
            for content in ("meta_ok", "meta_bad_enum"):
                out.append({**w, "target": target, "corrections_only": co, "content": content})
    for mode in ("normalize", "changes"):
        out.append({**w, "mode": mode, "target": "dir"})
    for target in ("existing_fm", "existing_bad"):
        for lenient in (False, True):
            for content in ("meta_ok", "meta_bad_enum", "multi_ok"):
                out.append({**w, "target": target, "lenient": lenient, "content": content})
    for content in ("fenced_md", "ascii_ops", "zones"):
        for lenient in (False, True):
            out.append({**w, "content": content, "lenient": lenient})
    out.append({**w, "target": "existing", "base_hash": "bad"})
    out.append({**w, "target": "existing", "base_hash": "good"})
    for pol in ("salvage", "bogus"):
        for lenient in (False, True):
            for content in ("meta_ok", "bad_bracket", "plain", "meta_enum_case"):
                out.append({**w, "policy": pol, "lenient": lenient, "content": content})
    return out


def grammar_cases():
    out = []
    for fmt in ("gbnf", "json_schema", "bogus", None):
        for s in G_SCHEMAS:
            out.append({"tool": "grammar", "content": None, "schema": s, "format": fmt})
        for c in ("contract", "meta_ok", "fields_ok", "bad_bracket", "bad_tab", "empty", "holo", "zones"):
            out.append({"tool": "grammar", "content": c, "schema": None, "format": fmt})
        out.append({"tool": "grammar", "content": "contract", "schema": "META", "format": fmt})
    return out


def cli_cases(level):
    """level 0 = quick (32 runs), 1 = widened quick (~110), 2 = thorough (~270)."""
    out = []
    contents = [["meta_ok", "meta_bad_enum", "meta_enum_case", "bad_bracket"],
                ["meta_ok", "meta_missing_version", "meta_bad_enum", "meta_enum_case", "bad_bracket", "multi_ok"],
                ["meta_ok", "meta_missing_version", "meta_bad_enum", "meta_enum_case", "no_meta", "fields_bad_enum", "bad_bracket", "bad_tab",
                 "empty", "multi_ok"]][level]
    schemas = [[None, "META", "NOPE", "GEN_BROKEN"],
               [None, "META", "SKILL", "GEN_BROKEN", "NOPE", "meta", "../../outside/EVIL"],
               [None, "META", "SKILL", "GEN_FIELDS", "GEN_BROKEN", "NOPE", "meta", "../../outside/EVIL", ""]][level]
    for c in contents:
        for s in schemas:
            for fix in ((False, True) if level >= 1 or s in ("META", "NOPE") else (False,)):
                out.append({"tool": "cli_validate", "content": c, "schema": s, "fix": fix, "stdin": level == 2 and (len(out) % 3 == 0)})
            if level == 2 or s in (None, "META"):
                out.append({"tool": "cli_write", "content": c, "schema": s})
    return out


V_OUTPUT_FLAGS = ("diff_only", "compact", "grammar_hint", "debug_grammar")     # shape what is reported, never what is validated
W_OUTPUT_FLAGS = ("corrections_only", "grammar_hint", "debug_grammar")


def _vcase(content, schema, profile=None, on=(), **kw):
    return {"tool": "validate", "content": content, "schema": schema, "profile": profile,
            **{f: (f in on) for f in ("fix",) + V_OUTPUT_FLAGS}, **V_EXTRA, **kw}


def _wcase(content, schema, lenient=False, on=(), **kw):
    return {"tool": "write", "content": content, "schema": schema, "lenient": lenient, **{f: (f in on) for f in W_OUTPUT_FLAGS}, **W_EXTRA,
            "home": "home", **kw}


def _flag_family(content, schema, **kw):
    """one (content, schema): octave_validate plain / every single flag / all flags / STRICT / LENIENT, octave_write strict and
    lenient — each with companion calls (same content and schema, one reporting flag toggled, and the other tool)."""
    out = [_vcase(content, schema, None, (), companions=True, **kw)]
    out += [_vcase(content, schema, None, (f,), companions=True, **kw) for f in ("fix",) + V_OUTPUT_FLAGS]
    out.append(_vcase(content, schema, "STANDARD", ("fix",) + V_OUTPUT_FLAGS, companions=True, **kw))
    out += [_vcase(content, schema, "STRICT", (), companions=True, **kw), _vcase(content, schema, "STRICT", ("compact", "diff_only"), companions=True, **kw),
            _vcase(content, schema, "LENIENT", (), companions=True, **kw)]
    out += [_wcase(content, schema, False, (), companions=True, **kw), _wcase(content, schema, False, W_OUTPUT_FLAGS, companions=True, **kw),
            _wcase(content, schema, True, (), companions=True, **kw)]
    return out


def overlay_cases():
    """fixed family (every tier): every project overlay x every document designed for it x the flag family."""
    out = []
    for key, ov in PROJECT_OVERLAYS.items():
        for c in OVERLAY_CONTENTS:
            out += _flag_family(c, ov["schema"], project=key)
    # the same documents without the overlay: only the package's own schema of that name applies
    for c in ("ov_ok", "ov_bad_enum", "ov_builtin_bad"):
        out += [_vcase(c, "META", None, (), companions=True), _wcase(c, "META", False, (), companions=True)]
    return out


def sweep_cases():
    """fixed family (every tier): the flag family on (document, findable schema) pairs of the ordinary sandbox, one per verdict kind."""
    pairs = [("meta_ok", "META"), ("meta_bad_enum", "META"), ("meta_extra_field", "META"), ("fields_ok", "GEN_FIELDS"), ("fields_bad_enum", "GEN_FIELDS"),
             ("fields_enum_case", "GEN_FIELDS"), ("fields_unknown", "GEN_WARN"), ("multi_ok", "GEN_ALIAS"), ("multi_bad", "GEN_ALIAS"),
             ("multi_ok", "SKILL"), ("multi_bad", "TEST_HOLOGRAPHIC"), ("multi_bad", "DEBATE_TRANSCRIPT"), ("multi_ok", "GEN_EMPTY"), ("meta_ok", "NOPE")]
    out = []
    for c, sname in pairs:
        out += _flag_family(c, sname)
    return out


def product_cases(dims, tool, extra):
    names = list(dims)
    for combo in itertools.product(*[range(len(dims[n])) for n in names]):
        yield {"tool": tool, **{n: dims[n][i] for n, i in zip(names, combo)}, **extra}


# focused sub-space: every findable schema class x the documents designed for them (balanced verdicts)
_FOCUS_CONTENT = [k for k in CONTENTS if k.startswith(("meta_", "fields_", "multi_")) or k in ("no_meta", "zones")]
_FOCUS_SCHEMA = [n for n, c in SCHEMA_ARGS if c in FINDABLE or c in ("found_empty", "hermetic_good")] + ["NOPE", "GEN_BROKEN"]
VF_DIMS = {**V_DIMS, "content": _FOCUS_CONTENT, "schema": _FOCUS_SCHEMA, "profile": [None, "STRICT", "STANDARD", "LENIENT", "ULTRA"]}
WF_DIMS = {**W_DIMS, "content": _FOCUS_CONTENT, "schema": _FOCUS_SCHEMA}



def focused_cases(rng):
    """Every (designed document, findable schema, profile) triple of octave_validate and every (document, schema,
    lenient) triple of octave_write once, the remaining flags cycling through a pairwise-covering array."""
    vflags = pairwise({k: V_DIMS[k] for k in ("fix", "diff_only", "compact", "grammar_hint", "debug_grammar")}, rng)
    wflags = pairwise({k: W_DIMS[k] for k in ("corrections_only", "grammar_hint", "debug_grammar", "home")}, rng)
    out, i = [], rng.randrange(1000)
    for c in _FOCUS_CONTENT:
        for sname in _FOCUS_SCHEMA:
            for prof in VF_DIMS["profile"]:
                i += 1
                out.append({"tool": "validate", "content": c, "schema": sname, "profile": prof, **vflags[i % len(vflags)], **V_EXTRA})
            for lenient in (False, True):
                i += 1
                out.append({"tool": "write", "content": c, "schema": sname, "lenient": lenient, **wflags[i % len(wflags)], **W_EXTRA})
    return out


V_EXTRA = {"input": "content", "home": "home"}
W_EXTRA = {"mode": "content", "target": "fresh", "base_hash": None, "policy": "error"}


# ---------------------------------------------------------------------------------------------
# envelope view
# ---------------------------------------------------------------------------------------------

def _codes(lst):
    return [e.get("code") if isinstance(e, dict) else str(e) for e in lst]


def view(r, tool=None):
    gh = r.get("grammar_hint")
    if tool == "grammar":       # its schema_name is the name of the compiled schema, not a validation record: outside the view
        r = {k: v for k, v in r.items() if k not in ("schema_name", "schema_version")}
    return {
        "status": r.get("status"), "vs": r.get("validation_status"), "valid": r.get("valid"),
        "verr_codes": _codes(r["validation_errors"]) if isinstance(r.get("validation_errors"), list) else None,
        "verr_count": r.get("validation_error_count"),
        "schema_name": r.get("schema_name"), "schema_version": r.get("schema_version"),
        "warn_codes": _codes(r.get("warnings", [])) if isinstance(r.get("warnings", []), list) else None,
        "warning_count": r.get("warning_count"), "has_warnings": r.get("has_warnings"),
        "err_codes": _codes(r.get("errors", [])),
        "grammar_hint": None if gh is None else ("grammar" in gh),
        "debug_info": "debug_info" in r,
    }


VIEW_KEYS = ["status", "vs", "valid", "verr_codes", "verr_count", "schema_name", "schema_version", "warn_codes", "warning_count",
             "has_warnings", "err_codes", "grammar_hint", "debug_info"]


def views_differ(model, impl):
    """Names of the view fields on which model and implementation disagree ([] = agree)."""
    if "raise" in model or "raise" in impl:
        return [] if ("raise" in model) == ("raise" in impl) else ["raise"]
    return [k for k in VIEW_KEYS if model.get(k) != impl.get(k)]


# ---------------------------------------------------------------------------------------------
# independent stage probe: abstract outcomes of the stages, obtained by calling the *stage functions*
# of the implementation one by one (never the tools' decision logic)
# ---------------------------------------------------------------------------------------------

def _lookup_json(defn):
    return {"k": "found", "name": defn.name, "version": defn.version, "fields": bool(defn.fields)}


def probe_search(name):
    """The file search of load_schema_by_name *without* the name gate: first existing candidate on the search
    path, loaded with the real load_schema."""
    from octave_mcp.schemas.loader import get_schema_search_paths, load_schema
    try:
        cands = [f"{name.lower()}.oct.md", f"{name}.oct.md"]
        for sp in get_schema_search_paths():
            for c in cands:
                f = sp / c
                if f.exists():
                    try:
                        return _lookup_json(load_schema(f)), f
                    except Exception:  # noqa: BLE001
                        return {"k": "raises"}, f
    except Exception:  # noqa: BLE001  (e.g. NUL in the name)
        pass
    return {"k": "notFound"}, None


def probe_hermetic(name):
    from octave_mcp.core.hydrator import resolve_hermetic_standard
    from octave_mcp.schemas.loader import load_schema
    try:
        return _lookup_json(load_schema(resolve_hermetic_standard(name)))
    except Exception:  # noqa: BLE001
        return {"k": "raises"}


_SHAPE = None


def _blocking_shape():
    """Regenerated from the source (tools/gen/tools.py): does ValidateTool.execute let every validator entry decide
    the status ("all") or only those with severity != "warning" ("filter-warning")?"""
    global _SHAPE
    if _SHAPE is None:
        try:
            from gen.tools import validate_blocking_shape
            _SHAPE = validate_blocking_shape()
        except Exception:  # noqa: BLE001   (unknown shape: the translator reports the broken tie; stay with the pinned reading)
            _SHAPE = "all"
    return _SHAPE


def _parse_kind(e):
    msg = str(e)
    return "tok" if ("E005" in msg or "Unexpected character" in msg) else "parse"


def _resolved(name, hermetic_ok):
    """(builtin dict | None, SchemaDefinition | None, section_schemas) exactly as the real loaders resolve `name`."""
    from octave_mcp.schemas.loader import get_builtin_schema, load_schema, load_schema_by_name
    builtin = get_builtin_schema(name)
    defn = None
    try:
        if hermetic_ok and (name.startswith("frozen@") or name == "latest"):
            from octave_mcp.core.hydrator import resolve_hermetic_standard
            defn = load_schema(resolve_hermetic_standard(name))
        else:
            defn = load_schema_by_name(name)
    except Exception:  # noqa: BLE001
        defn = None
    ss = {defn.name: defn} if (defn is not None and defn.fields) else None
    return builtin, defn, ss


def probe_validate(case, text):
    from octave_mcp.core.parser import parse_with_warnings
    from octave_mcp.core.repair import repair
    from octave_mcp.core.validator import Validator, _count_literal_zones
    o = {}
    try:
        doc, _w = parse_with_warnings(text)
        _count_literal_zones(doc)
        o["parse"] = "ok"
    except Exception as e:  # noqa: BLE001
        o["parse"] = _parse_kind(e)
        return o
    name = case["schema"]
    o["search"], _f = probe_search(name)
    builtin, defn, ss = _resolved(name, hermetic_ok=False)
    prof = (case.get("profile") or "STANDARD").upper()
    errs = Validator(schema=builtin).validate(doc, strict=(prof == "STRICT"), section_schemas=ss)
    if _blocking_shape() == "filter-warning":       # shape of fix F37: severity="warning" entries never block
        o["errs"] = [e.code for e in errs if e.severity != "warning"]
        o["softWarnings"] = [e.code for e in errs if e.severity == "warning"]
    else:
        o["errs"] = [e.code for e in errs]
    o["hardErrs"] = [e.code for e in errs if getattr(e, "severity", "error") != "warning"]      # for the oracle only
    none_errs = Validator(schema=None).validate(parse_with_warnings(text)[0], strict=False, section_schemas=ss)
    o["errsNoSchema"] = [e.code for e in none_errs]
    if case.get("fix"):
        has_schema = builtin is not None or (defn is not None and bool(defn.fields))
        d2, _ = parse_with_warnings(text)
        e2 = Validator(schema=builtin).validate(d2, strict=(prof == "STRICT"), section_schemas=ss) if has_schema \
            else Validator(schema=None).validate(d2, strict=False, section_schemas=ss)
        d3, _log = repair(d2, e2, fix=True, schema=defn)
        after = Validator(schema=builtin if builtin else None).validate(d3, strict=False, section_schemas=ss)
        o["errsAfterFix"] = [e.code for e in after]
    return o


def probe_write(case, text, file_text, file_exists):
    """Outcomes for the write model.  `text` = what is parsed (new content, or the file for normalize/changes)."""
    import re
    from octave_mcp.core.emitter import emit
    from octave_mcp.core.lexer import tokenize
    from octave_mcp.core.parser import parse, parse_with_warnings
    from octave_mcp.core.repair import repair
    from octave_mcp.core.validator import Validator
    from octave_mcp.mcp.write import WriteTool
    o = {"fileExists": file_exists, "baselineNonEmpty": bool(file_text)}
    lenient, mode = case.get("lenient", False), case.get("mode", "content")
    tool = WriteTool()
    doc = None
    if mode == "changes":
        try:
            doc = parse(text)
            o["parse"] = "ok"
        except Exception as e:  # noqa: BLE001
            o["parse"] = _parse_kind(e)
            return o
        try:
            doc = tool._apply_changes(doc, case.get("changes") or {"ZZ": 1})
        except Exception:  # noqa: BLE001
            o["raises"] = {"w_applyChanges": "other"}
            return o
    else:
        pi, _unwrapped = tool._unwrap_markdown_code_fence(text)
        if lenient:
            structured = re.search(r"(?m)^[ \t]*[A-Za-z_][A-Za-z0-9_.]*::", pi) is not None or re.search(r"(?m)^===.+===\s*$", pi) is not None
            o["looksStructured"], o["blank"] = structured, not pi.strip()
            if structured:
                pi, _c = tool._repair_curly_brace_annotations(pi)
            if not structured and pi.strip():
                pi, _c = tool._wrap_plain_text_as_doc(pi, case.get("schema"))
            try:
                doc, _w = parse_with_warnings(pi)
                o["parse"] = "ok"
            except Exception as e:  # noqa: BLE001
                o["parse"] = _parse_kind(e)
                if case.get("policy") != "salvage":
                    return o
                doc, _c = tool._localized_salvage(text, str(e), case.get("schema"))
        else:
            try:
                tokenize(pi)
            except Exception as e:  # noqa: BLE001
                o["parse"], o["tokenizeFails"] = _parse_kind(e), True
                return o
            try:
                doc = parse(pi)
                o["parse"] = "ok"
            except Exception as e:  # noqa: BLE001
                o["parse"] = _parse_kind(e)
                return o
        o["docHasFrontmatter"] = doc.raw_frontmatter is not None
    name = case.get("schema")
    if name:
        o["isHermeticRef"] = name.startswith("frozen@") or name == "latest"
        o["search"], _f = probe_search(name)
        o["hermetic"] = probe_hermetic(name) if o["isHermeticRef"] else {"k": "raises"}
        builtin, defn, ss = _resolved(name, hermetic_ok=True)
        if builtin is not None or (defn is not None and defn.fields):
            v = Validator(schema=builtin)
            errs = v.validate(doc, strict=False, section_schemas=ss)
            o["errs0"] = [e.code for e in errs]
            o["hardErrs0"] = [e.code for e in errs if getattr(e, "severity", "error") != "warning"]      # for the oracle only
            if lenient and builtin is not None and errs:
                did = False
                for fname, spec in builtin.get("META", {}).get("fields", {}).items():
                    if spec.get("type") != "ENUM":
                        continue
                    cur = doc.meta.get(fname)
                    if not isinstance(cur, str) or cur in spec.get("values", []):
                        continue
                    m = [x for x in spec.get("values", []) if isinstance(x, str) and x.lower() == cur.lower()]
                    if len(m) == 1:
                        doc.meta[fname] = m[0]
                        did = True
                o["didRepair"] = did
                if did:
                    errs = v.validate(doc, strict=False, section_schemas=ss)
                    o["errs1"] = [e.code for e in errs]
            if lenient and defn is not None and errs:
                try:
                    doc, _log = repair(doc, errs, fix=True, schema=defn)
                    emit(doc)
                    errs = v.validate(doc, strict=False, section_schemas=ss)
                    o["errs2"] = [e.code for e in errs]
                except Exception:  # noqa: BLE001
                    o.setdefault("raises", {})["w_repair"] = "other"
    return o


def probe_eject(case, text):
    from octave_mcp.core.parser import parse
    o = {}
    if text is None:
        return o
    try:
        doc = parse(text)
        o["parse"] = "ok"
    except Exception as e:  # noqa: BLE001
        o["parse"] = _parse_kind(e)
        return o
    if case.get("format") == "json":
        from octave_mcp.core.projector import project
        from octave_mcp.mcp.eject import _ast_to_dict
        try:
            json.dumps(_ast_to_dict(project(doc, mode=case.get("mode") or "canonical").filtered_doc), indent=2, ensure_ascii=False)
        except Exception:  # noqa: BLE001
            o["raises"] = {"e_jsonDumps": "other"}
    if case.get("format") == "gbnf":
        from octave_mcp.core.projector import project
        fd = project(doc, mode=case.get("mode") or "canonical").filtered_doc
        o["hasContract"] = bool(fd.meta and "CONTRACT" in fd.meta)
    return o


def probe_grammar(case, text):
    from octave_mcp.core.parser import parse
    o = {}
    if case.get("schema") is not None:
        o["search"], _f = probe_search(case["schema"])
    if text is not None:
        try:
            doc = parse(text)
            o["parse"] = "ok"
            o["hasContract"] = bool(doc.meta and "CONTRACT" in doc.meta)
        except Exception as e:  # noqa: BLE001
            o["parse"] = _parse_kind(e)
    return o


# ---------------------------------------------------------------------------------------------
# executing a case on the real code
# ---------------------------------------------------------------------------------------------

def _sha(text):
    return hashlib.sha256(text.encode("utf-8")).hexdigest()


_ACTIVE_INJECTION = None      # (holder, attribute, faulty callable, real callable): patched only *around the tool call*


def _call(tool, args):
    inj = _ACTIVE_INJECTION
    if inj is None:
        return TT.execute(tool, args)
    holder, attr, faulty, real = inj
    setattr(holder, attr, faulty)
    try:
        return TT.execute(tool, args)
    finally:
        setattr(holder, attr, real)


def _validate_args(case, sb, text):
    a = {"schema": case["schema"]}
    for f in ("fix", "diff_only", "compact", "grammar_hint", "debug_grammar"):
        if case.get(f):
            a[f] = True
    if case.get("profile") is not None:
        a["profile"] = case["profile"]
    inp = case.get("input", "content")
    fe = {"pathValid": True, "fileExists": True}
    if inp in ("content", "both"):
        a["content"] = text
    if inp in ("file", "both"):
        p = sb.fresh_target()
        p.write_text(text, encoding="utf-8", newline="")
        a["file_path"] = str(p)
    elif inp == "file_missing":
        a["file_path"] = str(sb.fresh_target())
        fe["fileExists"] = False
    elif inp == "file_badext":
        p = sb.fresh_target(".txt")
        p.write_text(text, encoding="utf-8")
        a["file_path"] = str(p)
        fe["pathValid"] = False
    elif inp == "file_dotdot":
        p = sb.fresh_target()
        p.write_text(text, encoding="utf-8")
        a["file_path"] = str(p.parent / ".." / p.parent.name / p.name)
        fe["pathValid"] = False
    elif inp == "file_dir":
        p = sb.fresh_target()
        p.mkdir()
        a["file_path"] = str(p)
    return a, fe


def run_validate(case, sb):
    text = content_text(case["content"])
    args, fe = _validate_args(case, sb, text)
    if "file_path" in args:
        # stage outcome, not a guess: ask the real path check (keeps the model input right if its rules change)
        from octave_mcp.mcp.validate import ValidateTool
        fe["pathValid"] = bool(ValidateTool()._validate_path(args["file_path"])[0])
    outcome, r = _call("validate", args)
    inp = case.get("input", "content")
    va = {"hasContent": "content" in args, "hasFilePath": "file_path" in args, "schemaName": case["schema"]}
    for f, m in (("fix", "fix"), ("diff_only", "diffOnly"), ("compact", "compact"), ("grammar_hint", "grammarHint"), ("debug_grammar", "debugGrammar")):
        va[m] = bool(case.get(f))
    if case.get("profile"):
        va["profileUp"] = case["profile"].upper()
    o = dict(fe)
    if inp == "file_dir":
        o["raises"] = {"v_read": "other"}
    elif fe["pathValid"] and fe["fileExists"] and inp not in ("both", "neither"):
        o.update(probe_validate(case, text))
    req = {"op": "validate", "a": va, "o": o}
    return outcome, r, req, args


def _write_target(case, sb, text):
    """Prepare the target; returns (path, file_text_before | None, expected outcome hints)."""
    target = case.get("target", "fresh")
    hints = {}
    p = sb.fresh_target()
    before = None
    if target == "existing":
        before = CONTENTS["meta_ok"] if case.get("mode", "content") in ("content", "both") else text
        p.write_text(before, encoding="utf-8", newline="")
    elif target == "existing_fm":
        before = "---\nname: kept\n---\n" + CONTENTS["meta_ok"]
        p.write_text(before, encoding="utf-8", newline="")
    elif target == "existing_bad":
        before = CONTENTS["bad_bracket"]
        p.write_text(before, encoding="utf-8", newline="")
    elif target == "badext":
        p = sb.fresh_target(".txt")
        hints["pathValid"] = False
    elif target == "dotdot":
        p = p.parent / ".." / p.parent.name / p.name
        hints["pathValid"] = False
    elif target == "dir":
        p.mkdir()
        before = ""          # exists, but unreadable as a file
        hints["dir"] = True
    elif target == "parent_is_file":
        q = sb.fresh_target()
        q.write_text("x", encoding="utf-8")
        p = q / "child.oct.md"
        hints["write"] = "other"
    elif target == "dangling_symlink":
        os.symlink(str(sb.w / "nowhere.oct.md"), str(p))
        hints["dangling"] = True
    return p, before, hints


def run_write(case, sb):
    text = content_text(case["content"])
    mode = case.get("mode", "content")
    p, before, hints = _write_target(case, sb, text)
    args = {"target_path": str(p)}
    if mode in ("content", "both"):
        args["content"] = text
    if mode in ("changes", "both"):
        args["changes"] = case.get("changes") or {"ZZ": 1}
    if case.get("schema") is not None:
        args["schema"] = case["schema"]
    for f in ("lenient", "corrections_only", "grammar_hint", "debug_grammar"):
        if case.get(f):
            args[f] = True
    if case.get("policy", "error") != "error":
        args["parse_error_policy"] = case["policy"]
    if case.get("base_hash") == "good":
        args["base_hash"] = _sha(before) if before is not None else _sha("nothing")
    elif case.get("base_hash") == "bad":
        args["base_hash"] = _sha("something else")
    from octave_mcp.mcp.write import WriteTool
    hints["pathValid"] = bool(WriteTool()._validate_path(args["target_path"])[0])      # stage outcome of the real path check
    outcome, r = _call("write", args)
    file_exists = before is not None
    wa = {"policyOk": case.get("policy", "error") in ("error", "salvage"), "hasContent": "content" in args, "hasChanges": "changes" in args,
          "baseHash": "base_hash" in args, "lenient": bool(case.get("lenient")), "correctionsOnly": bool(case.get("corrections_only")),
          "grammarHint": bool(case.get("grammar_hint")), "debugGrammar": bool(case.get("debug_grammar")),
          "salvage": case.get("policy") == "salvage"}
    if case.get("schema"):
        wa["schemaName"] = case["schema"]
    o = {"pathValid": hints.get("pathValid", True), "fileExists": file_exists,
         "hashMatches": not (case.get("base_hash") == "bad" or (case.get("base_hash") == "good" and before is None))}
    parsed_text = text if mode in ("content", "both") else (before if before is not None else "")
    if hints.get("dir"):
        o["raises"] = {"w_readN": "other", "w_readC": "other", "w_readB": "other"}
        o["write"] = "other"
    if "write" in hints:
        o["write"] = hints["write"]
    if hints.get("dangling"):
        # F29 (C19): a dangling symlink passes _validate_path and is replaced by a regular file
        o["fileExists"] = False
    if o["pathValid"] and wa["policyOk"] and mode != "both" and not (mode in ("normalize", "changes") and not file_exists) \
            and not (hints.get("dir") and mode in ("normalize", "changes")):
        base_raises = o.get("raises")
        o.update(probe_write({**case, "changes": args.get("changes")}, parsed_text, "" if hints.get("dir") else (before or ""), file_exists))
        if base_raises:
            o["raises"] = {**base_raises, **o.get("raises", {})}
    req = {"op": "write", "a": wa, "o": o}
    return outcome, r, req, args


def run_eject(case, sb):
    text = content_text(case["content"])
    args = {"schema": case["schema"]}
    if text is not None:
        args["content"] = text
    if case.get("format"):
        args["format"] = case["format"]
    if case.get("mode"):
        args["mode"] = case["mode"]
    outcome, r = _call("eject", args)
    req = {"op": "eject", "a": {"hasContent": text is not None, "format": case.get("format") or "octave"}, "o": probe_eject(case, text)}
    return outcome, r, req, args


def run_grammar(case, sb):
    text = content_text(case["content"])
    args = {}
    if text is not None:
        args["content"] = text
    if case.get("schema") is not None:
        args["schema"] = case["schema"]
    if case.get("format") is not None:
        args["format"] = case["format"]
    outcome, r = _call("grammar", args)
    ga = {"hasContent": text is not None, "format": case.get("format") or "gbnf"}
    if case.get("schema") is not None:
        ga["schemaName"] = case["schema"]
    req = {"op": "grammar", "a": ga, "o": probe_grammar(case, text)}
    return outcome, r, req, args


# ---------------------------------------------------------------------------------------------
# CLI
# ---------------------------------------------------------------------------------------------

def _cli(argv, sb, stdin=None):
    env = dict(os.environ)
    env["HOME"] = str(sb.home)
    p = subprocess.run(["/venv/bin/octave", *argv], cwd=str(sb.cwd), env=env, input=stdin, capture_output=True, text=True, timeout=120)
    lines = [ln for ln in p.stdout.split("\n") if ln.startswith("validation_status:")]
    return {"exit": p.returncode, "line": lines[-1].split(":", 1)[1].strip() if lines else None, "nlines": len(lines),
            "stderr": p.stderr[-300:]}


def run_cli_validate(case, sb):
    from octave_mcp.core.parser import parse
    from octave_mcp.core.repair import repair
    from octave_mcp.core.validator import Validator
    from octave_mcp.schemas.loader import get_builtin_schema, load_schema_by_name
    text = content_text(case["content"])
    argv = ["validate"]
    stdin = None
    if case.get("stdin"):
        argv.append("--stdin")
        stdin = text
    else:
        p = sb.fresh_target()
        p.write_text(text, encoding="utf-8", newline="")
        argv.append(str(p))
    if case.get("schema") is not None:
        argv += ["--schema", case["schema"]]
    if case.get("fix"):
        argv.append("--fix")
    r = _cli(argv, sb, stdin)
    a = {"fix": bool(case.get("fix"))}
    if case.get("schema"):
        a["schema"] = case["schema"]
    o = {}
    try:
        doc = parse(text)
        o["parse"] = "ok"
        name = case.get("schema")
        defn = None
        if name:
            try:
                defn = load_schema_by_name(name)
            except Exception:  # noqa: BLE001
                o["loadRaises"] = True
        builtin = get_builtin_schema(name) if name else None
        errs = Validator(schema=builtin).validate(doc, strict=False) if builtin is not None else []
        o["errs"] = [e.code for e in errs]
        o["errsNone"] = [e.code for e in Validator(schema=None).validate(parse(text), strict=False)]
        cur = errs if builtin is not None else []
        if case.get("fix") and cur and not o.get("loadRaises"):
            d2, _ = repair(doc, cur, fix=True, schema=defn)
            o["errsAfterFix"] = [e.code for e in Validator(schema=builtin).validate(d2, strict=False)]
    except Exception as e:  # noqa: BLE001
        o["parse"] = _parse_kind(e)
    return r, {"op": "cli_validate", "a": a, "o": o}, argv


def run_cli_write(case, sb):
    from octave_mcp.core.parser import parse
    from octave_mcp.core.validator import Validator
    from octave_mcp.schemas.loader import get_builtin_schema
    text = content_text(case["content"])
    p = sb.fresh_target()
    argv = ["write", str(p), "--content", text]
    if case.get("schema") is not None:
        argv += ["--schema", case["schema"]]
    r = _cli(argv, sb)
    a = {}
    if case.get("schema"):
        a["schema"] = case["schema"]
    o = {}
    try:
        doc = parse(text)
        o["parse"] = "ok"
        builtin = get_builtin_schema(case["schema"]) if case.get("schema") else None
        o["errs"] = [e.code for e in Validator(schema=builtin).validate(doc, strict=False)] if builtin is not None else []
    except Exception as e:  # noqa: BLE001
        o["parse"] = _parse_kind(e)
    r["written"] = p.exists()
    return r, {"op": "cli_write", "a": a, "o": o}, argv


# ---------------------------------------------------------------------------------------------
# the property oracle, evaluated on the real envelope (written from the statement of C10)
# ---------------------------------------------------------------------------------------------

def oracle(case, outcome, r, sb, args, probe=None):
    """[(why_class, why)] — clauses of C10 that the real response violates.  `probe` = the abstract stage outcomes
    (used only for "the validator, called on its own, reports errors")."""
    probe = probe or {}
    tool = case["tool"]
    fails = []
    if outcome == "raise":
        return [("raise", f"octave_{tool} raised instead of returning a response: {r}")]
    if not isinstance(r, dict):
        return [("present", f"octave_{tool} returned {type(r).__name__}, not an envelope")]
    vs = r.get("validation_status")
    # (1) presence
    if "validation_status" not in r or vs not in STATUSES:
        return [("present", f"octave_{tool}: validation_status missing or not one of {STATUSES}: {vs!r}")]
    home = case.get("home", "home")
    name = case.get("schema")
    findable = schema_findable(tool, name, home) if isinstance(name, str) else False
    # (2) eject / grammar never validate anything
    if tool in ("eject", "grammar") and vs != "UNVALIDATED":
        fails.append(("overstated", f"octave_{tool} returned {vs}: it runs no schema validation"))
    # (3) unknown / malformed / unloadable schema argument  =>  UNVALIDATED
    if tool in ("validate", "write") and findable is False and vs != "UNVALIDATED":
        fails.append(("unknown-schema", f"octave_{tool}: schema argument {name!r} (class {SCHEMA_CLASS.get(name, 'absent')}) "
                      f"cannot be found, yet validation_status={vs}"))
    # (4) tokenise / parse failure  =>  UNVALIDATED
    ckey = case.get("content")
    parsed_is_content = not (tool == "write" and case.get("mode", "content") in ("normalize", "changes"))
    if isinstance(ckey, str) and ckey in UNPARSEABLE and parsed_is_content and vs != "UNVALIDATED":
        fails.append(("parse-failure", f"octave_{tool}: content {ckey!r} does not tokenise/parse, yet validation_status={vs}"))
    # (5) INVALID  =>  at least one validation error + schema name/version (+ STRICT/STANDARD)
    if vs == "INVALID":
        ve = r.get("validation_errors")
        n = len(ve) if isinstance(ve, list) else 0
        cnt = r.get("validation_error_count")
        if not (n >= 1 or (isinstance(cnt, int) and cnt >= 1)):
            fails.append(("invalid-without-errors", f"octave_{tool}: INVALID with validation_errors={ve!r}, validation_error_count={cnt!r}"))
        if not r.get("schema_name") or not r.get("schema_version"):
            fails.append(("invalid-without-schema", f"octave_{tool}: INVALID without schema_name/schema_version "
                          f"({r.get('schema_name')!r}, {r.get('schema_version')!r})"))
        if tool == "validate" and (case.get("profile") or "STANDARD").upper() in ("LENIENT", "ULTRA"):
            fails.append(("invalid-under-lenient", f"octave_validate: INVALID under profile {case.get('profile')}"))
    # (6) valid  <=>  VALIDATED
    if "valid" in r and (r["valid"] is True) != (vs == "VALIDATED"):
        fails.append(("valid-flag", f"octave_{tool}: valid={r['valid']!r} but validation_status={vs}"))
    if tool == "validate" and "valid" not in r:
        fails.append(("valid-flag", "octave_validate: envelope has no `valid` key"))
    if "valid" in r and not isinstance(r["valid"], bool):
        fails.append(("valid-flag", f"octave_{tool}: valid is not a boolean: {r['valid']!r}"))
    # (7) VALIDATED  =>  no blocking error: the validator, run on its own, reports none (STRICT/STANDARD)
    if vs == "VALIDATED" and tool == "validate" and (case.get("profile") or "STANDARD").upper() in ("STRICT", "STANDARD"):
        if isinstance(r.get("validation_errors"), list) and r["validation_errors"]:
            fails.append(("overstated", "octave_validate: VALIDATED with a non-empty validation_errors list"))
    if vs == "VALIDATED" and tool == "validate" and (case.get("profile") or "STANDARD").upper() in ("STRICT", "STANDARD") and probe.get("hardErrs"):
        fails.append(("overstated", f"octave_validate: VALIDATED under profile {case.get('profile') or 'STANDARD (default)'} although the "
                      f"validator, called on its own with the same schema, reports blocking errors {probe['hardErrs']}"))
    if vs == "VALIDATED" and tool == "write" and not case.get("lenient") and probe.get("hardErrs0"):
        fails.append(("overstated", f"octave_write: VALIDATED although the validator, called on its own with the same schema, reports "
                      f"errors {probe['hardErrs0']}"))
    # (8) stability: canonical text returned as VALIDATED is VALIDATED again under the same schema
    if vs == "VALIDATED" and r.get("status") == "success":
        fails += _stability(case, r, sb, args)
    # (9) one (content, schema) has one verdict: calls that differ only in what they REPORT, and the other tool, cannot say VALIDATED
    #     here and INVALID there (asked for by the case: "companions")
    if case.get("companions") and tool in ("validate", "write"):
        fails += _companions(case, r, sb, args)
    return fails


def _blocking_codes(r):
    ve = r.get("validation_errors")
    return [str(e.get("code")) for e in ve if isinstance(e, dict) and not str(e.get("code", "")).startswith("W")] if isinstance(ve, list) else []


def _companions(case, r, sb, args):
    """Re-issue the call with ONE reporting flag toggled (octave_validate: diff_only, compact, grammar_hint, debug_grammar, and fix —
    the status is decided on the document as given, before any repair; octave_write: corrections_only, grammar_hint,
    debug_grammar) and compare validation_status; then ask the other tool about the same content and schema (octave_validate
    STANDARD vs octave_write lenient=false: both validate the parsed document non-strictly): VALIDATED on one side and INVALID with
    a blocking (non-warning) error on the other cannot both be right — the VALIDATED one overstates."""
    tool, vs = case["tool"], r.get("validation_status")
    fails = []
    if tool == "validate":
        if case.get("input", "content") != "content":
            return []
        flags = ("fix",) + V_OUTPUT_FLAGS
    else:
        if case.get("mode", "content") != "content" or case.get("policy", "error") != "error" or case.get("base_hash"):
            return []
        flags = W_OUTPUT_FLAGS
    for f in flags:
        a2 = dict(args)
        if a2.get(f):
            a2.pop(f)
        else:
            a2[f] = True
        if tool == "write":
            a2["target_path"] = str(sb.fresh_target())
        out2, r2 = _call(tool, a2)
        vs2 = r2.get("validation_status") if out2 == "ok" and isinstance(r2, dict) else f"<{out2}: {r2}>"
        if out2 == "ok" and isinstance(r2, dict) and "success" not in (r.get("status"), r2.get("status")) and vs2 in STATUSES:
            continue      # error envelopes hard-code UNVALIDATED (and say nothing about the schema verdict)
        if out2 == "ok" and isinstance(r2, dict) and r.get("status") != r2.get("status") and "UNVALIDATED" in (vs, vs2):
            continue      # one of the two calls failed for a reason of its own (e.g. the target cannot be written, the dry run can)
        if vs2 != vs:
            over = "VALIDATED" in (vs, vs2) and "INVALID" in (vs, vs2)
            which = (f"{f}={bool(args.get(f))}" if vs == "VALIDATED" else f"{f}={not bool(args.get(f))}")
            inv = r2 if vs2 == "INVALID" else r
            fails.append(("overstated" if over else "flag-dependent",
                          f"octave_{tool}: validation_status={vs} with {f}={bool(args.get(f))} but {vs2} with {f}={not bool(args.get(f))} (same content, schema "
                          f"{case.get('schema')!r}, profile and other flags)" + (f": the call with {which} says VALIDATED although the named schema reports "
                          f"{json.dumps((inv.get('validation_errors') or [])[:2], ensure_ascii=False, default=str)[:240]} (count {inv.get('validation_error_count')})" if over else "")))
    # the other tool
    name = case.get("schema")
    text = args.get("content")
    if not isinstance(name, str) or not isinstance(text, str) or name.startswith("frozen@") or name == "latest":
        return fails
    if tool == "validate" and (case.get("profile") or "STANDARD").upper() == "STANDARD":
        out2, r2 = _call("write", {"target_path": str(sb.fresh_target()), "content": text, "schema": name, "corrections_only": True})
        other = "octave_write(lenient=false)"
    elif tool == "write" and not case.get("lenient"):
        out2, r2 = _call("validate", {"content": text, "schema": name})
        other = "octave_validate(profile STANDARD)"
    else:
        return fails
    if out2 == "ok" and isinstance(r2, dict):
        vs2 = r2.get("validation_status")
        # octave_validate says INVALID for blocking errors only (warnings never block there); octave_write lists every entry
        if vs == "VALIDATED" and vs2 == "INVALID" and (tool == "write" or _blocking_codes(r2)):
            fails.append(("overstated", f"octave_{tool}: VALIDATED, but {other} on the same content and schema {name!r} reports blocking errors "
                          f"{json.dumps(r2.get('validation_errors')[:2], ensure_ascii=False, default=str)[:240]}"))
        if vs == "INVALID" and vs2 == "VALIDATED" and (tool == "validate" or _blocking_codes(r)):
            fails.append(("overstated", f"{other} says VALIDATED for the same content and schema {name!r}, although octave_{tool} reports blocking errors "
                          f"{json.dumps((r.get('validation_errors') or [])[:2], ensure_ascii=False, default=str)[:240]} (count {r.get('validation_error_count')})"))
    return fails


def _stability(case, r, sb, args):
    tool = case["tool"]
    if tool == "validate":
        canon = r.get("canonical")
        if not isinstance(canon, str):
            return []
        a2 = {"content": canon, "schema": case["schema"]}
        if case.get("profile") is not None:
            a2["profile"] = case["profile"]
        out2, r2 = _call("validate", a2)
    elif tool == "write":
        if case.get("corrections_only"):
            return []
        try:
            canon = Path(args["target_path"]).read_text(encoding="utf-8")
        except Exception:  # noqa: BLE001
            return []
        name = case["schema"]
        if name.startswith("frozen@") or name == "latest":
            a2 = {"target_path": str(sb.fresh_target()), "content": canon, "schema": name, "corrections_only": True}
            out2, r2 = _call("write", a2)
        else:
            a2 = {"content": canon, "schema": name}
            out2, r2 = _call("validate", a2)
    else:
        return []
    vs2 = r2.get("validation_status") if out2 == "ok" and isinstance(r2, dict) else f"<{out2}: {r2}>"
    if vs2 != "VALIDATED":
        errs = (r2.get("errors") or r2.get("validation_errors")) if isinstance(r2, dict) else None
        return [("unstable", f"octave_{tool}: text returned as VALIDATED is {vs2} when validated again under schema {case['schema']!r} "
                 f"(second call: {json.dumps(errs, ensure_ascii=False, default=str)[:200]})")]
    return []


# ---------------------------------------------------------------------------------------------
# known-finding class predicates (input based, narrow) for the stability clause
# ---------------------------------------------------------------------------------------------

def _walk_values(doc):
    from octave_mcp.core.ast_nodes import Assignment, Block, InlineMap, ListValue, Section
    stack = list((doc.meta or {}).values())
    nodes = list(doc.sections)
    while nodes:
        n = nodes.pop()
        if isinstance(n, Assignment):
            stack.append(n.value)
        elif isinstance(n, (Block, Section)):
            nodes.extend(n.children)
    while stack:
        v = stack.pop()
        yield v
        if isinstance(v, ListValue):
            stack.extend(v.items)
        elif isinstance(v, InlineMap):
            stack.extend(v.pairs.values())


def _parsed(case):
    from octave_mcp.core.parser import parse_with_warnings
    text = content_text(case.get("content"))
    if not isinstance(text, str):
        return None
    try:
        return parse_with_warnings(text)[0]
    except Exception:  # noqa: BLE001
        return None


def negative_infinity_literal(case, why_class) -> bool:
    """F3: the document holds a float that is -inf (a literal like -1e400): the canonical text spells it `-inf`,
    which the lexer rejects, so the text a call returned as VALIDATED no longer parses."""
    if why_class != "unstable":
        return False
    doc = _parsed(case)
    return doc is not None and any(isinstance(v, float) and v == float("-inf") for v in _walk_values(doc))


def holographic_example_needs_escape(case, why_class) -> bool:
    """F4: the document holds a holographic value whose example string contains a double quote or a backslash:
    the canonical text is rebuilt from tokens without re-escaping and no longer tokenises."""
    if why_class != "unstable":
        return False
    from octave_mcp.core.ast_nodes import HolographicValue
    doc = _parsed(case)
    return doc is not None and any(isinstance(v, HolographicValue) and isinstance(v.example, str) and ('"' in v.example or "\\" in v.example)
                                   for v in _walk_values(doc))


def salvage_policy_parse_failure(case, why_class) -> bool:
    """F100: octave_write(lenient=true, parse_error_policy="salvage") on text that does not tokenise/parse: the tool
    fabricates a document around the text (or drops it) and validates *that*, so the response says VALIDATED / INVALID
    although the input never parsed."""
    if why_class != "parse-failure" or case.get("tool") != "write" or case.get("policy") != "salvage" or not case.get("lenient"):
        return False
    if case.get("mode", "content") != "content":
        return False
    text = content_text(case.get("content"))
    if not isinstance(text, str):
        return False
    from octave_mcp.core.parser import parse_with_warnings
    try:
        parse_with_warnings(text)
        return False
    except Exception:  # noqa: BLE001
        return True


KNOWN_CLASSES = {"salvage_policy_parse_failure": salvage_policy_parse_failure,
                 "holographic_example_needs_escape": holographic_example_needs_escape}


def cli_oracle(case, r):
    fails = []
    tool = case["tool"]
    line = r["line"]
    if r["nlines"] > 1:
        fails.append(("present", f"{tool}: {r['nlines']} validation_status lines"))
    if line is not None and line not in STATUSES:
        fails.append(("present", f"{tool}: status line says {line!r}"))
    name = case.get("schema")
    findable = isinstance(name, str) and SCHEMA_CLASS.get(name) == "builtin"     # the CLI consults only the builtin dict schemas
    if line in ("VALIDATED", "INVALID") and not findable:
        fails.append(("unknown-schema", f"{tool}: --schema {name!r} cannot be found by the CLI, yet the status line says {line}"))
    if isinstance(case.get("content"), str) and case["content"] in UNPARSEABLE:
        if line in ("VALIDATED", "INVALID"):
            fails.append(("parse-failure", f"{tool}: unparseable content, status line {line}"))
        if r["exit"] == 0:
            fails.append(("parse-failure", f"{tool}: unparseable content, exit code 0"))
    if tool == "cli_validate" and line == "INVALID" and r["exit"] != 1:
        fails.append(("exit-code", f"cli_validate: status INVALID but exit code {r['exit']}"))
    if tool == "cli_validate" and line in ("VALIDATED", "UNVALIDATED") and r["exit"] != 0:
        fails.append(("exit-code", f"cli_validate: status {line} but exit code {r['exit']} ({r['stderr'][-120:]!r})"))
    if tool == "cli_write" and line is not None and r["exit"] != 0:
        fails.append(("exit-code", f"cli_write: status line printed but exit code {r['exit']}"))
    if tool == "cli_write" and line is None and r["exit"] == 0:
        fails.append(("present", "cli_write: exit 0 without a validation_status line"))
    if tool == "cli_validate" and line is None and r["exit"] == 0:
        fails.append(("present", "cli_validate: exit 0 without a validation_status line"))
    return fails


# ---------------------------------------------------------------------------------------------
# worker entry point
# ---------------------------------------------------------------------------------------------

def run_case(case):
    sb = SB.worker_sandbox()
    sb.enter(case.get("home", "home"))
    installed = install_overlay(sb, case["project"]) if case.get("project") else []
    try:
        res = _run_case(case, sb)
    finally:
        for f in installed:
            try:
                f.unlink()
            except OSError:
                pass
    if case.get("project"):
        res["tags"].append(f"project:{case['project']}")
    if case.get("companions"):
        res["tags"].append("companions")
    return res


def _run_case(case, sb):
    tool = case["tool"]
    tags = [f"tool:{tool}"]
    if tool in ("cli_validate", "cli_write"):
        r, req, argv = (run_cli_validate if tool == "cli_validate" else run_cli_write)(case, sb)
        impl = {"exit": r["exit"], "line": r["line"]}
        tags.append(f"{tool}:line={r['line']},exit={r['exit']}")
        return {"impl": impl, "req": req, "failures": cli_oracle(case, r), "tags": tags, "args": argv, "cli": True}
    outcome, r, req, args = {"validate": run_validate, "write": run_write, "eject": run_eject, "grammar": run_grammar}[tool](case, sb)
    if outcome == "ok" and isinstance(r, dict):
        impl = view(r, tool)
        tags.append(f"{tool}:vs={impl['vs']}")
        tags.append(f"{tool}:status={impl['status']}" + (":" + ",".join(map(str, impl["err_codes"])) if impl["err_codes"] else ""))
        if impl["verr_codes"]:
            tags.append("verr:" + ",".join(sorted(set(map(str, impl["verr_codes"])))))
    else:
        impl = {"raise": str(r)}
        tags.append(f"{tool}:raise")
    name = case.get("schema")
    tags.append(f"schema-class:{SCHEMA_CLASS.get(name, 'absent') if isinstance(name, str) else 'absent'}")
    fails = oracle(case, outcome, r, sb, args, req.get("o"))
    known = TT.classify(tool, args) if outcome == "raise" else None
    return {"impl": impl, "req": req, "failures": fails, "tags": tags, "args": {k: v for k, v in args.items()}, "known_raise": known}


# ---------------------------------------------------------------------------------------------
# fault injection: validates the guard table of the model against the running code
# ---------------------------------------------------------------------------------------------

class _Boom(RuntimeError):
    pass


def _raiser_after(n, exc, real):
    state = {"n": 0}

    def f(*a, **k):
        i = state["n"]
        state["n"] += 1
        if i == n:
            raise exc
        return real(*a, **k)
    return f


V0 = {"tool": "validate", "content": "fields_enum_case", "schema": "GEN_FIELDS", "profile": None, "fix": True, "diff_only": True, "compact": False,
      "grammar_hint": True, "debug_grammar": True, "input": "content", "home": "home"}
W0 = {"tool": "write", "content": "fields_enum_case", "schema": "GEN_FIELDS", "lenient": True, "corrections_only": False, "grammar_hint": True,
      "debug_grammar": True, "mode": "content", "target": "fresh", "base_hash": None, "policy": "error", "home": "home"}
W_STRICT = {**W0, "lenient": False}
W_META = {**W0, "content": "meta_enum_case", "schema": "META"}
E0 = {"tool": "eject", "content": "meta_ok", "schema": "META", "format": "json", "mode": "canonical"}
G0 = {"tool": "grammar", "content": "fields_ok", "schema": None, "format": "gbnf"}

# (stage, module, attribute path, dynamic call number that fails, base case)
INJECTIONS = [
    ("v_parse", "octave_mcp.mcp.validate", "parse_with_warnings", 0, V0),
    ("v_zones", "octave_mcp.mcp.validate", "_count_literal_zones", 0, V0),
    ("v_builtin", "octave_mcp.mcp.validate", "get_builtin_schema", 0, V0),
    ("v_load", "octave_mcp.mcp.validate", "load_schema_by_name", 0, V0),
    ("v_validate", "octave_mcp.mcp.validate", "Validator.validate", 0, V0),
    ("v_validateNone", "octave_mcp.mcp.validate", "Validator.validate", 0, {**V0, "schema": "NOPE"}),
    ("v_hint", "octave_mcp.mcp.validate", "GBNFCompiler.compile_schema", 0, V0),
    ("v_repair", "octave_mcp.mcp.validate", "repair", 0, V0),
    ("v_revalidate", "octave_mcp.mcp.validate", "Validator.validate", 1, V0),
    ("v_emit", "octave_mcp.mcp.validate", "emit", 0, V0),
    ("v_diff", "octave_mcp.mcp.validate", "ValidateTool._build_unified_diff", 0, V0),
    ("w_unwrap", "octave_mcp.mcp.write", "WriteTool._unwrap_markdown_code_fence", 0, W0),
    ("w_curly", "octave_mcp.mcp.write", "WriteTool._repair_curly_brace_annotations", 0, W0),
    ("w_wrapPlain", "octave_mcp.mcp.write", "WriteTool._wrap_plain_text_as_doc", 0, {**W0, "content": "plain"}),
    ("w_parseLenient", "octave_mcp.mcp.write", "parse_with_warnings", 0, W0),
    ("w_tokenize", "octave_mcp.mcp.write", "tokenize", 0, W_STRICT),
    ("w_parseStrict", "octave_mcp.mcp.write", "parse", 0, W_STRICT),
    ("w_track", "octave_mcp.mcp.write", "WriteTool._track_corrections", 0, W_STRICT),
    ("w_mutations", "octave_mcp.mcp.write", "WriteTool._apply_mutations", 0, W0),
    ("w_emit", "octave_mcp.mcp.write", "emit", 0, W0),
    ("w_zones", "octave_mcp.mcp.write", "_count_literal_zones", 0, W0),
    ("w_builtin", "octave_mcp.mcp.write", "get_builtin_schema", 0, W0),
    ("w_load", "octave_mcp.mcp.write", "load_schema_by_name", 0, W0),
    ("w_hermetic", "octave_mcp.mcp.write", "resolve_hermetic_standard", 0, {**W0, "schema": "latest", "content": "multi_ok"}),
    ("w_validate", "octave_mcp.mcp.write", "Validator.validate", 0, W0),
    ("w_reemit1", "octave_mcp.mcp.write", "emit", 1, W_META),
    ("w_revalidate1", "octave_mcp.mcp.write", "Validator.validate", 1, W_META),
    ("w_repair", "octave_mcp.mcp.write", "repair", 0, W0),
    ("w_hint", "octave_mcp.mcp.write", "GBNFCompiler.compile_schema", 0, {**W0, "content": "fields_bad_enum"}),
    ("w_diff", "octave_mcp.mcp.write", "WriteTool._build_unified_diff", 0, W0),
    ("w_write", "octave_mcp.mcp.write", "os.replace", 0, W0),
    ("w_parseChanges", "octave_mcp.mcp.write", "parse", 0, {**W0, "mode": "changes", "target": "existing", "lenient": False}),
    ("w_applyChanges", "octave_mcp.mcp.write", "WriteTool._apply_changes", 0, {**W0, "mode": "changes", "target": "existing", "lenient": False}),
    ("w_mutationsC", "octave_mcp.mcp.write", "WriteTool._apply_mutations", 0, {**W0, "mode": "changes", "target": "existing", "lenient": False}),
    ("e_parse", "octave_mcp.mcp.eject", "parse", 0, E0),
    ("e_project", "octave_mcp.mcp.eject", "project", 0, E0),
    ("e_zones", "octave_mcp.mcp.eject", "_count_literal_zones", 0, E0),
    ("e_toDictJson", "octave_mcp.mcp.eject", "_ast_to_dict", 0, E0),
    ("e_toDictYaml", "octave_mcp.mcp.eject", "_ast_to_dict", 0, {**E0, "format": "yaml"}),
    ("e_markdown", "octave_mcp.mcp.eject", "_ast_to_markdown", 0, {**E0, "format": "markdown"}),
    ("e_gbnfMeta", "octave_mcp.mcp.eject", "compile_gbnf_from_meta", 0, {**E0, "format": "gbnf", "content": "contract"}),
    ("e_extract", "octave_mcp.mcp.eject", "extract_schema_from_document", 0, {**E0, "format": "gbnf"}),
    ("e_compile", "octave_mcp.mcp.eject", "GBNFCompiler.compile_schema", 0, {**E0, "format": "gbnf"}),
    ("g_load", "octave_mcp.mcp.compile_grammar", "load_schema_by_name", 0, {**G0, "content": None, "schema": "SKILL"}),
    ("g_parse", "octave_mcp.mcp.compile_grammar", "parse", 0, G0),
    ("g_gbnfMeta", "octave_mcp.mcp.compile_grammar", "compile_gbnf_from_meta", 0, {**G0, "content": "contract"}),
    ("g_extract", "octave_mcp.mcp.compile_grammar", "extract_schema_from_document", 0, G0),
    ("g_compile", "octave_mcp.mcp.compile_grammar", "GBNFCompiler.compile_schema", 0, G0),
    # stages reached through other modules / module objects (patched only while the tool runs)
    ("v_debug", "octave_mcp.core.constraints", "ConstraintChain.compile", 0, V0),
    ("w_debug", "octave_mcp.core.constraints", "ConstraintChain.compile", 0, W0),
    ("v_routing", "octave_mcp.core.routing", "RoutingLog.to_dict", 0, V0),
    ("e_jsonDumps", "octave_mcp.mcp.eject", "json.dumps", 0, E0),
    ("e_yamlDump", "octave_mcp.mcp.eject", "yaml.dump", 0, {**E0, "format": "yaml"}),
    ("w_detect", "octave_mcp.mcp.write", "re.search", 0, W0),
    ("w_salvage", "octave_mcp.mcp.write", "WriteTool._localized_salvage", 0, {**W0, "content": "bad_bracket", "policy": "salvage"}),
    # narrowly guarded stages: their own error type is absorbed, anything else escapes
    ("w_baselineMetrics", "octave_mcp.mcp.write", "parse", 0, {**W_STRICT, "target": "existing"}),
    ("w_baselineMetrics", "octave_mcp.mcp.write", "parse", 0, {**W_STRICT, "target": "existing"}, "narrow"),
    ("w_parseInherit", "octave_mcp.mcp.write", "parse", 2, {**W_STRICT, "target": "existing"}),
    ("w_parseInherit", "octave_mcp.mcp.write", "parse", 2, {**W_STRICT, "target": "existing"}, "narrow"),
]


def run_injection(item):
    """Make one stage raise inside the real tool and report whether the tool returned an envelope; the request
    for the model is the one of the un-faulted base case plus raises = {stage: other}."""
    import importlib
    stage, modname, attr, nth, case = item[:5]
    kind = item[5] if len(item) > 5 else "other"
    sb = SB.worker_sandbox()
    sb.enter(case.get("home", "home"))
    mod = importlib.import_module(modname)
    parts = attr.split(".")
    holder = mod
    for p in parts[:-1]:
        holder = getattr(holder, p)
    real = getattr(holder, parts[-1])
    runner = {"validate": run_validate, "write": run_write, "eject": run_eject, "grammar": run_grammar}[case["tool"]]
    # 1) the base case, unfaulted, gives the model request (stage outcomes of the normal path)
    _o, _r, req, _a = runner(case, sb)
    # 2) the same call with the stage made to raise (the fault is active only while the tool itself runs, never
    #    while the harness probes the stages)
    global _ACTIVE_INJECTION
    if kind == "narrow":
        from octave_mcp.core.lexer import LexerError
        exc = LexerError(f"injected fault in {stage}", 1, 1)
    else:
        exc = _Boom(f"injected fault in {stage}")
    _ACTIVE_INJECTION = (holder, parts[-1], _raiser_after(nth, exc, real), real)
    try:
        outcome, r, _req2, args = runner(case, sb)
    finally:
        _ACTIVE_INJECTION = None
    req = json.loads(json.dumps(req))
    req["o"].setdefault("raises", {})[stage] = kind
    impl = view(r, case["tool"]) if outcome == "ok" and isinstance(r, dict) else {"raise": str(r)}
    return {"stage": stage + ("" if kind == "other" else ":" + kind), "impl": impl, "req": req, "case": case}
