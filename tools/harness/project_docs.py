"""Content model of OCTAVE documents for the `project` engine (C14 projections, C15 seal).

A *model document* is plain JSON-able data (so that every case can be stored in a replay, sent to the
Lean driver and rebuilt exactly):

  Value : {"t":"null"} | {"t":"bool","v":b} | {"t":"int","v":"<dec>"} | {"t":"float","v":"<repr>"}
        | {"t":"str","v":s} | {"t":"list","v":[Value]} | {"t":"imap","v":[[k,Value]]}
        | {"t":"zone","c":content,"tag":None|s,"f":fence} | {"t":"holo","raw":s}
        | {"t":"pydict","v":[[k,Value]]}                      (nested META block only)
  Node  : {"n":"a","k":key,"v":Value[,"lc":[s],"tc":s]} | {"n":"b","k":key,"c":[Node][,"lc":[s]]}
        | {"n":"s","id":id,"k":key,"c":[Node][,"lc":[s]]} | {"n":"c","text":s}
  Doc   : {"name":s,"meta":[[k,Value]],"sections":[Node],"sep":bool,"front":None|s,"gv":None|s}

From one model document this module derives, independently of the implementation,
  * its text (`render`, canonical spelling or any cosmetic respelling),
  * the AST objects (`build_ast`),
  * its leaves (`leaves`, `flat_atoms`) — the specification side of the C14 oracle,
and it converts a parsed AST back to a model document (`ast_to_model`) so that a check can make sure
the reader understood the generated text the way the generator meant it (otherwise the case is outside
the constructs that round-trip today and is counted, not judged).
"""
from __future__ import annotations

import re

FILTER_KEYS = ["STATUS", "RISKS", "DECISIONS", "TESTS", "CI", "DEPS"]
# near misses of the filter keys: every one of them kills a `key in keep_set` -> prefix / substring /
# case-insensitive / stripped comparison mutation
NEAR_KEYS = ["STATUS2", "STAT", "TATUS", "status", "XSTATUS", "TEST", "TESTSX", "C", "CI_", "DEP", "DEPSS", "RISK", "DECISION"]
PLAIN_KEYS = ["A", "B", "K", "NAME", "ID", "X1", "OWNER", "NOTE", "a_b", "Zz"]
BLOCK_KEYS = ["BLK", "INNER", "CFG", "PLAN", "BOX"]
SECTION_KEYS = ["SEC", "OVERVIEW", "DETAILS", "PLAN"]

RESERVED = {"true", "false", "null", "vs"}
WORD_RE = re.compile(r"^[A-Za-z_][A-Za-z0-9_.\-]*(?<!-)\Z")
EXPR_RE = re.compile(r"^[A-Za-z_][A-Za-z0-9_]*([→⊕][A-Za-z_][A-Za-z0-9_]*)+\Z")


# ---------------------------------------------------------------------------------------------
# constructors
# ---------------------------------------------------------------------------------------------
def vnull():
    return {"t": "null"}


def vbool(b):
    return {"t": "bool", "v": bool(b)}


def vint(i):
    return {"t": "int", "v": str(int(i))}


def vfloat(r):
    assert repr(float(r)) == r, r
    return {"t": "float", "v": r}


def vstr(s):
    return {"t": "str", "v": s}


def vlist(xs):
    return {"t": "list", "v": list(xs)}


def vimap(ps):
    return {"t": "imap", "v": [[k, v] for k, v in ps]}


def vzone(c, tag=None, f="```"):
    return {"t": "zone", "c": c, "tag": tag, "f": f}


def vholo(raw):
    return {"t": "holo", "raw": raw}


def vpydict(ps):
    return {"t": "pydict", "v": [[k, v] for k, v in ps]}


def A(k, v, lc=None, tc=None):
    n = {"n": "a", "k": k, "v": v}
    if lc:
        n["lc"] = list(lc)
    if tc:
        n["tc"] = tc
    return n


def B(k, c, lc=None):
    n = {"n": "b", "k": k, "c": list(c)}
    if lc:
        n["lc"] = list(lc)
    return n


def S(i, k, c, lc=None):
    n = {"n": "s", "id": i, "k": k, "c": list(c)}
    if lc:
        n["lc"] = list(lc)
    return n


def C(text):
    return {"n": "c", "text": text}


def DOC(sections, name="DOC", meta=(), sep=False, front=None, gv=None):
    return {"name": name, "meta": [[k, v] for k, v in meta], "sections": list(sections), "sep": bool(sep), "front": front, "gv": gv}


# ---------------------------------------------------------------------------------------------
# predicates over model documents (the input-based classes of the known findings use these)
# ---------------------------------------------------------------------------------------------
def walk_values(v):
    yield v
    if v["t"] == "list":
        for x in v["v"]:
            yield from walk_values(x)
    elif v["t"] in ("imap", "pydict"):
        for _k, x in v["v"]:
            yield from walk_values(x)


def walk_nodes(nodes, through_sections=True):
    for n in nodes:
        yield n
        if n["n"] == "b" or (n["n"] == "s" and through_sections):
            yield from walk_nodes(n["c"], through_sections)


def doc_values(doc, through_sections=True):
    for _k, v in doc["meta"]:
        yield from walk_values(v)
    for n in walk_nodes(doc["sections"], through_sections):
        if n["n"] == "a":
            yield from walk_values(n["v"])


def has_section(doc):
    return any(n["n"] == "s" for n in walk_nodes(doc["sections"]))


def has_kind(doc, kind, through_sections=True):
    return any(v["t"] == kind for v in doc_values(doc, through_sections))


def has_nonscalar(doc):
    return any(v["t"] in ("list", "imap", "zone", "holo", "pydict") for v in doc_values(doc))


def sibling_keys(nodes):
    """keys the dict converters assign at one level: Assignment, Block and (since fix ea3edea) Section names"""
    return [n["k"] for n in nodes if n["n"] in ("a", "b", "s")]


def has_duplicate_siblings(doc):
    """Duplicate keys among the Assignment/Block/Section siblings of one level (every level: the dict converters
    visit blocks and sections); at top level META counts as a sibling when the document has a META block."""
    top = sibling_keys(doc["sections"]) + (["META"] if doc["meta"] else [])
    if len(set(top)) != len(top):
        return True
    for n in walk_nodes(doc["sections"]):
        if n["n"] in ("b", "s"):
            ks = sibling_keys(n["c"])
            if len(set(ks)) != len(ks):
                return True
    return False


def has_assign_after_block(doc):
    """Some Block / Section has an Assignment child positioned after a Block / Section child."""
    for n in walk_nodes(doc["sections"]):
        if n["n"] in ("b", "s"):
            seen_block = False
            for c in n["c"]:
                if c["n"] in ("b", "s"):
                    seen_block = True
                elif c["n"] == "a" and seen_block:
                    return True
    return False


def has_meta_nested(doc):
    return any(v["t"] == "pydict" for _k, v in doc["meta"])


def count_nodes(doc):
    return sum(1 for _ in walk_nodes(doc["sections"]))


def depth(nodes):
    d = 0
    for n in nodes:
        if n["n"] in ("b", "s"):
            d = max(d, 1 + depth(n["c"]))
        else:
            d = max(d, 1)
    return d


# ---------------------------------------------------------------------------------------------
# specification side: leaves of a model document
# ---------------------------------------------------------------------------------------------
def leaves_nodes(nodes, prefix=()):
    """[(path, Value)] in document order; section markers contribute their name; comments are no leaves."""
    out = []
    for n in nodes:
        if n["n"] == "a":
            out.append((prefix + (n["k"],), n["v"]))
        elif n["n"] in ("b", "s"):
            out += leaves_nodes(n["c"], prefix + (n["k"],))
    return out


def leaves(doc):
    out = []
    for k, v in doc["meta"]:
        if v["t"] == "pydict":
            out += [(("META", k, k2), v2) for k2, v2 in v["v"]]
        else:
            out.append((("META", k), v))
    return out + leaves_nodes(doc["sections"])


def container_paths(doc):
    """Paths of blocks/sections (keys that exist as containers), used for the key part of `no invention`."""
    out = set()

    def rec(nodes, prefix):
        for n in nodes:
            if n["n"] in ("b", "s"):
                out.add(prefix + (n["k"],))
                rec(n["c"], prefix + (n["k"],))
    rec(doc["sections"], ())
    if doc["meta"]:
        out.add(("META",))
        for k, v in doc["meta"]:
            if v["t"] == "pydict":
                out.add(("META", k))
    return out


def atom_of(v):
    """Typed scalar view of a leaf value; containers are flattened by flat_value."""
    t = v["t"]
    if t == "null":
        return ("null",)
    if t == "bool":
        return ("bool", v["v"])
    if t == "int":
        return ("int", v["v"])
    if t == "float":
        return ("float", v["v"])
    if t == "str":
        return ("str", v["v"])
    if t == "zone":
        return ("zone", v["c"], v["tag"], v["f"])
    if t == "holo":
        return ("holo", v["raw"])
    raise ValueError(t)


def flat_value(v, path):
    """Flatten one leaf value down to typed atoms: list items get `#i` path elements, inline maps their
    keys; an empty list / empty map is itself an atom (so that it cannot vanish unnoticed)."""
    t = v["t"]
    if t == "list":
        if not v["v"]:
            return [(path, ("emptylist",))]
        out = []
        for i, x in enumerate(v["v"]):
            out += flat_value(x, path + ("#%d" % i,))
        return out
    if t in ("imap", "pydict"):
        if not v["v"]:
            return [(path, ("emptymap",))]
        out = []
        for k, x in v["v"]:
            out += flat_value(x, path + (k,))
        return out
    return [(path, atom_of(v))]


def flat_atoms(doc):
    """Multiset (list) of (path, atom) of the whole document, plus (path, ('emptymap',)) for a block
    or section without any assignment/block/section child (so that 'every key' is covered too)."""
    out = []
    for p, v in leaves(doc):
        out += flat_value(v, p)

    def rec(nodes, prefix):
        for n in nodes:
            if n["n"] in ("b", "s"):
                if not any(c["n"] in ("a", "b", "s") for c in n["c"]):
                    out.append((prefix + (n["k"],), ("emptymap",)))
                rec(n["c"], prefix + (n["k"],))
    rec(doc["sections"], ())
    return out


# Python str() of scalars, as every text rendering for humans shows them; the markdown view compares
# through `md_norm` so that `True`/`true`, `None`/`null` are the same text.
def md_text(v):
    t = v["t"]
    if t == "null":
        return "None"
    if t == "bool":
        return "True" if v["v"] else "False"
    if t in ("int", "float", "str"):
        return v["v"]
    if t == "list":
        return ", ".join(md_text(x) for x in v["v"])
    if t == "imap":
        return ", ".join(f"{k}: {md_text(x)}" for k, x in v["v"])
    if t == "zone":
        c = v["c"]
        if c and not c.endswith("\n"):
            c += "\n"
        return f"{v['f']}{v['tag'] or ''}\n{c}{v['f']}"
    if t == "holo":
        return v["raw"]
    raise ValueError(t)


def md_norm(s):
    return re.sub(r"\b(True|False|None)\b", lambda m: {"True": "true", "False": "false", "None": "null"}[m.group(1)], s)


# ---------------------------------------------------------------------------------------------
# text rendering (canonical spelling by default; `style` selects cosmetic respellings per site)
# ---------------------------------------------------------------------------------------------
class Style:
    """Cosmetic freedoms of the lenient reader (property C03's list).  Every site asks `pick(name)`;
    the default answers False everywhere = canonical spelling."""

    def __init__(self, on=(), rng=None, p=0.5):
        self.on, self.rng, self.p = set(on), rng, p
        self.used = set()

    def pick(self, name):
        if name not in self.on:
            return False
        r = True if self.rng is None else self.rng.random() < self.p
        if r:
            self.used.add(name)
        return r


COSMETICS = ["ascii_section", "ascii_ops", "space_assign", "indent4", "blank_lines", "quote_words", "omit_end", "list_shape", "trailing_ws"]
CANON = Style()


def needs_quote(s):
    if EXPR_RE.match(s):
        return False
    return not WORD_RE.match(s) or s.lower() in RESERVED


def quote(s):
    return '"' + s.replace("\\", "\\\\").replace('"', '\\"').replace("\n", "\\n").replace("\t", "\\t") + '"'


def render_scalar(v, st):
    t = v["t"]
    if t == "null":
        return "null"
    if t == "bool":
        return "true" if v["v"] else "false"
    if t in ("int", "float"):
        return v["v"]
    if t == "str":
        s = v["v"]
        if needs_quote(s):
            return quote(s)
        if EXPR_RE.match(s):
            if st.pick("ascii_ops"):
                return s.replace("→", "->").replace("⊕", "+")
            return s
        return quote(s) if st.pick("quote_words") else s
    if t == "holo":
        raw = v["raw"]
        if st.pick("ascii_ops"):
            raw = raw.replace("∧", "&").replace("→", "->").replace("§", "#")
        return raw
    raise ValueError(t)


def _multiline(v):
    n = 0
    for x in v["v"]:
        if x["t"] in ("imap", "list"):
            return True
        n += 1
    return n >= 3


def render_value(v, ind, st, unit):
    t = v["t"]
    if t == "list":
        if not v["v"]:
            return "[]"
        parts = []
        for x in v["v"]:
            if x["t"] == "imap":
                parts.append(",".join(f"{k}::{render_value(y, ind + 1, st, unit)}" for k, y in x["v"]))
            else:
                parts.append(render_value(x, ind + 1, st, unit))
        ml = _multiline(v)
        if st.pick("list_shape"):
            ml = not ml
        if ml:
            lines = ["["] + [unit * (ind + 1) + p + ("," if i < len(parts) - 1 else "") for i, p in enumerate(parts)] + [unit * ind + "]"]
            return "\n".join(lines)
        sep = ", " if st.pick("list_shape") else ","
        return "[" + sep.join(parts) + "]"
    if t == "imap":
        return "[" + ",".join(f"{k}::{render_value(y, ind, st, unit)}" for k, y in v["v"]) + "]"
    return render_scalar(v, st)


def render_nodes(nodes, ind, st, unit, out):
    pad = unit * ind
    for n in nodes:
        for c in n.get("lc", []):
            out.append(f"{pad}// {c}")
        if st.pick("blank_lines"):
            out.append("")
        kind = n["n"]
        if kind == "c":
            out.append(f"{pad}// {n['text']}")
        elif kind == "a":
            op = " :: " if st.pick("space_assign") else "::"
            v = n["v"]
            if v["t"] == "zone":
                out.append(f"{pad}{n['k']}::")
                out.append(f"{pad}{v['f']}{v['tag'] or ''}")
                if v["c"]:
                    out.append(v["c"])
                out.append(f"{pad}{v['f']}")
            else:
                line = f"{pad}{n['k']}{op}{render_value(v, ind, st, unit)}"
                if n.get("tc"):
                    line += f" // {n['tc']}"
                elif st.pick("trailing_ws"):
                    line += "  "
                out.append(line)
        elif kind == "b":
            out.append(f"{pad}{n['k']}:")
            render_nodes(n["c"], ind + 1, st, unit, out)
        elif kind == "s":
            mark = "#" if st.pick("ascii_section") else "§"
            op = " :: " if st.pick("space_assign") else "::"
            out.append(f"{pad}{mark}{n['id']}{op}{n['k']}")
            render_nodes(n["c"], ind + 1, st, unit, out)


def render(doc, st: Style = CANON):
    unit = "    " if st.pick("indent4") else "  "
    out = []
    if doc["front"] is not None:
        out += ["---", doc["front"], "---", ""]
    if doc["gv"]:
        out.append(f"OCTAVE::{doc['gv']}")
    out.append(f"==={doc['name']}===")
    if doc["meta"]:
        out.append("META:")
        for k, v in doc["meta"]:
            op = " :: " if st.pick("space_assign") else "::"
            if v["t"] == "pydict":
                out.append(f"{unit}{k}:")
                for k2, v2 in v["v"]:
                    out.append(f"{unit}{unit}{k2}{op}{render_value(v2, 2, st, unit)}")
            else:
                out.append(f"{unit}{k}{op}{render_value(v, 1, st, unit)}")
    if doc["sep"]:
        out.append("---")
    render_nodes(doc["sections"], 0, st, unit, out)
    if not st.pick("omit_end"):
        out.append("===END===")
    return "\n".join(out) + "\n"


# ---------------------------------------------------------------------------------------------
# AST construction / AST -> model
# ---------------------------------------------------------------------------------------------
_HOLO_CACHE: dict = {}


def _holo_obj(raw):
    from octave_mcp.core.ast_nodes import HolographicValue
    from octave_mcp.core.parser import parse
    if raw not in _HOLO_CACHE:
        d = parse(f"===X===\nK::{raw}\n===END===\n")
        v = d.sections[0].value
        if not isinstance(v, HolographicValue):
            raise ValueError(f"not a holographic pattern: {raw}")
        _HOLO_CACHE[raw] = v
    return _HOLO_CACHE[raw]


def build_value(v):
    from octave_mcp.core.ast_nodes import InlineMap, ListValue, LiteralZoneValue
    t = v["t"]
    if t == "null":
        return None
    if t == "bool":
        return v["v"]
    if t == "int":
        return int(v["v"])
    if t == "float":
        return float(v["v"])
    if t == "str":
        return v["v"]
    if t == "list":
        return ListValue(items=[build_value(x) for x in v["v"]])
    if t == "imap":
        return InlineMap(pairs={k: build_value(x) for k, x in v["v"]})
    if t == "pydict":
        return {k: build_value(x) for k, x in v["v"]}
    if t == "zone":
        return LiteralZoneValue(content=v["c"], info_tag=v["tag"], fence_marker=v["f"])
    if t == "holo":
        return _holo_obj(v["raw"])
    raise ValueError(t)


def build_nodes(nodes):
    from octave_mcp.core.ast_nodes import Assignment, Block, Comment, Section
    out = []
    for n in nodes:
        k = n["n"]
        if k == "a":
            out.append(Assignment(key=n["k"], value=build_value(n["v"]), leading_comments=list(n.get("lc", [])), trailing_comment=n.get("tc")))
        elif k == "b":
            out.append(Block(key=n["k"], children=build_nodes(n["c"]), leading_comments=list(n.get("lc", []))))
        elif k == "s":
            out.append(Section(section_id=n["id"], key=n["k"], children=build_nodes(n["c"]), leading_comments=list(n.get("lc", []))))
        elif k == "c":
            out.append(Comment(text=n["text"]))
    return out


def build_ast(doc):
    from octave_mcp.core.ast_nodes import Document
    return Document(name=doc["name"], meta={k: build_value(v) for k, v in doc["meta"]}, sections=build_nodes(doc["sections"]),
                    has_separator=doc["sep"], raw_frontmatter=doc["front"], grammar_version=doc["gv"])


class Unmodelled(Exception):
    pass


def model_value(x):
    from octave_mcp.core.ast_nodes import HolographicValue, InlineMap, ListValue, LiteralZoneValue
    if x is None:
        return vnull()
    if isinstance(x, bool):
        return vbool(x)
    if isinstance(x, int):
        return vint(x)
    if isinstance(x, float):
        return {"t": "float", "v": repr(x)}
    if isinstance(x, str):
        return vstr(x)
    if isinstance(x, ListValue):
        return vlist(model_value(i) for i in x.items)
    if isinstance(x, InlineMap):
        return vimap((k, model_value(v)) for k, v in x.pairs.items())
    if isinstance(x, LiteralZoneValue):
        return vzone(x.content, x.info_tag, x.fence_marker)
    if isinstance(x, HolographicValue):
        return vholo(x.raw_pattern)
    if isinstance(x, dict):
        return vpydict((k, model_value(v)) for k, v in x.items())
    raise Unmodelled(type(x).__name__)


def model_nodes(nodes):
    from octave_mcp.core.ast_nodes import Assignment, Block, Comment, Section
    out = []
    for n in nodes:
        if isinstance(n, Assignment):
            out.append(A(n.key, model_value(n.value), n.leading_comments, n.trailing_comment))
        elif isinstance(n, Block):
            if n.target:
                raise Unmodelled("block target")
            out.append(B(n.key, model_nodes(n.children), n.leading_comments))
        elif isinstance(n, Section):
            if n.annotation:
                raise Unmodelled("section annotation")
            out.append(S(n.section_id, n.key, model_nodes(n.children), n.leading_comments))
        elif isinstance(n, Comment):
            out.append(C(n.text))
        else:
            raise Unmodelled(type(n).__name__)
    return out


def ast_to_model(d):
    if getattr(d, "trailing_comments", None):
        raise Unmodelled("document trailing comments")
    return {"name": d.name, "meta": [[k, model_value(v)] for k, v in (d.meta or {}).items()], "sections": model_nodes(d.sections),
            "sep": bool(d.has_separator), "front": d.raw_frontmatter, "gv": d.grammar_version}


def strip_comments(doc):
    """The same document without any comment (comments are not content for C14)."""
    def rec(nodes):
        out = []
        for n in nodes:
            if n["n"] == "c":
                continue
            m = {k: v for k, v in n.items() if k not in ("lc", "tc")}
            if "c" in m:
                m["c"] = rec(m["c"])
            out.append(m)
        return out
    return {**doc, "sections": rec(doc["sections"])}


# ---------------------------------------------------------------------------------------------
# what the reader reads back as written (used to decide whether an OCTAVE rendering may be judged by
# parsing it back: outside this set the C01/C02 reader/emitter findings apply, not C14/C15)
# ---------------------------------------------------------------------------------------------
def text_safe(doc):
    if doc["front"] is not None and doc["gv"]:
        return False

    def val_ok(v, top=True):
        t = v["t"]
        if t == "pydict":
            return False
        if t == "imap":
            return False            # a standalone inline map is re-read as a list of single-pair maps
        if t == "list":
            for x in v["v"]:
                if x["t"] == "imap":
                    if len(x["v"]) != 1 or not val_ok_imapval(x["v"][0][1]):
                        return False
                elif x["t"] in ("zone", "holo") or not val_ok(x, False):
                    return False
            return True
        if t in ("zone", "holo"):
            return top
        return True

    def val_ok_imapval(v):
        if v["t"] == "list":
            return all(x["t"] in ("null", "bool", "int", "float", "str") for x in v["v"])
        return v["t"] in ("null", "bool", "int", "float", "str")

    def nodes_ok(nodes, depth):
        for n in nodes:
            k = n["n"]
            if k == "c":
                if depth == 0:
                    return False
            elif k == "a":
                if not val_ok(n["v"]) or n["k"] == "":
                    return False
            else:
                kids = [c for c in n["c"] if c["n"] in ("a", "b", "s")]
                if depth > 0 and not kids:
                    return False
                if not nodes_ok(n["c"], depth + 1):
                    return False
        return True

    for _k, v in doc["meta"]:
        if v["t"] == "pydict":
            if not all(val_ok(x, False) and x["t"] != "pydict" for _k2, x in v["v"]):
                return False
        elif not val_ok(v, False):
            return False
    return nodes_ok(doc["sections"], 0)


# ---------------------------------------------------------------------------------------------
# known-deviation adjustments (what a rendering is expected to contain *given* an open finding)
# ---------------------------------------------------------------------------------------------
def collapse_duplicates(doc):
    """F25: a Python dict keeps one entry per key: first position, last value."""
    def rec(nodes):
        order, last = [], {}
        for n in nodes:
            if n["n"] in ("a", "b", "s"):
                if n["k"] not in last:
                    order.append(n["k"])
                last[n["k"]] = n
        out = []
        for k in order:
            n = last[k]
            if n["n"] in ("b", "s"):
                n = {**n, "c": rec(n["c"])}
            out.append(n)
        return out
    secs = rec(doc["sections"])
    meta = doc["meta"]
    if meta and any(n["k"] == "META" for n in secs):
        meta = []          # result["META"] is overwritten by the top-level node keyed META
    return {**doc, "meta": meta, "sections": secs}
