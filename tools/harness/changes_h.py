"""Harness of the `changes` engine (C18): encoders between the implementation's AST and the JSON
encoding of the Lean driver, an independent *view* of documents, the segmentation of canonical files
into line blocks, case generators, and the oracles that run on the real code.

Everything that touches the implementation imports it lazily from $VERIF_REPO/src (vlib sets sys.path).
All functions used with vlib.pmap are module-level.
"""
from __future__ import annotations

import asyncio
import copy
import json
import os
import random
import shutil
import tempfile

# ---------------------------------------------------------------------------------------------
# encoders:   implementation AST  <->  driver JSON  (see lean/changes/Driver.lean)
# ---------------------------------------------------------------------------------------------


def _ast():
    from octave_mcp.core import ast_nodes as A
    return A


def enc_jval(v):
    """request value (Python object as a client / json.loads delivers it) -> J"""
    if v is None or isinstance(v, bool):
        return v
    if isinstance(v, int):
        return {"i": str(v)}
    if isinstance(v, float):
        return {"o": str(v)}
    if isinstance(v, str):
        return {"s": v}
    if isinstance(v, list):
        return {"l": [enc_jval(x) for x in v]}
    if isinstance(v, dict):
        return {"m": [[k, enc_jval(x)] for k, x in v.items()]}
    raise ValueError(f"unsupported request value {type(v).__name__}")


def enc_val(v):
    """AST value -> V"""
    A = _ast()
    if isinstance(v, A.Absent):
        return {"a": 1}
    if v is None or isinstance(v, bool):
        return v
    if isinstance(v, int):
        return {"i": str(v)}
    if isinstance(v, float):
        return {"o": str(v)}
    if isinstance(v, str):
        return {"s": v}
    if isinstance(v, A.ListValue):
        return {"l": [enc_val(x) for x in v.items]}
    if isinstance(v, A.InlineMap):
        return {"m": [[k, enc_val(x)] for k, x in v.pairs.items()]}
    if isinstance(v, A.LiteralZoneValue):
        return {"z": [v.fence_marker, v.info_tag or "", v.content]}
    if isinstance(v, A.HolographicValue):
        return {"o": v.raw_pattern}
    if isinstance(v, dict):
        return {"d": [[k, enc_val(x)] for k, x in v.items()]}
    if isinstance(v, list):
        return {"py": enc_jval(v)}
    return {"o": str(v)}


def enc_raw(v):
    """a value the CLI loop stored without normalisation -> V (scalars as scalars, containers raw)"""
    if isinstance(v, (list, dict)):
        return {"py": enc_jval(v)}
    return enc_val(v)


def enc_node(n, raw=False):
    A = _ast()
    ev = enc_raw if raw else enc_val
    if isinstance(n, A.Assignment):
        return {"t": "a", "lead": list(n.leading_comments), "key": n.key, "v": ev(n.value), "trail": n.trailing_comment}
    if isinstance(n, A.Block):
        return {"t": "b", "lead": list(n.leading_comments), "key": n.key, "target": n.target, "ch": [enc_node(c, raw) for c in n.children]}
    if isinstance(n, A.Section):
        return {"t": "s", "lead": list(n.leading_comments), "id": n.section_id, "key": n.key, "ann": n.annotation,
                "ch": [enc_node(c, raw) for c in n.children]}
    if isinstance(n, A.Comment):
        return {"t": "c", "text": n.text}
    raise ValueError(f"unsupported node {type(n).__name__}")


def enc_doc(d, raw=False):
    ev = enc_raw if raw else enc_val
    fm = d.raw_frontmatter
    return {"front": fm if (fm is not None and fm.strip()) else None, "grammar": d.grammar_version or None, "name": d.name,
            "meta": [[k, ev(v)] for k, v in d.meta.items()], "sep": bool(d.has_separator),
            "nodes": [enc_node(n, raw) for n in d.sections], "trailing": list(d.trailing_comments)}


def build_val(V):
    A = _ast()
    if V is None or isinstance(V, bool):
        return V
    if "a" in V:
        return A.Absent()
    if "i" in V:
        return int(V["i"])
    if "s" in V:
        return V["s"]
    if "o" in V:
        return float(V["o"])          # the generators use `o` for floats only
    if "z" in V:
        f, i, c = V["z"]
        return A.LiteralZoneValue(content=c, info_tag=i or None, fence_marker=f)
    if "l" in V:
        return A.ListValue(items=[build_val(x) for x in V["l"]])
    if "m" in V:
        return A.InlineMap(pairs={k: build_val(x) for k, x in V["m"]})
    if "d" in V:
        return {k: build_val(x) for k, x in V["d"]}
    raise ValueError("cannot build " + json.dumps(V))


def build_node(N):
    A = _ast()
    t = N["t"]
    if t == "a":
        return A.Assignment(key=N["key"], value=build_val(N["v"]), leading_comments=list(N["lead"]), trailing_comment=N["trail"])
    if t == "b":
        return A.Block(key=N["key"], target=N["target"], leading_comments=list(N["lead"]), children=[build_node(c) for c in N["ch"]])
    if t == "s":
        return A.Section(section_id=N["id"], key=N["key"], annotation=N["ann"], leading_comments=list(N["lead"]),
                         children=[build_node(c) for c in N["ch"]])
    if t == "c":
        return A.Comment(text=N["text"])
    raise ValueError(t)


def build_doc(D):
    A = _ast()
    return A.Document(name=D["name"], meta={k: build_val(v) for k, v in D["meta"]}, sections=[build_node(n) for n in D["nodes"]],
                      has_separator=D["sep"], raw_frontmatter=D["front"], grammar_version=D["grammar"], trailing_comments=list(D["trailing"]))


def strs_of(D):
    """every string scalar of a document encoding (for the driver's rendering table)."""
    out = []

    def val(V):
        if isinstance(V, dict):
            if "s" in V:
                out.append(V["s"])
            elif "l" in V:
                for x in V["l"]:
                    val(x)
            elif "m" in V or "d" in V:
                for _k, x in V.get("m") or V.get("d") or []:
                    val(x)

    def node(N):
        if N["t"] == "a":
            val(N["v"])
        elif N["t"] in ("b", "s"):
            for c in N["ch"]:
                node(c)

    for _k, v in D["meta"]:
        val(v)
    for n in D["nodes"]:
        node(n)
    return list(dict.fromkeys(out))


def render_table(D):
    """[[s, emit_value(s), forced-quoted(s), ANNOTATION_PATTERN matches s]...] from the real emitter."""
    from octave_mcp.core import emitter as E
    rows = []
    for s in strs_of(D):
        rows.append([s, E.emit_value(s), E._force_quote_inline_map_value("PATTERN", "x", s), bool(E.ANNOTATION_PATTERN.match(s))])
    return rows, sorted(E._ALWAYS_QUOTE_KEYS)


# ---------------------------------------------------------------------------------------------
# the view: what the property observes of a document / of a request value
# ---------------------------------------------------------------------------------------------

def view_val(v):
    """AST value (as the parser delivers it) -> comparable view.  Types are tagged (True is not 1);
    an inline map is viewed as the sequence of its pairs, because the canonical text of a map inside
    a list is just `k::v,k2::v2` (the grouping is not part of the text)."""
    A = _ast()
    if isinstance(v, A.Absent):
        return ["absent"]
    if v is None:
        return ["null"]
    if isinstance(v, bool):
        return ["bool", v]
    if isinstance(v, int):
        return ["int", str(v)]
    if isinstance(v, float):
        return ["float", repr(v)]
    if isinstance(v, str):
        return ["str", v]
    if isinstance(v, A.ListValue):
        out = ["list"]
        for x in v.items:
            if isinstance(x, A.InlineMap):
                out += [["pair", k, view_val(y)] for k, y in x.pairs.items()]
            else:
                out.append(view_val(x))
        return out
    if isinstance(v, A.InlineMap):
        return ["list"] + [["pair", k, view_val(y)] for k, y in v.pairs.items()]
    if isinstance(v, dict):
        return ["dict"] + [[k, view_val(y)] for k, y in v.items()]
    if isinstance(v, A.LiteralZoneValue):
        return ["zone", v.fence_marker, v.info_tag or "", v.content]
    if isinstance(v, A.HolographicValue):
        return ["holo", v.raw_pattern]
    return ["other", repr(v)]


def expected_view(v):
    """request value -> the view the property demands to read back ("sets exactly that value")."""
    if v is None:
        return ["null"]
    if isinstance(v, bool):
        return ["bool", v]
    if isinstance(v, int):
        return ["int", str(v)]
    if isinstance(v, float):
        return ["float", repr(v)]
    if isinstance(v, str):
        return ["str", v]
    if isinstance(v, list):
        out = ["list"]
        for x in v:
            if isinstance(x, dict):
                out += [["pair", k, expected_view(y)] for k, y in x.items()]
            else:
                out.append(expected_view(x))
        return out
    if isinstance(v, dict):
        return ["list"] + [["pair", k, expected_view(y)] for k, y in v.items()]
    raise ValueError(type(v).__name__)


def is_delete(v):
    """the documented DELETE sentinel (written from the tool's documentation, not from the code)."""
    return isinstance(v, dict) and v.get("$op") == "DELETE"


def has_nested_map(v, inside=False):
    """a dict that (directly or through lists) contains another dict."""
    if isinstance(v, dict):
        if inside:
            return True
        return any(has_nested_map(x, True) for x in v.values())
    if isinstance(v, list):
        return any(has_nested_map(x, inside) for x in v)
    return False


# ---------------------------------------------------------------------------------------------
# segmentation of a canonical file into line blocks (frame condition on file bytes)
# ---------------------------------------------------------------------------------------------

class Unsegmentable(Exception):
    pass


def segment(text):
    """Split a canonical file into  head | META header | META entries | separator | top-level node
    blocks | tail  using the real parser only for the list of nodes and their line numbers; every
    boundary is validated against the text.  Returns a dict; raises Unsegmentable."""
    from octave_mcp.core.parser import parse
    A = _ast()
    doc = parse(text)
    lines = text.split("\n")
    env = None
    for i, ln in enumerate(lines):
        if ln.startswith("===") and ln.endswith("===") and len(ln) > 6 and ln != "===END===":
            env = i
            break
    if env is None:
        raise Unsegmentable("no envelope line")
    end = None
    for i in range(len(lines) - 1, env, -1):
        if lines[i] == "===END===":
            end = i
            break
    if end is None:
        raise Unsegmentable("no END line")
    pos = env + 1
    meta_header, meta_entries = [], []
    if pos < end and lines[pos] == "META:":
        meta_header = [lines[pos]]
        pos += 1
        while pos < end and lines[pos].startswith("  "):
            ln = lines[pos]
            if ln[2:3] not in (" ", "]", ""):
                key = ln[2:].split(":", 1)[0]
                meta_entries.append([key, [ln]])
            else:
                if not meta_entries:
                    raise Unsegmentable("META continuation before first entry")
                meta_entries[-1][1].append(ln)
            pos += 1
    if [k for k, _ in meta_entries] != list(doc.meta.keys()):
        raise Unsegmentable(f"META keys in text {[k for k, _ in meta_entries]} != parsed {list(doc.meta.keys())}")
    sep = []
    if doc.has_separator:
        if pos < end and lines[pos] == "---":
            sep = [lines[pos]]
            pos += 1
        else:
            raise Unsegmentable("separator not where expected")
    tail_start = end - len(doc.trailing_comments)
    if tail_start < pos or any(not l.startswith("//") for l in lines[tail_start:end]):
        raise Unsegmentable("trailing comments not where expected")
    starts = []
    for n in doc.sections:
        if isinstance(n, A.Comment):
            raise Unsegmentable("top-level Comment node")
        s = n.line - 1 - len(n.leading_comments)
        kl = lines[n.line - 1] if 0 <= n.line - 1 < len(lines) else ""
        if isinstance(n, A.Assignment):
            ok = kl.startswith(n.key + "::")
            kind = "a"
        elif isinstance(n, A.Block):
            ok = kl.startswith(n.key) and kl.endswith(":")
            kind = "b"
        else:
            ok = kl.startswith("§")
            kind = "s"
        if not ok or any(not l.startswith("//") for l in lines[s:n.line - 1]):
            raise Unsegmentable(f"node {kind}:{n.key} not at line {n.line}")
        starts.append((s, kind, n.key))
    nodes = []
    if starts:
        if starts[0][0] != pos:
            raise Unsegmentable("first node does not start the body")
        for j, (s, kind, key) in enumerate(starts):
            e = starts[j + 1][0] if j + 1 < len(starts) else tail_start
            if e <= s:
                raise Unsegmentable("non-increasing node starts")
            nodes.append([kind, key, lines[s:e]])
    elif pos != tail_start:
        raise Unsegmentable("body lines without nodes")
    return {"head": lines[:env + 1], "meta_header": meta_header, "meta": meta_entries, "sep": sep, "nodes": nodes,
            "tail": lines[tail_start:], "doc": doc}


def unnamed_lines(seg, top_named, meta_named, meta_all):
    """the file's lines with the blocks of the named keys removed (META header line kept out of the
    comparison whenever a META key is named, because it exists iff META has an entry)."""
    out = list(seg["head"])
    if not (meta_named or meta_all):
        out += seg["meta_header"]
    for k, ls in seg["meta"]:
        if not meta_all and k not in meta_named:
            out += ls
    out += seg["sep"]
    for kind, key, ls in seg["nodes"]:
        if not (kind == "a" and key in top_named):
            out += ls
    out += seg["tail"]
    return out


# ---------------------------------------------------------------------------------------------
# what one request demands (written from the property statement)
# ---------------------------------------------------------------------------------------------

def demands(changes, mutations, meta_keys_before):
    """-> (top: {key: ('del',)|('set', view)}, meta: {field: ('del',)|('set', view)}, meta_all: bool)"""
    top, meta, meta_all = {}, {}, False
    for k, v in changes.items():
        if k.startswith("META."):
            f = k[len("META."):]
            meta[f] = ("del",) if is_delete(v) else ("set", expected_view(v))
        elif k == "META" and isinstance(v, dict):
            if is_delete(v):
                meta_all = True
                for f in list(meta_keys_before) + list(meta):
                    meta[f] = ("del",)
            else:
                for f, mv in v.items():
                    meta[f] = ("del",) if is_delete(mv) else ("set", expected_view(mv))
        else:
            top[k] = ("del",) if is_delete(v) else ("set", expected_view(v))
    for f, v in (mutations or {}).items():
        meta[f] = ("del",) if is_delete(v) else ("set", expected_view(v))
    return top, meta, meta_all


def check_demands(doc_after, top, meta):
    """presence / None / value of each named key in the parse of the file after the call."""
    A = _ast()
    problems = []
    firsts = {}
    for n in doc_after.sections:
        if isinstance(n, A.Assignment):
            firsts.setdefault(n.key, view_val(n.value))
    for k, d in top.items():
        if d[0] == "del":
            if k in firsts:
                problems.append(f"DELETE {k}: key still present with {firsts[k]}")
        elif k not in firsts:
            problems.append(f"set {k}: key absent after the call (wanted {d[1]})")
        elif firsts[k] != d[1]:
            problems.append(f"set {k}: read back {firsts[k]}, wanted {d[1]}")
    mv = {k: view_val(v) for k, v in doc_after.meta.items()}
    for f, d in meta.items():
        if d[0] == "del":
            if f in mv:
                problems.append(f"DELETE META.{f}: field still present with {mv[f]}")
        elif f not in mv:
            problems.append(f"set META.{f}: field absent after the call (wanted {d[1]})")
        elif mv[f] != d[1]:
            problems.append(f"set META.{f}: read back {mv[f]}, wanted {d[1]}")
    return problems


# ---------------------------------------------------------------------------------------------
# running the real entry points
# ---------------------------------------------------------------------------------------------

def run_tool(path, changes, mutations=None):
    from octave_mcp.mcp.write import WriteTool
    kw = {"target_path": path, "changes": changes}
    if mutations is not None:
        kw["mutations"] = mutations
    return asyncio.run(WriteTool().execute(**kw))


def run_cli_inproc(path, changes):
    from click.testing import CliRunner
    from octave_mcp.cli.main import cli
    r = CliRunner().invoke(cli, ["write", path, "--changes", json.dumps(changes)])
    return r.exit_code, r.output


def oracle_history(case):
    """case = {"text": canonical file, "requests": [{"changes":…, "mutations":…|None}…], "entry": "mcp"|"cli"}
    Runs the requests one after the other through the real entry point on a temp file and checks, after
    each call, the frame condition on the file bytes and the demands on the named keys.
    -> {"status": "ok"|"skip"|"fail", "why": …, "step": i, …}"""
    from octave_mcp.core.emitter import emit
    from octave_mcp.core.parser import parse
    entry = case.get("entry", "mcp")
    td = tempfile.mkdtemp(prefix="c18-")
    path = os.path.join(td, "f.oct.md")
    try:
        with open(path, "w", encoding="utf-8") as f:
            f.write(case["text"])
        before = case["text"]
        for i, rq in enumerate(case["requests"]):
            try:
                if emit(parse(before)) != before:
                    return {"status": "skip", "why": "file not canonical before step", "step": i}
                seg_b = segment(before)
            except Unsegmentable as e:
                return {"status": "skip", "why": f"unsegmentable before: {e}", "step": i}
            except Exception as e:
                return {"status": "skip", "why": f"precondition: {type(e).__name__}", "step": i}
            changes, mutations = rq["changes"], rq.get("mutations")
            try:
                if entry == "cli":
                    code, out = run_cli_inproc(path, changes)
                    ok, detail = code == 0, out[-300:]
                else:
                    res = run_tool(path, changes, mutations)
                    ok, detail = res.get("status") == "success", json.dumps(res.get("errors"))[:300]
            except Exception as e:
                return {"status": "fail", "why": f"{entry} entry point raised {type(e).__name__}: {e}"[:400], "why_class": "raise", "step": i}
            if not ok:
                return {"status": "fail", "why": f"{entry} entry point refused an in-domain request: {detail}", "why_class": "refused", "step": i}
            with open(path, encoding="utf-8") as f:
                after = f.read()
            top, meta, meta_all = demands(changes, mutations, list(seg_b["doc"].meta.keys()))
            try:
                seg_a = segment(after)
            except Unsegmentable as e:
                return {"status": "fail", "why": f"file after the call is not a canonical document ({e})", "why_class": "after-unsegmentable",
                        "step": i, "after": after}
            except Exception as e:
                return {"status": "fail", "why": f"file after the call cannot be read back: {type(e).__name__}: {e}"[:400],
                        "why_class": "after-unreadable", "step": i, "after": after}
            ub = unnamed_lines(seg_b, set(top), set(meta), meta_all)
            ua = unnamed_lines(seg_a, set(top), set(meta), meta_all)
            if ub != ua:
                j = next((x for x in range(min(len(ub), len(ua))) if ub[x] != ua[x]), min(len(ub), len(ua)))
                return {"status": "fail", "why": f"frame: lines of unnamed keys changed (first difference at unnamed line {j}: "
                        f"{ub[j] if j < len(ub) else '<end>'!r} -> {ua[j] if j < len(ua) else '<end>'!r})", "why_class": "frame",
                        "step": i, "before": before, "after": after}
            probs = check_demands(seg_a["doc"], top, meta)
            if probs:
                return {"status": "fail", "why": "; ".join(probs)[:600], "why_class": "demand:" + probs[0].split(":")[0].split(" ")[0],
                        "step": i, "before": before, "after": after}
            before = after
        return {"status": "ok", "final": before}
    finally:
        shutil.rmtree(td, ignore_errors=True)


def impl_apply(case):
    """the real `_apply_changes` / `_apply_mutations` called directly on the parsed document.
    -> {"docs": [D after each request]} | {"exc": "..."}"""
    from octave_mcp.core.parser import parse
    from octave_mcp.mcp.write import WriteTool
    try:
        doc = parse(case["text"])
        tool = WriteTool()
        start = enc_doc(doc)
        docs = []
        for rq in case["requests"]:
            doc = tool._apply_changes(doc, copy.deepcopy(rq["changes"]))
            tool._apply_mutations(doc, copy.deepcopy(rq.get("mutations")))
            docs.append(enc_doc(doc))
        return {"start": start, "docs": docs}
    except Exception as e:
        return {"exc": f"{type(e).__name__}: {e}"[:300]}


def impl_emit(D):
    """real `emit` of the document built from an encoding -> {"text":…}|{"exc":…}, plus the rendering table"""
    from octave_mcp.core.emitter import emit
    try:
        strs, always = render_table(D)
        return {"text": emit(build_doc(D)), "strs": strs, "always": always}
    except Exception as e:
        return {"exc": f"{type(e).__name__}: {e}"[:300]}
