"""Harness of the `changes` engine (C18): encoders between the implementation's AST and the JSON
encoding of the Lean driver, an independent *view* of documents, the segmentation of canonical files
into line blocks, case generators, and the oracles that run on the real code.

Everything that touches the implementation imports it lazily from $VERIF_REPO/src (vlib sets sys.path).
All functions used with vlib.pmap are module-level.
"""
from __future__ import annotations

import asyncio
import copy
import json
import os
import random
import shutil
import tempfile

# ---------------------------------------------------------------------------------------------
# encoders:   implementation AST  <->  driver JSON  (see lean/changes/Driver.lean)
# ---------------------------------------------------------------------------------------------


def _ast():
    from octave_mcp.core import ast_nodes as A
    return A


def enc_jval(v):
    """request value (Python object as a client / json.loads delivers it) -> J"""
    if v is None or isinstance(v, bool):
        return v
    if isinstance(v, int):
        return {"i": str(v)}
    if isinstance(v, float):
        return {"o": str(v)}
    if isinstance(v, str):
        return {"s": v}
    if isinstance(v, list):
        return {"l": [enc_jval(x) for x in v]}
    if isinstance(v, dict):
        return {"m": [[k, enc_jval(x)] for k, x in v.items()]}
    raise ValueError(f"unsupported request value {type(v).__name__}")


def enc_val(v):
    """AST value -> V"""
    A = _ast()
    if isinstance(v, A.Absent):
        return {"a": 1}
    if v is None or isinstance(v, bool):
        return v
    if isinstance(v, int):
        return {"i": str(v)}
    if isinstance(v, float):
        return {"o": str(v)}
    if isinstance(v, str):
        return {"s": v}
    if isinstance(v, A.ListValue):
        return {"l": [enc_val(x) for x in v.items]}
    if isinstance(v, A.InlineMap):
        return {"m": [[k, enc_val(x)] for k, x in v.pairs.items()]}
    if isinstance(v, A.LiteralZoneValue):
        return {"z": [v.fence_marker, v.info_tag or "", v.content]}
    if isinstance(v, A.HolographicValue):
        return {"o": v.raw_pattern}
    if isinstance(v, dict):
        return {"d": [[k, enc_val(x)] for k, x in v.items()]}
    if isinstance(v, list):
        return {"py": enc_jval(v)}
    return {"o": str(v)}


def enc_raw(v):
    """a value as the CLI loop leaves it -> V: a Python dict is a dict (the same kind of object as the
    nested META level of the parser), a raw Python list is `py`, everything else as in enc_val"""
    if isinstance(v, dict):
        return {"d": [[k, enc_raw(x)] for k, x in v.items()]}
    if isinstance(v, list):
        return {"py": enc_jval(v)}
    return enc_val(v)


def enc_node(n, raw=False):
    A = _ast()
    ev = enc_raw if raw else enc_val
    if isinstance(n, A.Assignment):
        return {"t": "a", "lead": list(n.leading_comments), "key": n.key, "v": ev(n.value), "trail": n.trailing_comment}
    if isinstance(n, A.Block):
        return {"t": "b", "lead": list(n.leading_comments), "key": n.key, "target": n.target, "ch": [enc_node(c, raw) for c in n.children]}
    if isinstance(n, A.Section):
        return {"t": "s", "lead": list(n.leading_comments), "id": n.section_id, "key": n.key, "ann": n.annotation,
                "ch": [enc_node(c, raw) for c in n.children]}
    if isinstance(n, A.Comment):
        return {"t": "c", "text": n.text}
    raise ValueError(f"unsupported node {type(n).__name__}")


def enc_doc(d, raw=False):
    ev = enc_raw if raw else enc_val
    fm = d.raw_frontmatter
    return {"front": fm if (fm is not None and fm.strip()) else None, "grammar": d.grammar_version or None, "name": d.name,
            "meta": [[k, ev(v)] for k, v in d.meta.items()], "sep": bool(d.has_separator),
            "nodes": [enc_node(n, raw) for n in d.sections], "trailing": list(d.trailing_comments)}


def build_val(V):
    A = _ast()
    if V is None or isinstance(V, bool):
        return V
    if "a" in V:
        return A.Absent()
    if "i" in V:
        return int(V["i"])
    if "s" in V:
        return V["s"]
    if "o" in V:
        return float(V["o"])          # the generators use `o` for floats only
    if "z" in V:
        f, i, c = V["z"]
        return A.LiteralZoneValue(content=c, info_tag=i or None, fence_marker=f)
    if "l" in V:
        return A.ListValue(items=[build_val(x) for x in V["l"]])
    if "m" in V:
        return A.InlineMap(pairs={k: build_val(x) for k, x in V["m"]})
    if "d" in V:
        return {k: build_val(x) for k, x in V["d"]}
    raise ValueError("cannot build " + json.dumps(V))


def build_node(N):
    A = _ast()
    t = N["t"]
    if t == "a":
        return A.Assignment(key=N["key"], value=build_val(N["v"]), leading_comments=list(N["lead"]), trailing_comment=N["trail"])
    if t == "b":
        return A.Block(key=N["key"], target=N["target"], leading_comments=list(N["lead"]), children=[build_node(c) for c in N["ch"]])
    if t == "s":
        return A.Section(section_id=N["id"], key=N["key"], annotation=N["ann"], leading_comments=list(N["lead"]),
                         children=[build_node(c) for c in N["ch"]])
    if t == "c":
        return A.Comment(text=N["text"])
    raise ValueError(t)


def build_doc(D):
    A = _ast()
    return A.Document(name=D["name"], meta={k: build_val(v) for k, v in D["meta"]}, sections=[build_node(n) for n in D["nodes"]],
                      has_separator=D["sep"], raw_frontmatter=D["front"], grammar_version=D["grammar"], trailing_comments=list(D["trailing"]))


def strs_of(D):
    """every string scalar of a document encoding (for the driver's rendering table)."""
    out = []

    def val(V):
        if isinstance(V, dict):
            if "s" in V:
                out.append(V["s"])
            elif "l" in V:
                for x in V["l"]:
                    val(x)
            elif "m" in V or "d" in V:
                for _k, x in V.get("m") or V.get("d") or []:
                    val(x)

    def node(N):
        if N["t"] == "a":
            val(N["v"])
        elif N["t"] in ("b", "s"):
            for c in N["ch"]:
                node(c)

    for _k, v in D["meta"]:
        val(v)
    for n in D["nodes"]:
        node(n)
    return list(dict.fromkeys(out))


def render_table(D):
    """[[s, emit_value(s), forced-quoted(s), ANNOTATION_PATTERN matches s]...] from the real emitter."""
    from octave_mcp.core import emitter as E
    rows = []
    for s in strs_of(D):
        rows.append([s, E.emit_value(s), E._force_quote_inline_map_value("PATTERN", "x", s), bool(E.ANNOTATION_PATTERN.match(s))])
    return rows, sorted(E._ALWAYS_QUOTE_KEYS)


# ---------------------------------------------------------------------------------------------
# the view: what the property observes of a document / of a request value
# ---------------------------------------------------------------------------------------------

def view_val(v):
    """AST value (as the parser delivers it) -> comparable view.  Types are tagged (True is not 1);
    an inline map is viewed as the sequence of its pairs, because the canonical text of a map inside
    a list is just `k::v,k2::v2` (the grouping is not part of the text)."""
    A = _ast()
    if isinstance(v, A.Absent):
        return ["absent"]
    if v is None:
        return ["null"]
    if isinstance(v, bool):
        return ["bool", v]
    if isinstance(v, int):
        return ["int", str(v)]
    if isinstance(v, float):
        return ["float", repr(v)]
    if isinstance(v, str):
        return ["str", v]
    if isinstance(v, A.ListValue):
        out = ["list"]
        for x in v.items:
            if isinstance(x, A.InlineMap):
                out += [["pair", k, view_val(y)] for k, y in x.pairs.items()]
            else:
                out.append(view_val(x))
        return out
    if isinstance(v, A.InlineMap):
        return ["list"] + [["pair", k, view_val(y)] for k, y in v.pairs.items()]
    if isinstance(v, dict):
        return ["dict"] + [[k, view_val(y)] for k, y in v.items()]
    if isinstance(v, A.LiteralZoneValue):
        return ["zone", v.fence_marker, v.info_tag or "", v.content]
    if isinstance(v, A.HolographicValue):
        return ["holo", v.raw_pattern]
    return ["other", repr(v)]


def expected_view(v):
    """request value -> the view the property demands to read back ("sets exactly that value")."""
    if v is None:
        return ["null"]
    if isinstance(v, bool):
        return ["bool", v]
    if isinstance(v, int):
        return ["int", str(v)]
    if isinstance(v, float):
        return ["float", repr(v)]
    if isinstance(v, str):
        return ["str", v]
    if isinstance(v, list):
        out = ["list"]
        for x in v:
            if isinstance(x, dict):
                out += [["pair", k, expected_view(y)] for k, y in x.items()]
            else:
                out.append(expected_view(x))
        return out
    if isinstance(v, dict):
        return ["list"] + [["pair", k, expected_view(y)] for k, y in v.items()]
    raise ValueError(type(v).__name__)


def is_delete(v):
    """the documented DELETE sentinel (written from the tool's documentation, not from the code)."""
    return isinstance(v, dict) and v.get("$op") == "DELETE"


def has_nested_map(v, inside=False):
    """a dict that (directly or through lists) contains another dict."""
    if isinstance(v, dict):
        if inside:
            return True
        return any(has_nested_map(x, True) for x in v.values())
    if isinstance(v, list):
        return any(has_nested_map(x, inside) for x in v)
    return False


# ---------------------------------------------------------------------------------------------
# segmentation of a canonical file into line blocks (frame condition on file bytes)
# ---------------------------------------------------------------------------------------------

class Unsegmentable(Exception):
    pass


def segment(text):
    """Split a canonical file into  head | META header | META entries | separator | top-level node
    blocks | tail  using the real parser only for the list of nodes and their line numbers; every
    boundary is validated against the text.  Returns a dict; raises Unsegmentable."""
    from octave_mcp.core.parser import parse
    A = _ast()
    doc = parse(text)
    lines = text.split("\n")
    env = None
    for i, ln in enumerate(lines):
        if ln.startswith("===") and ln.endswith("===") and len(ln) > 6 and ln != "===END===":
            env = i
            break
    if env is None:
        raise Unsegmentable("no envelope line")
    end = None
    for i in range(len(lines) - 1, env, -1):
        if lines[i] == "===END===":
            end = i
            break
    if end is None:
        raise Unsegmentable("no END line")
    pos = env + 1
    meta_header, meta_entries = [], []
    if pos < end and lines[pos] == "META:":
        meta_header = [lines[pos]]
        pos += 1
        while pos < end and lines[pos].startswith("  "):
            ln = lines[pos]
            if ln[2:3] not in (" ", "]", ""):
                key = ln[2:].split(":", 1)[0]
                meta_entries.append([key, [ln]])
            else:
                if not meta_entries:
                    raise Unsegmentable("META continuation before first entry")
                meta_entries[-1][1].append(ln)
            pos += 1
    if [k for k, _ in meta_entries] != list(doc.meta.keys()):
        raise Unsegmentable(f"META keys in text {[k for k, _ in meta_entries]} != parsed {list(doc.meta.keys())}")
    sep = []
    if doc.has_separator:
        if pos < end and lines[pos] == "---":
            sep = [lines[pos]]
            pos += 1
        else:
            raise Unsegmentable("separator not where expected")
    tail_start = end - len(doc.trailing_comments)
    if tail_start < pos or any(not l.startswith("//") for l in lines[tail_start:end]):
        raise Unsegmentable("trailing comments not where expected")
    starts = []
    for n in doc.sections:
        if isinstance(n, A.Comment):
            raise Unsegmentable("top-level Comment node")
        s = n.line - 1 - len(n.leading_comments)
        kl = lines[n.line - 1] if 0 <= n.line - 1 < len(lines) else ""
        if isinstance(n, A.Assignment):
            ok = kl.startswith(n.key + "::")
            kind = "a"
        elif isinstance(n, A.Block):
            ok = kl.startswith(n.key) and kl.endswith(":")
            kind = "b"
        else:
            ok = kl.startswith("§")
            kind = "s"
        if not ok or any(not l.startswith("//") for l in lines[s:n.line - 1]):
            raise Unsegmentable(f"node {kind}:{n.key} not at line {n.line}")
        starts.append((s, kind, n.key))
    nodes = []
    if starts:
        if starts[0][0] != pos:
            raise Unsegmentable("first node does not start the body")
        for j, (s, kind, key) in enumerate(starts):
            e = starts[j + 1][0] if j + 1 < len(starts) else tail_start
            if e <= s:
                raise Unsegmentable("non-increasing node starts")
            nodes.append([kind, key, lines[s:e]])
    elif pos != tail_start:
        raise Unsegmentable("body lines without nodes")
    return {"head": lines[:env + 1], "meta_header": meta_header, "meta": meta_entries, "sep": sep, "nodes": nodes,
            "tail": lines[tail_start:], "doc": doc}


def unnamed_lines(seg, top_named, meta_named, meta_all):
    """the file's lines with the blocks of the named keys removed (META header line kept out of the
    comparison whenever a META key is named, because it exists iff META has an entry)."""
    out = list(seg["head"])
    if not (meta_named or meta_all):
        out += seg["meta_header"]
    for k, ls in seg["meta"]:
        if not meta_all and k not in meta_named:
            out += ls
    out += seg["sep"]
    for kind, key, ls in seg["nodes"]:
        if not (kind == "a" and key in top_named):
            out += ls
    out += seg["tail"]
    return out


# ---------------------------------------------------------------------------------------------
# what one request demands (written from the property statement)
# ---------------------------------------------------------------------------------------------

def demands(changes, mutations, meta_keys_before):
    """-> (top: {key: ('del',)|('set', view)}, meta: {field: ('del',)|('set', view)}, meta_all: bool)"""
    top, meta, meta_all = {}, {}, False
    for k, v in changes.items():
        if k.startswith("META."):
            f = k[len("META."):]
            meta[f] = ("del",) if is_delete(v) else ("set", expected_view(v))
        elif k == "META" and isinstance(v, dict):
            if is_delete(v):
                meta_all = True
                for f in list(meta_keys_before) + list(meta):
                    meta[f] = ("del",)
            else:
                for f, mv in v.items():
                    meta[f] = ("del",) if is_delete(mv) else ("set", expected_view(mv))
        else:
            top[k] = ("del",) if is_delete(v) else ("set", expected_view(v))
    for f, v in (mutations or {}).items():
        meta[f] = ("del",) if is_delete(v) else ("set", expected_view(v))
    return top, meta, meta_all


def check_demands(doc_after, top, meta):
    """presence / None / value of each named key in the parse of the file after the call."""
    A = _ast()
    problems = []
    firsts = {}
    for n in doc_after.sections:
        if isinstance(n, A.Assignment):
            firsts.setdefault(n.key, view_val(n.value))
    for k, d in top.items():
        if d[0] == "del":
            if k in firsts:
                problems.append(f"DELETE {k}: key still present with {firsts[k]}")
        elif k not in firsts:
            problems.append(f"set {k}: key absent after the call (wanted {d[1]})")
        elif firsts[k] != d[1]:
            problems.append(f"set {k}: read back {firsts[k]}, wanted {d[1]}")
    mv = {k: view_val(v) for k, v in doc_after.meta.items()}
    for f, d in meta.items():
        if d[0] == "del":
            if f in mv:
                problems.append(f"DELETE META.{f}: field still present with {mv[f]}")
        elif f not in mv:
            problems.append(f"set META.{f}: field absent after the call (wanted {d[1]})")
        elif mv[f] != d[1]:
            problems.append(f"set META.{f}: read back {mv[f]}, wanted {d[1]}")
    return problems


# ---------------------------------------------------------------------------------------------
# running the real entry points
# ---------------------------------------------------------------------------------------------

# temp files live on tmpfs when there is one (the tool fsyncs every write; on a disk that dominates the run)
SCRATCH = "/dev/shm" if os.path.isdir("/dev/shm") and os.access("/dev/shm", os.W_OK) else None

def run_tool(path, changes, mutations=None):
    from octave_mcp.mcp.write import WriteTool
    kw = {"target_path": path, "changes": changes}
    if mutations is not None:
        kw["mutations"] = mutations
    return asyncio.run(WriteTool().execute(**kw))


def run_cli_inproc(path, changes):
    from click.testing import CliRunner
    from octave_mcp.cli.main import cli
    r = CliRunner().invoke(cli, ["write", path, "--changes", json.dumps(changes)])
    return r.exit_code, r.output


def run_cli_subprocess(path, changes):
    """the real executable (PYTHONPATH is set by vlib, so it runs the tree under test)"""
    import subprocess
    r = subprocess.run(["/venv/bin/octave", "write", path, "--changes", json.dumps(changes)], capture_output=True, text=True, timeout=300)
    return r.returncode, r.stdout + r.stderr


def oracle_history(case):
    """case = {"text": canonical file, "requests": [{"changes":…, "mutations":…|None}…], "entry": "mcp"|"cli"}
    Runs the requests one after the other through the real entry point on a temp file and checks, after
    each call, the frame condition on the file bytes and the demands on the named keys.
    -> {"status": "ok"|"skip"|"fail", "why": …, "step": i, …}"""
    from octave_mcp.core.emitter import emit
    from octave_mcp.core.parser import parse
    entry = case.get("entry", "mcp")
    td = tempfile.mkdtemp(prefix="c18-", dir=SCRATCH)
    path = os.path.join(td, "f.oct.md")
    try:
        with open(path, "w", encoding="utf-8") as f:
            f.write(case["text"])
        before = case["text"]
        for i, rq in enumerate(case["requests"]):
            # the generated file must be canonical (a fixpoint of parse/emit); the files the tool itself
            # wrote in earlier steps are taken as they are: if the tool left a layout that its next call
            # re-arranges, the frame comparison of the next step shows it.
            try:
                if i == 0 and emit(parse(before)) != before:
                    return {"status": "skip", "why": "generated file not canonical", "step": i}
                seg_b = segment(before)
            except Unsegmentable as e:
                if i == 0:
                    return {"status": "skip", "why": f"unsegmentable before: {e}", "step": i}
                return {"status": "fail", "why": f"file written by the previous call cannot be segmented ({e})", "why_class": "after-unsegmentable",
                        "step": i - 1, "after": before}
            except Exception as e:
                return {"status": "skip", "why": f"precondition: {type(e).__name__}", "step": i}
            changes, mutations = rq["changes"], rq.get("mutations")
            try:
                if entry in ("cli", "cli-subprocess"):
                    code, out = run_cli_subprocess(path, changes) if entry == "cli-subprocess" else run_cli_inproc(path, changes)
                    ok, detail = code == 0, out[-300:]
                else:
                    res = run_tool(path, changes, mutations)
                    ok, detail = res.get("status") == "success", json.dumps(res.get("errors"))[:300]
            except Exception as e:
                return {"status": "fail", "why": f"{entry} entry point raised {type(e).__name__}: {e}"[:400], "why_class": "raise", "step": i}
            if not ok:
                return {"status": "fail", "why": f"{entry} entry point refused an in-domain request: {detail}", "why_class": "refused", "step": i}
            with open(path, encoding="utf-8") as f:
                after = f.read()
            top, meta, meta_all = demands(changes, mutations, list(seg_b["doc"].meta.keys()))
            try:
                seg_a = segment(after)
            except Unsegmentable as e:
                return {"status": "fail", "why": f"file after the call is not a canonical document ({e})", "why_class": "after-unsegmentable",
                        "step": i, "after": after}
            except Exception as e:
                return {"status": "fail", "why": f"file after the call cannot be read back: {type(e).__name__}: {e}"[:400],
                        "why_class": "after-unreadable", "step": i, "after": after}
            ub = unnamed_lines(seg_b, set(top), set(meta), meta_all)
            ua = unnamed_lines(seg_a, set(top), set(meta), meta_all)
            if ub != ua:
                j = next((x for x in range(min(len(ub), len(ua))) if ub[x] != ua[x]), min(len(ub), len(ua)))
                return {"status": "fail", "why": f"frame: lines of unnamed keys changed (first difference at unnamed line {j}: "
                        f"{ub[j] if j < len(ub) else '<end>'!r} -> {ua[j] if j < len(ua) else '<end>'!r})", "why_class": "frame",
                        "step": i, "before": before, "after": after}
            probs = check_demands(seg_a["doc"], top, meta)
            if probs:
                return {"status": "fail", "why": "; ".join(probs)[:600], "why_class": "demand:" + probs[0].split(":")[0].split(" ")[0],
                        "step": i, "before": before, "after": after}
            before = after
        return {"status": "ok", "final": before}
    finally:
        shutil.rmtree(td, ignore_errors=True)


def impl_apply(case):
    """the real `_apply_changes` / `_apply_mutations` called directly on the parsed document.
    -> {"docs": [D after each request]} | {"exc": "..."}"""
    from octave_mcp.core.parser import parse
    from octave_mcp.mcp.write import WriteTool
    try:
        doc = parse(case["text"])
        tool = WriteTool()
        start = enc_doc(doc)
        docs = []
        for rq in case["requests"]:
            doc = tool._apply_changes(doc, copy.deepcopy(rq["changes"]))
            tool._apply_mutations(doc, copy.deepcopy(rq.get("mutations")))
            docs.append(enc_doc(doc))
        return {"start": start, "docs": docs}
    except Exception as e:
        return {"exc": f"{type(e).__name__}: {e}"[:300]}


def impl_emit(D):
    """real `emit` of the document built from an encoding -> {"text":…}|{"exc":…}, plus the rendering table"""
    from octave_mcp.core.emitter import emit
    try:
        strs, always = render_table(D)
        return {"text": emit(build_doc(D)), "strs": strs, "always": always}
    except Exception as e:
        return {"exc": f"{type(e).__name__}: {e}"[:300]}


# ---------------------------------------------------------------------------------------------
# generators (one seeded PRNG per case: random.Random(f"{seed}:{stream}:{index}"))
# ---------------------------------------------------------------------------------------------

ABS = {"a": 1}

# top-level keys: prefixes of each other (A/AA), non-prefix substrings (A in BA), case variants, dots,
# hyphens, underscores, digits, non-ASCII, the always-quoted keys, near-misses of the META dispatch.
KEYS_TOP = ["A", "B", "AA", "BA", "a", "KEY_1", "a.b", "x-y", "Ünï", "STATUS", "ID", "PATTERN", "REGEX", "T1", "METAX", "XMETA.Y", "META_Z", "Z9"]
KEYS_META = ["TYPE", "VERSION", "STATUS", "ID", "X", "AA", "A", "x-y", "a.b", "PATTERN", "Ünï", "OWNER"]
MAP_KEYS = ["k", "j", "key_2", "K.x", "PATTERN", "op"]

S = lambda s: {"s": s}  # noqa: E731
I = lambda i: {"i": str(i)}  # noqa: E731

# scalars that survive emit -> parse today (DESIGN.md section 8: no backslash-n, no reserved-word prefixes
# followed by '.', no '<' qualifier lists)
DOC_SCALARS = [None, True, False, I(0), I(1), I(-3), I(42), I(12345678901234567890), {"o": "1.5"}, S("abc"), S("DONE"), S("a.b-c"),
               S("hello world"), S("true"), S("null"), S("1"), S("x::y"), S("a,b"), S("[x]"), S("[]"), S("ünï"), S(""), S('say "hi"'),
               S("a→b"), S("$VAR"), S("N<q>"), S("//not a comment"), S(" lead"), S("A_B")]
COMMENTS = ["note", "x y", "TODO: check :: this", "§ 1", "a,b [c]"]


def gen_value(rng, depth, allow_standalone_map=True, allow_multi_pair=None):
    """allow_standalone_map / allow_multi_pair are False for documents that must re-read to themselves
    (the parser delivers a map only as single-pair items of a list)."""
    if allow_multi_pair is None:
        allow_multi_pair = allow_standalone_map
    r = rng.random()
    if depth <= 0 or r < 0.55:
        return copy.deepcopy(rng.choice(DOC_SCALARS))
    if r < 0.9:
        n = rng.choice([0, 1, 1, 2, 2, 3, 3, 4, 5])
        items = []
        for _ in range(n):
            q = rng.random()
            if q < 0.15:
                ps = gen_pairs(rng, depth - 1)
                items.append({"m": ps if allow_multi_pair else ps[:1]})
            else:
                items.append(gen_value(rng, depth - 1, False, allow_multi_pair))
        return {"l": items}
    if allow_standalone_map:
        return {"m": gen_pairs(rng, depth - 1)}
    return {"l": []}


def gen_pairs(rng, depth):
    ks = rng.sample(MAP_KEYS, rng.choice([0, 1, 1, 2, 3]))
    out = []
    for k in ks:
        v = gen_value(rng, min(depth, 1), False)
        if isinstance(v, dict) and "l" in v and any(isinstance(x, dict) and "m" in x for x in v["l"]):
            v = {"l": []}                     # inline maps cannot contain inline maps (parser rule)
        out.append([k, v])
    return out


def gen_zone(rng):
    return {"z": [rng.choice(["```", "````"]), rng.choice(["", "py", "json"]), rng.choice(["", "x = 1", "a\n  b\n\nc", "K::v\n===END===", "hard break  \nnext", "tab\t\n   \nend", "\ttrailing tab\t"])]}


def gen_node(rng, depth, top, for_text, keys):
    r = rng.random()
    lead = [rng.choice(COMMENTS) for _ in range(rng.choice([0, 0, 0, 1, 2]))]
    if depth <= 0 or r < 0.68:
        key = rng.choice(keys)
        if rng.random() < 0.06:
            v = gen_zone(rng)
            trail = None
        else:
            v = gen_value(rng, 2, allow_standalone_map=not for_text)
            multiline = isinstance(v, dict) and ("l" in v or "m" in v)
            trail = rng.choice(COMMENTS) if (rng.random() < 0.15 and not (for_text and multiline)) else None
        return {"t": "a", "lead": lead, "key": key, "v": v, "trail": trail}
    if r < 0.86:
        ch = [gen_node(rng, depth - 1, False, for_text, keys) for _ in range(rng.choice([0, 1, 2, 3]))]
        return {"t": "b", "lead": lead, "key": rng.choice(["BLK", "CFG", "A", "B2", "INNER.x"]), "target": rng.choice([None, None, None, "T", "SELF"]), "ch": ch}
    if r < 0.96 or top:
        ch = [gen_node(rng, depth - 1, False, for_text, keys) for _ in range(rng.choice([0, 1, 2]))]
        return {"t": "s", "lead": lead, "id": rng.choice(["1", "2", "2b", "10"]), "key": rng.choice(["SEC", "RULES", "A"]),
                "ann": rng.choice([None, None, "ann", "a,b"]), "ch": ch}
    return {"t": "c", "text": rng.choice(COMMENTS)}


def gen_doc(rng, for_text):
    """a document encoding D.  for_text: restricted to shapes whose canonical text re-reads today."""
    nmeta = rng.choice([0, 0, 1, 2, 3, 4])
    meta = []
    for k in rng.sample(KEYS_META, nmeta):
        if rng.random() < 0.15:
            meta.append([k, {"d": [[nk, gen_value(rng, 1, False)] for nk in rng.sample(MAP_KEYS, rng.choice([1, 2]))]}])
        else:
            meta.append([k, gen_value(rng, 2, allow_standalone_map=not for_text)])
    keys = rng.sample(KEYS_TOP, rng.choice([2, 3, 5, 8]))
    if rng.random() < 0.3:
        keys = keys + [keys[0]]               # invite duplicate keys
    nodes = [gen_node(rng, 2, True, for_text, keys) for _ in range(rng.choice([0, 1, 2, 3, 4, 6, 8]))]
    nodes = [n for n in nodes if n["t"] != "c"]
    trailing = [rng.choice(COMMENTS)] if rng.random() < 0.15 else []
    if for_text:
        # standalone Comment nodes inside blocks are re-read as leading comments of the next sibling
        def tidy(ns):
            for n in ns:
                if n["t"] in ("b", "s"):
                    n["ch"] = [c for c in n["ch"] if c["t"] != "c"]
                    tidy(n["ch"])
        tidy(nodes)
    front, grammar = None, None
    q = rng.random()
    if q < 0.08:
        front = rng.choice(["title: x\ntags: [a, b]", "title: x  \nnote: trailing spaces above"])
    elif q < 0.16:
        grammar = "5.1.0"
    return {"front": front, "grammar": grammar, "name": rng.choice(["DOC", "MY_DOC", "SPEC_V2"]), "meta": meta,
            "sep": rng.random() < 0.4, "nodes": nodes, "trailing": trailing}


def sprinkle_absent(rng, D, p):
    """replace values by Absent at random positions (probability p each)."""
    D = copy.deepcopy(D)
    for kind, cpath, idx, pair in positions(D):
        if rng.random() < p:
            try:
                c = get_path(D, cpath)
            except (KeyError, IndexError, TypeError):
                continue                      # an enclosing value already became Absent
            if idx < len(c):
                if pair:
                    c[idx][1] = dict(ABS)
                elif kind in ("top", "block_child", "section_child"):
                    c[idx]["v"] = dict(ABS)
                else:
                    c[idx] = dict(ABS)
    return D


def get_path(D, path):
    cur = D
    for p in path:
        cur = cur[p]
    return cur


def positions(D):
    """every emission site of a document encoding: (kind, path of the containing list, index, is_pair)"""
    out = []

    def val(V, path):
        if isinstance(V, dict):
            if "l" in V:
                for j, x in enumerate(V["l"]):
                    out.append(("list_item", path + ["l"], j, False))
                    val(x, path + ["l", j])
            for tag, kind in (("m", "map_value"), ("d", "meta_nested")):
                if tag in V:
                    for j, (_k, x) in enumerate(V[tag]):
                        out.append((kind, path + [tag], j, True))
                        val(x, path + [tag, j, 1])

    def nodes(ns, path, parent):
        for i, n in enumerate(ns):
            if n["t"] == "a":
                out.append(({"top": "top", "b": "block_child", "s": "section_child"}[parent], path, i, False))
                val(n["v"], path + [i, "v"])
            elif n["t"] in ("b", "s"):
                nodes(n["ch"], path + [i, "ch"], n["t"])

    for i, (_k, v) in enumerate(D["meta"]):
        out.append(("meta", ["meta"], i, True))
        val(v, ["meta", i, 1])
    nodes(D["nodes"], ["nodes"], "top")
    return out


def absent_variants(D, pos):
    """(D with Absent at the position, D with the position removed)"""
    kind, cpath, idx, pair = pos
    Da, Dr = copy.deepcopy(D), copy.deepcopy(D)
    ca, cr = get_path(Da, cpath), get_path(Dr, cpath)
    if pair:
        ca[idx][1] = dict(ABS)
    elif kind in ("top", "block_child", "section_child"):
        ca[idx]["v"] = dict(ABS)
    else:
        ca[idx] = dict(ABS)
    del cr[idx]
    return Da, Dr


# ---- request values ---------------------------------------------------------------------------
DEL = {"$op": "DELETE"}
# values inside the domain of the property (written, then read back through the parser)
VALUES_ORACLE = [None, "", [], True, False, 0, 1, -3, 12345678901234567890, 1.5, "abc", "hello world", "a.b-c", "true", "false", "null", "1", "[]",
                 '""', "x::y", "a,b", "ünï", "A_B", "a→b", "$VAR", "N<q>", " ", ["a"], ["a", "b"], ["a", "b", "c"], [None], [""], [[]],
                 [None, "", []], [1, None, ""], [["a"], ["b", "c"]], [True, "true"], {"k": "v"}, {"k": 1, "j": None}, [{"k": "v"}, "x"],
                 {"k": ["a", "b"]}, {"k": ""}, {"k": []}, {"op": "DELETE"}, {"PATTERN": "abc"}, ["a", "b", ["c", "d", "e"]],
                 dict(DEL), {"$op": "DELETE", "reason": "x"}]
# known-finding class kf_nested_inline_map (the tool writes a file its own parser rejects)
VALUES_NESTED_MAP = [{"k": {"j": 1}}, {"k": [{"j": 1}]}, [{"k": {"j": 1}}]]
# values only for the model/implementation correspondence of `_apply_changes` (no file involved)
VALUES_CORR_ONLY = [{"$op": "delete"}, {"$op": None}, {"$op": ["DELETE"]}, {"$OP": "DELETE"}, {"$op": "DELETE "}, [dict(DEL)], {"k": dict(DEL)},
                    {}, [{}], {"$op": 1}, {"x": {"$op": "DELETE"}, "$op": "DELETE"}]
FRESH_TOP = ["NEW", "A", "AA", "Z9", "new.key", "n-k", "Ünï", "PATTERN", "STATUS"]
FRESH_META = ["NEW", "TYPE", "X", "AA", "PATTERN", "m.k"]
KEYS_CORR_ONLY = ["META", "META.", "META.A.B", "META.META", "METAX", "XMETA.Y", "meta.x", "BLK", "SEC", ""]


def own_keys(text):
    if text not in _KEYS_CACHE:
        _KEYS_CACHE[text] = _own_keys(text)
    return _KEYS_CACHE[text]


def _own_keys(text):
    from octave_mcp.core.parser import parse
    A = _ast()
    d = parse(text)
    top = list(dict.fromkeys(n.key for n in d.sections if isinstance(n, A.Assignment)))
    other = list(dict.fromkeys(n.key for n in d.sections if not isinstance(n, A.Assignment)))
    return top, other, list(d.meta.keys())


def in_key_domain(k, other_keys):
    """request keys the property quantifies over: own top-level assignment keys and fresh keys (not the
    keys of blocks/sections, not the dispatch words themselves)."""
    return k not in other_keys and k != "META" and not k.startswith("META.") and k != ""


def gen_request(rng, top, other, meta, corr=False):
    """one request {"changes":…, "mutations":…|None}.  corr=True widens to keys/values outside the domain
    of the property (only used for the model/implementation correspondence)."""
    values = VALUES_ORACLE + (VALUES_CORR_ONLY + VALUES_NESTED_MAP if corr else [])

    def val():
        q = rng.random()
        if q < 0.22:
            return dict(DEL)
        if q < 0.36:
            return None
        if not corr and q < 0.39:
            return copy.deepcopy(rng.choice(VALUES_NESTED_MAP))
        return copy.deepcopy(rng.choice(values))

    changes = {}
    for _ in range(rng.choice([0, 1, 1, 1, 2, 2, 3, 4])):
        q = rng.random()
        if q < 0.4:
            pool = (top or FRESH_TOP) if rng.random() < 0.65 else FRESH_TOP
            if corr and rng.random() < 0.25:
                pool = KEYS_CORR_ONLY + other
            k = rng.choice(pool)
            if not corr and not in_key_domain(k, other):
                continue
            changes[k] = val()
        elif q < 0.7:
            f = rng.choice(meta) if (meta and rng.random() < 0.6) else rng.choice(FRESH_META)
            changes["META." + f] = val()
        elif q < 0.95:
            fs = rng.sample(sorted(set(meta + FRESH_META)), rng.choice([0, 1, 2, 3]))
            changes["META"] = {f: val() for f in fs}
        else:
            changes["META"] = dict(DEL)
    mutations = None
    if rng.random() < 0.25:
        fs = rng.sample(sorted(set(meta + FRESH_META)), rng.choice([0, 1, 2]))
        mutations = {f: val() for f in fs}
    return {"changes": changes, "mutations": mutations}


def sweep_requests(top, other, meta, max_keys=4):
    """exhaustive small scope: every single-entry request (key x operation/value x way of naming it)."""
    out = []
    values = [dict(DEL)] + VALUES_ORACLE + VALUES_NESTED_MAP
    tkeys = list(dict.fromkeys(top[:max_keys] + [k for k in FRESH_TOP if in_key_domain(k, other)][:3]))
    mkeys = list(dict.fromkeys(meta[:max_keys] + FRESH_META[:2]))
    for v in values:
        for k in tkeys:
            out.append({"changes": {k: copy.deepcopy(v)}, "mutations": None})
        for f in mkeys:
            out.append({"changes": {"META." + f: copy.deepcopy(v)}, "mutations": None})
            out.append({"changes": {"META": {f: copy.deepcopy(v)}}, "mutations": None})
            out.append({"changes": {}, "mutations": {f: copy.deepcopy(v)}})
    out.append({"changes": {"META": dict(DEL)}, "mutations": None})
    out.append({"changes": {}, "mutations": None})
    return out


def canonical_text(D):
    """canonical file of a generated document, or None when it does not re-read to itself today
    (those shapes belong to C01/C02/C03, not to C18)."""
    from octave_mcp.core.emitter import emit
    from octave_mcp.core.parser import parse
    try:
        t = emit(build_doc(D))
        d2 = parse(t)
        if emit(d2) != t:
            return None
        segment(t)
        return t
    except Exception:
        return None


_TEXT_CACHE = {}
_KEYS_CACHE = {}


def gen_text_doc(seed, idx):
    key = (seed, idx)
    if key not in _TEXT_CACHE:
        _TEXT_CACHE[key] = _gen_text_doc(seed, idx)
    return _TEXT_CACHE[key]


def _gen_text_doc(seed, idx):
    rng = random.Random(f"{seed}:doc:{idx}")
    for _attempt in range(6):
        D = gen_doc(rng, for_text=True)
        t = canonical_text(D)
        if t is not None:
            return t
    return None


# ---------------------------------------------------------------------------------------------
# known-finding class predicates (input-based: the case and the step at which it failed)
# ---------------------------------------------------------------------------------------------

def dispatch_values(rq):
    """the values `_apply_changes` / `_apply_mutations` dispatch on: top-level and META.X values, the
    entries of a META{...} dict (or the dict itself when it is the sentinel), the mutation values."""
    out = []
    for k, v in (rq.get("changes") or {}).items():
        if k == "META" and isinstance(v, dict) and not is_delete(v):
            out += list(v.values())
        else:
            out.append(v)
    out += list((rq.get("mutations") or {}).values())
    return out


def contains_nonempty_dict(v):
    if isinstance(v, dict):
        return len(v) > 0
    if isinstance(v, list):
        return any(contains_nonempty_dict(x) for x in v)
    return False


def kf_nested_inline_map(case, step):
    """a value request (`_apply_changes`, whichever entry point reaches it) whose value is a map that contains a map, directly or through lists"""
    if case.get("kind", "history") != "history":
        return False
    rq = case["requests"][step]
    return any((not is_delete(v)) and has_nested_map(v) for v in dispatch_values(rq))


def kf_map_relayout(case, step):
    """history: an EARLIER request of the history wrote a value containing a non-empty map; the tool
    lays such a value out differently from how its own next parse/emit does"""
    if case.get("kind", "history") != "history":
        return False
    for rq in case["requests"][:step]:
        if any((not is_delete(v)) and contains_nonempty_dict(v) for v in dispatch_values(rq)):
            return True
    return False


CLASSES = {f.__name__: f for f in (kf_nested_inline_map, kf_map_relayout)}


# ---------------------------------------------------------------------------------------------
# workers (module level, for vlib.pmap)
# ---------------------------------------------------------------------------------------------

def work_history(case):
    """oracle on the real entry point + direct `_apply_changes` for the correspondence."""
    out = {"oracle": oracle_history(case) if case.get("oracle", True) else {"status": "corr-only"}}
    if case.get("entry", "mcp") == "mcp":
        out["impl"] = impl_apply(case)
    return out


def work_absent(case):
    """case = {"kind":"absent","doc":D,"pos":[kind,path,idx,pair]}: emit with Absent at the site vs emit with
    the site removed, on the real emitter."""
    from octave_mcp.core.emitter import emit
    Da, Dr = absent_variants(case["doc"], tuple(case["pos"]))
    try:
        ta = emit(build_doc(Da))
    except Exception as e:
        return {"status": "fail", "why": f"emit raised {type(e).__name__}: {e} with Absent at {case['pos'][0]}"[:300], "why_class": "absent-raise"}
    tr = emit(build_doc(Dr))
    if ta != tr:
        return {"status": "fail", "why": f"Absent at a {case['pos'][0]} site is not silent: emitted text differs from the text without the site",
                "why_class": "absent-" + case["pos"][0], "with_absent": ta, "without_site": tr}
    return {"status": "ok"}


def work_emit(D):
    return impl_emit(D)


def work_cli_twin(case):
    """the same history through the MCP tool: the CLI goes through the same `_apply_changes`, so the
    files must come out byte-identical (model: `C18_cli_is_apply_changes`)."""
    twin = dict(case)
    twin["entry"] = "mcp"
    return oracle_history(twin)


def work_tristate(case):
    """case = {"kind":"tristate","site": one of top|block|section|meta|meta_nested|list|map, "key": k}
    null, "" and [] at the same site: three different texts, each re-read as itself; Absent: no text."""
    from octave_mcp.core.emitter import emit
    from octave_mcp.core.parser import parse
    A = _ast()
    site, key = case["site"], case["key"]

    def doc_with(V):
        D = {"front": None, "grammar": None, "name": "DOC", "meta": [["TYPE", S("T")]], "sep": False,
             "nodes": [{"t": "a", "lead": [], "key": "FIRST", "v": I(1), "trail": None}], "trailing": []}
        asg = {"t": "a", "lead": [], "key": key, "v": V, "trail": None}
        if site == "top":
            D["nodes"].append(asg)
        elif site == "block":
            D["nodes"].append({"t": "b", "lead": [], "key": "BLK", "target": None, "ch": [{"t": "a", "lead": [], "key": "X", "v": I(1), "trail": None}, asg]})
        elif site == "section":
            D["nodes"].append({"t": "s", "lead": [], "id": "1", "key": "SEC", "ann": None, "ch": [{"t": "a", "lead": [], "key": "X", "v": I(1), "trail": None}, asg]})
        elif site == "meta":
            D["meta"].append([key, V])
        elif site == "meta_nested":
            D["meta"].append(["NEST", {"d": [["X", I(1)], [key, V]]}])
        elif site == "list":
            D["nodes"].append({"t": "a", "lead": [], "key": "L", "v": {"l": [S("x"), V]}, "trail": None})
        elif site == "map":
            D["nodes"].append({"t": "a", "lead": [], "key": "L", "v": {"l": [S("x"), {"m": [[key, V]]}]}, "trail": None})
        return D

    def read(doc):
        if site == "top":
            return [view_val(n.value) for n in doc.sections if isinstance(n, A.Assignment) and n.key == key]
        if site in ("block", "section"):
            return [view_val(c.value) for n in doc.sections if not isinstance(n, A.Assignment) for c in n.children if isinstance(c, A.Assignment) and c.key == key]
        if site == "meta":
            return [view_val(doc.meta[key])] if key in doc.meta else []
        if site == "meta_nested":
            return [view_val(doc.meta["NEST"][key])] if key in doc.meta.get("NEST", {}) else []
        lv = [n.value for n in doc.sections if isinstance(n, A.Assignment) and n.key == "L"][0]
        v = view_val(lv)[2:]
        if site == "list":
            return v
        return [p[2] for p in v if p[0] == "pair" and p[1] == key]

    vals = {"null": None, "empty_str": S(""), "empty_list": {"l": []}}
    texts, problems = {}, []
    for name, V in vals.items():
        try:
            t = emit(build_doc(doc_with(V)))
            texts[name] = t
            got = read(parse(t))
            want = [view_val(build_val(V))]
            if got != want:
                problems.append(f"{name} at {site} site re-read as {got}, wanted {want}")
        except Exception as e:
            problems.append(f"{name} at {site}: {type(e).__name__}: {e}"[:200])
    if len(set(texts.values())) != len(texts):
        problems.append(f"two of null / \"\" / [] have the same text at a {site} site")
    try:
        ta = emit(build_doc(doc_with(dict(ABS))))
        if read(parse(ta)) != []:
            problems.append(f"Absent at {site} site is written out: re-read as {read(parse(ta))}")
        if ta in texts.values():
            problems.append(f"Absent at {site} site has the same text as one of null / \"\" / []")
    except Exception as e:
        problems.append(f"absent at {site}: {type(e).__name__}: {e}"[:200])
    if problems:
        return {"status": "fail", "why": "; ".join(problems)[:500], "why_class": "tristate"}
    return {"status": "ok"}
