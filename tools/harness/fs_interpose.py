"""Interposition on os / tempfile / pathlib.Path / builtins.open for the write paths (C16, C17).

No source hook in /repo: inside a (forked) child process the file-system entry points the write
paths can reach are replaced by wrappers.  A wrapper that is entered from code of the package under
test (outermost interposed call, path argument inside the sandbox or a handle created there)

  * gets the next call number k of its thread and is logged (`B` record before, `E` record after),
  * is *killed* (`os._exit(137)`) when the plan says `kill == k` (optionally in the middle of a
    `write`: a prefix of the data is pushed to the file first),
  * raises `OSError(errno)` instead of doing its work when the plan says `faults[k] = errno`,
  * waits for the scheduler's permission when a gate is installed (two-writer interleavings).

Calls are grouped into *model steps*: all calls made from one invocation of a path validator are one
`validatePath` step; `open(p) ; read ; close` on one handle is one `read` step.  The check modules
compare the grouped sequence with the trace of the Lean model.

Everything is deterministic: no timing, only call counting.
"""
from __future__ import annotations

import builtins
import errno as _errno
import hashlib
import io
import json
import os
import pathlib
import posixpath
import genericpath
import shutil
import stat as _stat
import sys
import tempfile
import threading

_HERE = os.path.abspath(__file__)
_STDLIB = os.path.dirname(os.__file__)

# originals (never patched)
_o = {
    "os.write": os.write, "os._exit": os._exit, "os.stat": os.stat, "os.lstat": os.lstat, "os.close": os.close,
    "os.fspath": os.fspath, "os.getpid": os.getpid, "os.fsync": os.fsync, "os.read": os.read,
}

ERRNOS = {"ENOSPC": _errno.ENOSPC, "EACCES": _errno.EACCES, "EIO": _errno.EIO, "EINTR": _errno.EINTR, "EROFS": _errno.EROFS}
VALIDATORS = ("_validate_path", "validate_octave_path")

READ_KINDS = {"exists", "os_path_exists", "is_symlink", "stat", "open_r", "read", "close_r", "read_text", "resolve", "absolute",
              "is_dir", "listdir", "readlink", "getcwd"}


class _TL(threading.local):
    depth = 0
    writer = 0
    counted = False


class Interposer:
    def __init__(self, root: str, target: str, src_root: str, plan: dict | None = None, log_fd: int | None = None, gate=None):
        self.root = root.rstrip("/")
        self.target = target
        self.parent = os.path.dirname(target)
        self.src_root = src_root.rstrip("/") + "/"
        self.plan = plan or {}
        self.kill = self.plan.get("kill")
        self.kill_mid = bool(self.plan.get("kill_mid"))
        self.ext_before = self.plan.get("ext_before")      # somebody else rewrites the target just before call k
        self.ext_text = self.plan.get("ext_text")
        self.faults = {int(k): v for k, v in (self.plan.get("faults") or {}).items()}
        self.log_fd = log_fd
        self.gate = gate                      # callable(writer, record) -> None, blocks until the turn is granted
        self.tl = _TL()
        self.armed = False
        self.counters: dict[int, int] = {}
        self.groups: dict[int, int] = {}
        self.last_validator_frame: dict[int, object] = {}
        self.records: list[dict] = []
        self.tracked_fds: dict[int, str] = {}  # fd -> role
        self.saved: list[tuple] = []
        self.lock = threading.Lock()

    # ---- classification ----------------------------------------------------------------------------
    def role_of(self, p) -> str | None:
        try:
            s = os.fspath(p)
        except TypeError:
            return None
        if isinstance(s, bytes):
            s = s.decode("utf-8", "surrogateescape")
        if not s.startswith("/"):
            return None   # the scenarios use absolute paths only
        s = posixpath.normpath(s)
        if s == self.target:
            return "target"
        if s == self.parent:
            return "parent"
        if s != self.root and not s.startswith(self.root + "/"):
            # ancestors of the sandbox are still part of the validators' component walk
            return "outside-ancestor" if (self.root + "/").startswith(s.rstrip("/") + "/") else None
        if posixpath.dirname(s) == self.parent and s.endswith(".tmp"):
            return "temp"
        if (self.parent + "/").startswith(s + "/"):
            return "ancestor"
        return "other:" + s[len(self.root) + 1:]

    def caller(self):
        """(function name, frame) of the nearest frame that is neither this file nor the standard library;
        None when that frame is not code of the package under test."""
        f = sys._getframe(2)
        while f is not None:
            fn = f.f_code.co_filename
            if fn != _HERE and not fn.startswith(_STDLIB) and not fn.startswith("<frozen"):
                if fn.startswith(self.src_root):
                    return f.f_code.co_name, f
                return None
            f = f.f_back
        return None

    # ---- the core ------------------------------------------------------------------------------------
    def call(self, kind: str, role: str | None, do, mid=None, group_of=None, data=None):
        """Run `do()` as a numbered call when armed, outermost, in-sandbox and made by the package under test."""
        tl = self.tl
        if tl.depth > 0:
            return do()
        if not self.armed or role is None:
            tl.counted = False
            return do()
        who = self.caller()
        if who is None:
            tl.counted = False
            return do()
        fname, frame = who
        w = tl.writer
        with self.lock:
            k = self.counters.get(w, 0)
            self.counters[w] = k + 1
            # grouping into model steps
            if group_of is not None:
                g, new_group = group_of, False
            else:
                vf = None
                f = frame
                while f is not None and vf is None:
                    if f.f_code.co_name in VALIDATORS:
                        vf = f
                    f = f.f_back
                if vf is not None and self.last_validator_frame.get(w) is vf:
                    g, new_group = self.groups.get(w, 0) - 1, False
                else:
                    g = self.groups.get(w, 0)
                    self.groups[w] = g + 1
                    new_group = True
                self.last_validator_frame[w] = vf
                if vf is not None:
                    fname = vf.f_code.co_name
            rec = {"w": w, "k": k, "g": g, "kind": kind, "role": role, "caller": fname, "ok": None}
            if data is not None:
                try:
                    rec["data_sha"] = hashlib.sha256(data.encode("utf-8") if isinstance(data, str) else bytes(data)).hexdigest()
                except Exception:
                    pass
        if self.gate is not None and new_group:
            self.gate(w, rec)
        with self.lock:
            self.records.append(rec)    # global order = order of execution (after the gate)
        self._log("B", rec)
        if self.ext_before is not None and self.ext_before == k and w == 0:
            tl.depth += 1
            try:
                fd = os.open(self.target, os.O_WRONLY | os.O_TRUNC | os.O_CREAT, 0o644)
                _o["os.write"](fd, self.ext_text.encode("utf-8"))
                _o["os.close"](fd)
            finally:
                tl.depth -= 1
        if self.kill is not None and self.kill == k and w == self.plan.get("kill_writer", 0):
            if self.kill_mid and mid is not None:
                tl.depth += 1
                try:
                    mid()
                except BaseException:
                    pass
            self._log("K", rec)
            _o["os._exit"](137)
        e = self.faults.get(k) if w == self.plan.get("fault_writer", 0) else None
        if e is not None:
            rec["ok"] = False
            rec["fault"] = e
            self._log("E", rec)
            tl.counted = True
            raise OSError(ERRNOS[e], os.strerror(ERRNOS[e]))
        tl.depth += 1
        try:
            r = do()
        except BaseException as ex:
            rec["ok"] = False
            rec["exc"] = type(ex).__name__
            self._log("E", rec)
            tl.counted = True
            raise
        finally:
            tl.depth -= 1
        rec["ok"] = True
        self._log("E", rec)
        tl.counted = True
        return r

    def _log(self, tag, rec):
        if self.log_fd is not None:
            _o["os.write"](self.log_fd, (tag + " " + json.dumps(rec) + "\n").encode())

    # ---- file proxies ----------------------------------------------------------------------------------
    def wrap_file(self, real, role, writable, group):
        return FileProxy(self, real, role, writable, group)

    # ---- patching ----------------------------------------------------------------------------------------
    def _patch(self, obj, name, new):
        self.saved.append((obj, name, obj.__dict__[name] if isinstance(obj, type) and name in obj.__dict__ else getattr(obj, name)))
        setattr(obj, name, new)

    def install(self):
        ip = self
        P = pathlib.Path

        # --- pathlib.Path methods ---
        def path_method(name, kind, rolefn=None):
            orig = getattr(P, name)

            def wrapper(self, *a, **kw):
                role = ip.role_of(self)
                return ip.call(kind, role, lambda: orig(self, *a, **kw))
            wrapper.__name__ = name
            ip._patch(P, name, wrapper)
        for name, kind in (("exists", "exists"), ("is_file", "exists"), ("is_dir", "is_dir"), ("is_symlink", "is_symlink"),
                           ("stat", "stat"), ("lstat", "stat"), ("mkdir", "mkdir"), ("read_text", "read_text"),
                           ("read_bytes", "read_text"), ("unlink", "unlink"), ("chmod", "chmod"),
                           ("resolve", "resolve"), ("absolute", "absolute"), ("rmdir", "rmdir"), ("symlink_to", "symlink"),
                           ("hardlink_to", "link"), ("readlink", "readlink")):
            path_method(name, kind)
        # Path.write_text / write_bytes / touch and shutil.copy* are NOT wrapped: they are composite and mutating; the
        # open / write / close calls they make are the numbered calls, so a kill point falls between truncation and write.
        for name in ("rename", "replace"):
            orig = getattr(P, name)

            def r_wrapper(self, dst, _orig=orig):
                r1, r2 = ip.role_of(self), ip.role_of(dst)
                role = None if r1 is None and r2 is None else f"{r1} {r2}"
                return ip.call("replace", role, lambda: _orig(self, dst))
            ip._patch(P, name, r_wrapper)
        orig_popen = P.open

        def p_open(self, mode="r", *a, **kw):
            return ip._open_like(lambda: orig_popen(self, mode, *a, **kw), self, mode)
        ip._patch(P, "open", p_open)

        # --- builtins.open / io.open ---
        orig_open = builtins.open

        def b_open(file, mode="r", *a, **kw):
            if isinstance(file, int):
                role = ip.tracked_fds.get(file)
                if role is None:
                    return orig_open(file, mode, *a, **kw)
                return ip._fdopen_like(lambda: orig_open(file, mode, *a, **kw), file, mode)
            return ip._open_like(lambda: orig_open(file, mode, *a, **kw), file, mode)
        ip._patch(builtins, "open", b_open)
        ip._patch(io, "open", b_open)

        # --- os functions taking a path ---
        def os_path_fn(mod, name, kind):
            orig = getattr(mod, name)

            def wrapper(path, *a, **kw):
                if isinstance(path, int):
                    role = ip.tracked_fds.get(path)
                else:
                    role = ip.role_of(path)
                return ip.call(kind, role, lambda: orig(path, *a, **kw))
            wrapper.__name__ = name
            ip._patch(mod, name, wrapper)
        for name, kind in (("stat", "stat"), ("lstat", "stat"), ("mkdir", "mkdir"), ("makedirs", "mkdir"), ("unlink", "unlink"),
                           ("remove", "unlink"), ("chmod", "chmod"), ("truncate", "truncate"), ("rmdir", "rmdir"),
                           ("listdir", "listdir"), ("readlink", "readlink"), ("access", "exists"), ("utime", "utime"),
                           ("chown", "chown")):
            os_path_fn(os, name, kind)
        for mod in (posixpath, genericpath):
            for name in ("exists", "isfile", "isdir", "lexists", "islink", "getsize"):
                if hasattr(mod, name):
                    os_path_fn(mod, name, "os_path_exists" if name in ("exists", "isfile", "lexists") else "is_dir")
        for name in ("replace", "rename", "link", "symlink"):
            orig = getattr(os, name)

            def two(src, dst, *a, _orig=orig, _name=name, **kw):
                r1, r2 = ip.role_of(src), ip.role_of(dst)
                role = None if r1 is None and r2 is None else f"{r1} {r2}"
                return ip.call("replace" if _name in ("replace", "rename") else _name, role, lambda: _orig(src, dst, *a, **kw))
            ip._patch(os, name, two)

        # --- os functions taking a file descriptor ---
        def os_fd_fn(name, kind):
            orig = getattr(os, name)

            def wrapper(fd, *a, **kw):
                role = ip.tracked_fds.get(fd) if isinstance(fd, int) else None
                return ip.call(kind, role, lambda: orig(fd, *a, **kw))
            ip._patch(os, name, wrapper)
        for name, kind in (("fchmod", "fchmod"), ("fsync", "fsync"), ("fdatasync", "fsync"), ("ftruncate", "truncate"),
                           ("fchown", "chown")):
            os_fd_fn(name, kind)
        orig_write = os.write

        def os_write(fd, data):
            role = ip.tracked_fds.get(fd)
            return ip.call("write_fd", role, lambda: orig_write(fd, data), data=data,
                           mid=lambda: orig_write(fd, bytes(data)[: max(1, len(data) // 2)]))
        ip._patch(os, "write", os_write)
        orig_close = os.close

        def os_close(fd):
            role = ip.tracked_fds.get(fd)
            return ip.call("close_fd", role, lambda: orig_close(fd))
        ip._patch(os, "close", os_close)
        orig_os_open = os.open

        def os_open(path, flags, *a, **kw):
            role = ip.role_of(path)
            wr = bool(flags & (os.O_WRONLY | os.O_RDWR | os.O_CREAT | os.O_TRUNC | os.O_APPEND))

            def do():
                fd = orig_os_open(path, flags, *a, **kw)
                if role is not None:
                    ip.tracked_fds[fd] = role
                return fd
            return ip.call("os_open_w" if wr else "os_open_r", role, do)
        ip._patch(os, "open", os_open)
        orig_fdopen = os.fdopen

        def os_fdopen(fd, mode="r", *a, **kw):
            if ip.tracked_fds.get(fd) is None:
                return orig_fdopen(fd, mode, *a, **kw)
            return ip._fdopen_like(lambda: orig_fdopen(fd, mode, *a, **kw), fd, mode)
        ip._patch(os, "fdopen", os_fdopen)

        # --- tempfile ---
        orig_mkstemp = tempfile.mkstemp

        def mkstemp(suffix=None, prefix=None, dir=None, text=False):
            role = ip.role_of(dir) if dir is not None else None

            def do():
                fd, name = orig_mkstemp(suffix, prefix, dir, text)
                r = ip.role_of(name) or "temp"
                ip.tracked_fds[fd] = r
                return fd, name
            return ip.call("mkstemp", role, do)
        ip._patch(tempfile, "mkstemp", mkstemp)
        orig_ntf = tempfile.NamedTemporaryFile

        def ntf(*a, **kw):
            d = kw.get("dir")
            role = ip.role_of(d) if d is not None else None
            return ip.call("mkstemp_ntf", role, lambda: orig_ntf(*a, **kw))
        ip._patch(tempfile, "NamedTemporaryFile", ntf)

        return self

    def _open_like(self, do_open, file, mode):
        role = self.role_of(file)
        if role is None or not self.armed or self.tl.depth > 0:
            return do_open()
        m = mode if isinstance(mode, str) else "r"
        writable = any(c in m for c in "wax+")
        if writable:
            real = self.call("open_w", role, do_open)
            if isinstance(real, FileProxy) or not hasattr(real, "write"):
                return real
            return self.wrap_file(real, role, True, None) if self._was_counted(real) else real
        real = self.call("open_r", role, do_open)
        if not self._was_counted(real):
            return real
        g = self._last_group()
        return self.wrap_file(real, role, False, g)

    def _fdopen_like(self, do_open, fd, mode):
        role = self.tracked_fds.get(fd)
        if not self.armed or self.tl.depth > 0:
            return do_open()
        real = self.call("fdopen", role, do_open)
        if not self._was_counted(real):
            return real
        m = mode if isinstance(mode, str) else "r"
        writable = any(c in m for c in "wax+")
        return self.wrap_file(real, role, writable, None if writable else self._last_group())

    def _was_counted(self, real) -> bool:
        """True when the open that produced `real` was a numbered call (made by the package under test)."""
        return bool(getattr(self.tl, "counted", False)) and not isinstance(real, FileProxy)

    def _last_group(self):
        for r in reversed(self.records):
            if r["w"] == self.tl.writer:
                return r["g"]
        return None

    def uninstall(self):
        for obj, name, old in reversed(self.saved):
            setattr(obj, name, old)
        self.saved = []

    def arm(self):
        self.armed = True

    def disarm(self):
        self.armed = False


class FileProxy:
    """Wraps a real file object; read / write / flush / close are numbered calls."""

    def __init__(self, ip: Interposer, real, role, writable, group):
        object.__setattr__(self, "_ip", ip)
        object.__setattr__(self, "_real", real)
        object.__setattr__(self, "_role", role)
        object.__setattr__(self, "_w", writable)
        object.__setattr__(self, "_g", group)

    def read(self, *a):
        return self._ip.call("read", self._role, lambda: self._real.read(*a), group_of=self._g)

    def readline(self, *a):
        return self._ip.call("read", self._role, lambda: self._real.readline(*a), group_of=self._g)

    def readlines(self, *a):
        return self._ip.call("read", self._role, lambda: self._real.readlines(*a), group_of=self._g)

    def __iter__(self):
        return iter(self.readlines())

    def write(self, data):
        def mid():
            self._real.write(data[: max(1, len(data) // 2)])
            self._real.flush()
        return self._ip.call("write", self._role, lambda: self._real.write(data), mid=mid, data=data)

    def writelines(self, lines):
        data = "".join(lines) if lines and isinstance(lines[0], str) else b"".join(lines)
        return self.write(data)

    def flush(self):
        return self._ip.call("flush", self._role, lambda: self._real.flush())

    def truncate(self, *a):
        return self._ip.call("truncate", self._role, lambda: self._real.truncate(*a))

    def close(self):
        if self._real.closed:
            return None
        return self._ip.call("close" if self._w else "close_r", self._role, lambda: self._real.close(),
                             group_of=None if self._w else self._g)

    def fileno(self):
        return self._real.fileno()

    def __enter__(self):
        return self

    def __exit__(self, *exc):
        self.close()
        return False

    def __getattr__(self, n):
        return getattr(self._real, n)

    def __del__(self):
        try:
            self._real.close()
        except Exception:
            pass


# ------------------------------------------------------------------------------------------------------
# Grouping of a call log into model steps
# ------------------------------------------------------------------------------------------------------

def step_name(first: dict, group: list) -> str:
    """Model op name of a group of calls."""
    kind, role = first["kind"], first["role"]
    if first["caller"] in VALIDATORS:
        return "validatePath"
    r = role or "?"
    if r in ("ancestor",):
        r = "parent"
    if kind in ("open_r", "read_text"):
        return f"read {r}"
    if kind == "exists":
        return f"exists {r}"
    if kind == "os_path_exists":
        return f"osPathExists {r}"
    if kind == "is_symlink":
        return f"isSymlink {r}"
    if kind == "stat":
        return f"stat {r}"
    if kind == "mkdir":
        return f"mkdirP {r}"
    if kind == "mkstemp":
        return f"mkstemp {r}"
    if kind in ("fchmod", "fdopen", "write", "flush", "fsync", "close"):
        return kind
    if kind == "unlink":
        return f"unlink {r}"
    if kind == "replace":
        return f"replace {r}"
    if kind == "open_w":
        return f"openW {r}"
    if kind == "chmod":
        return f"chmod {r}"
    if kind == "write_text":
        return f"openW {r}+write+close"
    return f"other:{kind}:{r}"


def group_steps(records: list, writer: int = 0):
    """[(name, ok, [k...])] — the model-step view of a call log."""
    steps = []
    by_g: dict[int, list] = {}
    order = []
    for r in records:
        if r["w"] != writer:
            continue
        if r["g"] not in by_g:
            by_g[r["g"]] = []
            order.append(r["g"])
        by_g[r["g"]].append(r)
    for g in order:
        grp = by_g[g]
        ok = all(r["ok"] is True for r in grp)
        steps.append((step_name(grp[0], grp), ok, [r["k"] for r in grp]))
    return steps


def step_of_call(records: list, k: int, writer: int = 0) -> int | None:
    for i, (_n, _ok, ks) in enumerate(group_steps(records, writer)):
        if k in ks:
            return i
    return None


def normalise_model_trace(trace):
    """Model op names in the vocabulary of `step_name` (read/reread and the write source are not observable by kind)."""
    out = []
    for name, ok in trace:
        if name.startswith("reread "):
            name = "read " + name[len("reread "):]
        if name.startswith("write "):
            name = "write"
        out.append((name, bool(ok)))
    return out


# ------------------------------------------------------------------------------------------------------
# Sandboxes and snapshots
# ------------------------------------------------------------------------------------------------------

def snapshot(root: str) -> dict:
    """{relative path: ("dir",) | ("file", bytes-hex-sha, mode, size) | ("link", target)} — mtimes are not part of the view."""
    out = {}
    for d, dirs, files in os.walk(root):
        for n in dirs + files:
            p = os.path.join(d, n)
            rel = os.path.relpath(p, root)
            st = os.lstat(p)
            if _stat.S_ISLNK(st.st_mode):
                out[rel] = ("link", os.readlink(p))
            elif _stat.S_ISDIR(st.st_mode):
                out[rel] = ("dir",)
            else:
                with open(p, "rb") as f:
                    b = f.read()
                out[rel] = ("file", hashlib.sha256(b).hexdigest(), st.st_mode & 0o777, len(b))
    return out


def read_state(path: str):
    """(bytes, mode) of a regular file, or None."""
    try:
        st = os.lstat(path)
    except OSError:
        return None
    if not _stat.S_ISREG(st.st_mode):
        return ("notfile", st.st_mode)
    with open(path, "rb") as f:
        return (f.read(), st.st_mode & 0o777)


# ------------------------------------------------------------------------------------------------------
# Running an entry point under interposition
# ------------------------------------------------------------------------------------------------------

def call_entry(entry: str, args: dict):
    """Calls the real implementation.  Returns a normalised result dict."""
    if entry == "tool":
        import asyncio
        from octave_mcp.mcp.write import WriteTool
        try:
            r = asyncio.run(WriteTool().execute(**args))
        except BaseException as e:  # an exception escaping execute()
            if isinstance(e, (SystemExit, KeyboardInterrupt)):
                raise
            return {"status": "raised", "exc": type(e).__name__, "msg": str(e)[:200]}
        codes = [e.get("code") for e in r.get("errors", [])] if isinstance(r.get("errors"), list) else []
        return {"status": r.get("status"), "code": codes[0] if codes else None, "hash": r.get("canonical_hash"),
                "msg": (r.get("errors") or [{}])[0].get("message", "")[:200] if r.get("status") == "error" else ""}
    if entry == "atomic":
        from octave_mcp.core.file_ops import atomic_write_octave
        try:
            r = atomic_write_octave(args["target_path"], args["content"], args.get("base_hash"))
        except BaseException as e:
            if isinstance(e, (SystemExit, KeyboardInterrupt)):
                raise
            return {"status": "raised", "exc": type(e).__name__, "msg": str(e)[:200]}
        msg = r.get("error", "") or ""
        code = None
        if r.get("status") == "error":
            code = "E_HASH" if msg.startswith("Hash mismatch") else "E_READ" if msg.startswith("Read error") else \
                "E_WRITE" if msg.startswith(("Write error", "Cannot write to symlink")) else "E_PATH"
        return {"status": r.get("status"), "code": code, "hash": r.get("canonical_hash"), "msg": msg[:200]}
    if entry == "cli":
        import contextlib
        from octave_mcp.cli.main import cli
        argv = ["write", args["target_path"]]
        if args.get("content") is not None:
            argv += ["--content", args["content"]]
        if args.get("changes") is not None:
            argv += ["--changes", json.dumps(args["changes"])]
        if args.get("base_hash"):
            argv += ["--base-hash", args["base_hash"]]
        out, err = io.StringIO(), io.StringIO()
        code = 0
        try:
            with contextlib.redirect_stdout(out), contextlib.redirect_stderr(err):
                cli.main(args=argv, prog_name="octave", standalone_mode=False)
        except SystemExit as e:
            code = e.code if isinstance(e.code, int) else (0 if e.code is None else 1)
        except BaseException as e:
            if isinstance(e, KeyboardInterrupt):
                raise
            return {"status": "raised", "exc": type(e).__name__, "msg": str(e)[:200]}
        h = None
        for line in out.getvalue().split("\n"):
            if line.startswith("canonical_hash: "):
                h = line[len("canonical_hash: "):].strip()
        return {"status": "success" if code == 0 else "error", "code": None if code == 0 else "E_EXIT", "hash": h,
                "msg": err.getvalue()[:200]}
    raise ValueError(entry)


_PRELOADED = False


def preload():
    """Import the implementation once in the (pool worker) process, so that forked children do not pay for it."""
    global _PRELOADED
    if not _PRELOADED:
        import asyncio  # noqa: F401
        import click  # noqa: F401
        import octave_mcp.cli.main  # noqa: F401
        import octave_mcp.core.file_ops  # noqa: F401
        import octave_mcp.mcp.write  # noqa: F401
        _PRELOADED = True


def run_child(entry: str, args: dict, root: str, target: str, src_root: str, plan: dict | None = None, timeout: float = 60.0):
    """Fork; the child runs the entry point under interposition and reports through a pipe.
    Returns {"result": dict|None, "records": [...], "killed": bool, "exit": int}."""
    preload()
    rfd, wfd = os.pipe()
    sys.stdout.flush()
    sys.stderr.flush()
    pid = os.fork()
    if pid == 0:
        code = 0
        try:
            _o["os.close"](rfd)
            ip = Interposer(root, target, src_root, plan, log_fd=wfd).install()
            ip.arm()
            try:
                res = call_entry(entry, args)
            finally:
                ip.disarm()
            _o["os.write"](wfd, ("R " + json.dumps(res) + "\n").encode())
        except BaseException as e:  # harness problem inside the child
            try:
                import traceback
                _o["os.write"](wfd, ("X " + json.dumps({"exc": type(e).__name__, "msg": str(e)[:300],
                                                        "tb": traceback.format_exc()[-1500:]}) + "\n").encode())
            except BaseException:
                pass
            code = 3
        finally:
            _o["os._exit"](code)
    _o["os.close"](wfd)
    chunks = []
    while True:
        b = _o["os.read"](rfd, 65536)
        if not b:
            break
        chunks.append(b)
    _o["os.close"](rfd)
    _pid, status = os.waitpid(pid, 0)
    exitcode = os.waitstatus_to_exitcode(status)
    recs: dict[tuple, dict] = {}
    order = []
    result, harness_error, killed = None, None, False
    for line in b"".join(chunks).decode().split("\n"):
        if not line:
            continue
        tag, payload = line[0], json.loads(line[2:])
        if tag in ("B", "E", "K"):
            key = (payload["w"], payload["k"])
            if key not in recs:
                order.append(key)
            recs[key] = payload
            if tag == "K":
                killed = True
        elif tag == "R":
            result = payload
        elif tag == "X":
            harness_error = payload
    return {"result": result, "records": [recs[k] for k in order], "killed": killed or exitcode == 137, "exit": exitcode,
            "harness_error": harness_error}


def run_inproc(entry: str, args: dict, root: str, target: str, src_root: str, plan: dict | None = None):
    """Same as run_child but without a fork (for plans that do not kill): the interposer is installed, the entry point
    called, everything restored; handles the run leaked (a fault before close) are closed afterwards."""
    preload()
    plan = plan or {}
    if plan.get("kill") is not None:
        raise ValueError("kill plans need a child process")
    ip = Interposer(root, target, src_root, plan).install()
    res, herr = None, None
    try:
        ip.arm()
        try:
            res = call_entry(entry, args)
        finally:
            ip.disarm()
    except BaseException as e:
        if isinstance(e, (KeyboardInterrupt, SystemExit)):
            raise
        import traceback
        herr = {"exc": type(e).__name__, "msg": str(e)[:300], "tb": traceback.format_exc()[-1500:]}
    finally:
        ip.uninstall()
        for fd in list(ip.tracked_fds):
            try:
                _o["os.close"](fd)
            except OSError:
                pass
    return {"result": res, "records": list(ip.records), "killed": False, "exit": 0, "harness_error": herr}


# ------------------------------------------------------------------------------------------------------
# Two (or more) writers in threads, file-system calls gated by a deterministic scheduler
# ------------------------------------------------------------------------------------------------------

class Scheduler:
    """Grants one *model step* (group of calls) at a time, in the order of `schedule` (list of writer ids).
    Turns of finished writers are skipped; when the schedule is exhausted the unfinished writer with the
    lowest id runs.  A writer holds the turn from the gate it passed until it reaches its next gate or
    finishes, so exactly one writer runs at any time: the execution is a deterministic interleaving."""

    def __init__(self, schedule, writers, timeout=30.0):
        self.schedule = list(schedule)
        self.pos = 0
        self.writers = set(writers)
        self.done: set = set()
        self.running = None
        self.cv = threading.Condition()
        self.timeout = timeout
        self.granted: list = []       # the realised schedule
        self.error = None

    def _next(self):
        while self.pos < len(self.schedule) and self.schedule[self.pos] in self.done:
            self.pos += 1
        if self.pos < len(self.schedule):
            return self.schedule[self.pos]
        rest = sorted(self.writers - self.done)
        return rest[0] if rest else None

    def gate(self, w, _rec=None):
        with self.cv:
            if self.running == w:
                self.running = None
                self.cv.notify_all()
            while not (self.running is None and self._next() == w):
                if not self.cv.wait(self.timeout):
                    self.error = f"scheduler timeout: writer {w} waiting at pos {self.pos}, running={self.running}, done={self.done}"
                    raise RuntimeError(self.error)
            self.running = w
            self.granted.append(w)
            if self.pos < len(self.schedule):
                self.pos += 1

    def finish(self, w):
        with self.cv:
            self.done.add(w)
            if self.running == w:
                self.running = None
            self.cv.notify_all()


def run_writers(entry: str, args_list: list, root: str, target: str, src_root: str, schedule: list, call=None):
    """Runs len(args_list) writers in threads under one interposer, gated by `schedule`.
    Returns {"results": [...], "records": [...global order...], "granted": [...]}.  To be called in a forked child
    or a pool worker (patches module attributes while it runs).  `call(entry, args)` replaces `call_entry` (an entry point
    whose result is read from process-global state such as sys.stdout needs a caller that is safe in threads)."""
    preload()
    call = call or call_entry
    n = len(args_list)
    sched = Scheduler(schedule, range(n))
    ip = Interposer(root, target, src_root, {}, gate=sched.gate).install()
    results: list = [None] * n
    errors: list = []

    def body(i):
        ip.tl.writer = i
        try:
            # the first gate: a writer does not start before the schedule lets it take its first step
            results[i] = call(entry, args_list[i])
        except BaseException as e:  # scheduler timeout or harness bug
            errors.append(f"writer {i}: {type(e).__name__}: {e}")
        finally:
            sched.finish(i)
    threads = [threading.Thread(target=body, args=(i,), daemon=True) for i in range(n)]
    ip.arm()
    try:
        for t in threads:
            t.start()
        for t in threads:
            t.join(120)
            if t.is_alive():
                errors.append("writer thread did not finish")
    finally:
        ip.disarm()
        ip.uninstall()
    return {"results": results, "records": list(ip.records), "granted": list(sched.granted), "errors": errors}


def run_in_loop(args_list: list, root: str, target: str, src_root: str):
    """All calls as tasks of ONE event loop (asyncio.gather): the calls of each task are attributed through the
    current task's name.  Returns results and the global call order."""
    import asyncio
    preload()
    from octave_mcp.mcp.write import WriteTool
    ip = Interposer(root, target, src_root, {}).install()

    class _W:
        @property
        def writer(self):
            try:
                t = asyncio.current_task()
            except RuntimeError:
                t = None
            return int(t.get_name()[1:]) if t is not None and t.get_name().startswith("w") else 0
    real_tl = ip.tl

    class _TLProxy:
        def __getattr__(self, n):
            if n == "writer":
                return _W().writer
            return getattr(real_tl, n)

        def __setattr__(self, n, v):
            setattr(real_tl, n, v)
    ip.tl = _TLProxy()
    tool = WriteTool()

    async def main():
        tasks = [asyncio.ensure_future(tool.execute(**a)) for a in args_list]
        for i, t in enumerate(tasks):
            t.set_name(f"w{i}")
        return await asyncio.gather(*tasks, return_exceptions=True)
    ip.arm()
    try:
        res = asyncio.run(main())
    finally:
        ip.disarm()
        ip.uninstall()
    out = []
    for r in res:
        if isinstance(r, BaseException):
            out.append({"status": "raised", "exc": type(r).__name__})
        else:
            codes = [e.get("code") for e in r.get("errors", [])]
            out.append({"status": r.get("status"), "code": codes[0] if codes else None, "hash": r.get("canonical_hash")})
    return {"results": out, "records": list(ip.records)}
