"""C20 (tools clause): every MCP tool call with well-typed arguments returns a JSON-serialisable envelope
carrying `status` or `validation_status` instead of raising, whatever the content argument holds.

    tools_total_failures(contents, rng, budget) -> list[dict]

calls ValidateTool, WriteTool, EjectTool and CompileGrammarTool (src/octave_mcp/mcp/) on each content string
with every format / mode / flag combination (well-typed arguments only; write targets inside a fresh temporary
directory that is removed afterwards) and returns one record per failing call:

    {"tool": "eject", "args": {...},                 exact keyword arguments (write targets as "$TMP/<name>")
     "why": "raised TypeError: ...", "why_class": "raise" | "not-json" | "no-status",
     "replay": "<python one-liner>", "known": "F33" | None}

`budget` = maximum number of tool calls overall (None = the full product for every content).  When the full
product does not fit, every content still gets the *core* combinations (each format x mode of eject, each format
of compile_grammar, each single flag of validate / write) and the rest of its share is drawn from the full
product with `rng`; nothing depends on wall-clock time.

Known-finding class predicates (input-based, narrow) live here too: `eject_json_holographic` (F33),
`eject_json_meta_nested_block` (F52).
"""
from __future__ import annotations

import asyncio
import itertools
import json
import os
import shutil
import tempfile

PROFILES = ["STRICT", "STANDARD", "LENIENT", "ULTRA"]
EJECT_FORMATS = ["octave", "json", "yaml", "markdown", "gbnf"]
EJECT_MODES = ["canonical", "authoring", "executive", "developer"]
GRAMMAR_FORMATS = ["gbnf", "json_schema"]
SCHEMAS = ["META", "SKILL", "TEST_HOLOGRAPHIC", "NOPE"]        # builtin dict, packaged files, unknown
V_FLAGS = ["fix", "diff_only", "compact", "grammar_hint", "debug_grammar"]
W_FLAGS = ["lenient", "corrections_only", "grammar_hint", "debug_grammar"]


# ---------------------------------------------------------------------------------------------
# call enumeration
# ---------------------------------------------------------------------------------------------

def _validate_calls(content):
    core, full = [], []
    for schema in SCHEMAS:
        for profile in PROFILES:
            for bits in itertools.product([False, True], repeat=len(V_FLAGS)):
                a = {"content": content, "schema": schema, "profile": profile, **dict(zip(V_FLAGS, bits))}
                full.append(("validate", a))
    for schema in SCHEMAS[:2] + SCHEMAS[-1:]:
        core.append(("validate", {"content": content, "schema": schema}))
        for f in V_FLAGS:
            core.append(("validate", {"content": content, "schema": schema, f: True}))
    for p in PROFILES:
        core.append(("validate", {"content": content, "schema": "META", "profile": p, "compact": True}))
    return core, full


def _write_calls(content):
    core, full = [], []
    for schema in [None] + SCHEMAS:
        for bits in itertools.product([False, True], repeat=len(W_FLAGS)):
            for policy in ("error", "salvage"):
                a = {"target_path": "$TMP/fresh", "content": content, **dict(zip(W_FLAGS, bits)), "parse_error_policy": policy}
                if schema is not None:
                    a["schema"] = schema
                full.append(("write", a))
    core.append(("write", {"target_path": "$TMP/fresh", "content": content}))
    for f in W_FLAGS:
        core.append(("write", {"target_path": "$TMP/fresh", "content": content, "schema": "META", f: True}))
    core.append(("write", {"target_path": "$TMP/fresh", "content": content, "schema": "SKILL", "lenient": True, "parse_error_policy": "salvage"}))
    # the other two modes: the content is what is already in the file
    core.append(("write", {"target_path": "$TMP/existing", "_existing": content}))                              # normalize
    core.append(("write", {"target_path": "$TMP/existing", "_existing": content, "changes": {"ZZ": 1}, "schema": "META"}))
    core.append(("write", {"target_path": "$TMP/existing", "_existing": content, "content": content, "lenient": True}))   # overwrite
    return core, full


def _eject_calls(content):
    full = [("eject", {"content": content, "schema": s, "format": f, "mode": m})
            for f in EJECT_FORMATS for m in EJECT_MODES for s in ("META",)]
    return list(full), full + [("eject", {"content": content, "schema": "NOPE", "format": f}) for f in EJECT_FORMATS]


def _grammar_calls(content):
    full = [("grammar", {"content": content, "format": f}) for f in GRAMMAR_FORMATS] + [("grammar", {"content": content})]
    return list(full), full


def calls_for(content, rng, share):
    """Calls for one content string: all core calls + up to `share - len(core)` others drawn with rng
    (share None = full product)."""
    core, extra = [], []
    for fn in (_validate_calls, _write_calls, _eject_calls, _grammar_calls):
        c, f = fn(content)
        core += c
        extra += f
    seen = {json.dumps(c, sort_keys=True, ensure_ascii=False) for c in core}
    extra = [c for c in extra if json.dumps(c, sort_keys=True, ensure_ascii=False) not in seen]
    if share is None:
        return core + extra
    k = max(0, share - len(core))
    if k >= len(extra):
        return core + extra
    return core + rng.sample(extra, k)


# ---------------------------------------------------------------------------------------------
# execution
# ---------------------------------------------------------------------------------------------

def _tool(name):
    if name == "validate":
        from octave_mcp.mcp.validate import ValidateTool
        return ValidateTool()
    if name == "write":
        from octave_mcp.mcp.write import WriteTool
        return WriteTool()
    if name == "eject":
        from octave_mcp.mcp.eject import EjectTool
        return EjectTool()
    if name == "grammar":
        from octave_mcp.mcp.compile_grammar import CompileGrammarTool
        return CompileGrammarTool()
    raise ValueError(name)


class _Targets:
    """Materialises "$TMP/…" placeholders inside a private temporary directory."""

    def __init__(self):
        self.dir = tempfile.mkdtemp(prefix="verif-tools-total-")
        self.n = 0

    def materialise(self, args):
        a = dict(args)
        existing = a.pop("_existing", None)
        tp = a.get("target_path")
        if isinstance(tp, str) and tp.startswith("$TMP/"):
            self.n += 1
            p = os.path.join(self.dir, f"{tp[5:]}{self.n:06d}.oct.md")
            if existing is not None:
                with open(p, "w", encoding="utf-8", newline="") as f:
                    f.write(existing)
            a["target_path"] = p
        return a

    def close(self):
        shutil.rmtree(self.dir, ignore_errors=True)


_LOOP = None
_LOOP_PID = None


def _loop():
    """One event loop per process (asyncio.run would build and tear down a loop — sockets, epoll — per call)."""
    global _LOOP, _LOOP_PID
    if _LOOP is None or _LOOP_PID != os.getpid() or _LOOP.is_closed():
        _LOOP = asyncio.new_event_loop()
        _LOOP_PID = os.getpid()
    return _LOOP


def execute(tool, args):
    """Run one tool call.  Returns ("ok", envelope) or ("raise", "<Type>: msg")."""
    try:
        return "ok", _loop().run_until_complete(_tool(tool).execute(**args))
    except BaseException as e:  # noqa: BLE001 - the property gives the tools no licence to raise anything
        if isinstance(e, (KeyboardInterrupt, SystemExit)):
            raise
        return "raise", f"{type(e).__name__}: {str(e)[:200]}"


def judge(outcome, value):
    """The C20 tools clause on one result: None if it holds, else (why_class, why)."""
    if outcome == "raise":
        return "raise", f"raised {value}"
    if not isinstance(value, dict):
        return "no-status", f"returned {type(value).__name__}, not an envelope dict"
    try:
        json.dumps(value)
    except Exception as e:  # noqa: BLE001
        return "not-json", f"envelope is not json.dumps-able: {type(e).__name__}: {str(e)[:160]}"
    if "status" not in value and "validation_status" not in value:
        return "no-status", "envelope carries neither status nor validation_status"
    return None


def replay_snippet(tool, args):
    cls = {"validate": "octave_mcp.mcp.validate.ValidateTool", "write": "octave_mcp.mcp.write.WriteTool",
           "eject": "octave_mcp.mcp.eject.EjectTool", "grammar": "octave_mcp.mcp.compile_grammar.CompileGrammarTool"}[tool]
    mod, c = cls.rsplit(".", 1)
    a = {k: v for k, v in args.items() if k != "_existing"}
    pre = ""
    if "_existing" in args:
        pre = f"open({args.get('target_path')!r}.replace('$TMP', T), 'w', encoding='utf-8', newline='').write({args['_existing']!r}); "
    return (f"import asyncio, json, tempfile; from {mod} import {c}; T = tempfile.mkdtemp(); {pre}"
            f"a = {a!r}; a = {{k: (v.replace('$TMP', T) + '.oct.md' if k == 'target_path' else v) for k, v in a.items()}}; "
            f"print(json.dumps(asyncio.run({c}().execute(**a)))[:400])")


# ---------------------------------------------------------------------------------------------
# known-finding class predicates (input based)
# ---------------------------------------------------------------------------------------------

def _holds_holographic(value):
    from octave_mcp.core.ast_nodes import HolographicValue, InlineMap, ListValue
    if isinstance(value, HolographicValue):
        return True
    if isinstance(value, ListValue):
        return any(_holds_holographic(v) for v in value.items)
    if isinstance(value, InlineMap):
        return any(_holds_holographic(v) for v in value.pairs.values())
    return False


def eject_json_holographic(tool, args) -> bool:
    """F33: octave_eject(format="json") on content whose *projected* document holds a HolographicValue
    (`["example"∧CONSTRAINT→§TARGET]`) in META or in an assignment of a top-level key / block — exactly the
    values eject._ast_to_dict copies into the dict it hands to json.dumps."""
    if tool != "eject" or args.get("format") != "json" or not isinstance(args.get("content"), str):
        return False
    from octave_mcp.core.ast_nodes import Assignment, Block
    from octave_mcp.core.parser import parse
    from octave_mcp.core.projector import project
    try:
        doc = project(parse(args["content"]), mode=args.get("mode", "canonical")).filtered_doc
    except Exception:  # noqa: BLE001
        return False

    def block(b):
        for ch in b.children:
            if isinstance(ch, Assignment) and _holds_holographic(ch.value):
                return True
            if isinstance(ch, Block) and block(ch):
                return True
        return False

    if doc.meta and any(_holds_holographic(v) for v in doc.meta.values()):
        return True
    for s in doc.sections:
        if isinstance(s, Assignment) and _holds_holographic(s.value):
            return True
        if isinstance(s, Block) and block(s):
            return True
    return False


def _is_ast_value(value):
    from octave_mcp.core.ast_nodes import HolographicValue, InlineMap, ListValue, LiteralZoneValue
    return isinstance(value, (HolographicValue, InlineMap, ListValue, LiteralZoneValue))


def _dict_holds_ast_value(d):
    for v in d.values():
        if isinstance(v, dict):
            if _dict_holds_ast_value(v):
                return True
        elif _is_ast_value(v):
            return True
    return False


def eject_json_meta_nested_block(tool, args) -> bool:
    """F52: octave_eject(format="json") on content whose META holds a *nested block* (kept by the parser as a plain
    dict) with a list / inline map / holographic / literal-zone value inside: eject._convert_value does not descend
    into plain dicts, so the AST value object reaches json.dumps."""
    if tool != "eject" or args.get("format") != "json" or not isinstance(args.get("content"), str):
        return False
    from octave_mcp.core.parser import parse
    from octave_mcp.core.projector import project
    try:
        doc = project(parse(args["content"]), mode=args.get("mode", "canonical")).filtered_doc
    except Exception:  # noqa: BLE001
        return False
    return bool(doc.meta) and any(isinstance(v, dict) and _dict_holds_ast_value(v) for v in doc.meta.values())


KNOWN_CLASSES = {"F33": eject_json_holographic, "F52": eject_json_meta_nested_block}


def classify(tool, args):
    for fid, pred in KNOWN_CLASSES.items():
        try:
            if pred(tool, args):
                return fid
        except Exception:  # noqa: BLE001
            pass
    return None


# ---------------------------------------------------------------------------------------------
# entry point
# ---------------------------------------------------------------------------------------------

def tools_total_failures(contents, rng, budget=None):
    """See module docstring.  Deterministic for a given (contents, rng state, budget)."""
    contents = list(contents)
    if not contents:
        return []
    share = None if budget is None else max(1, budget // len(contents))
    targets = _Targets()
    failures = []
    stats = {"calls": 0, "by_tool": {}}
    try:
        for content in contents:
            for tool, args in calls_for(content, rng, share):
                real = targets.materialise(args)
                outcome, value = execute(tool, real)
                stats["calls"] += 1
                stats["by_tool"][tool] = stats["by_tool"].get(tool, 0) + 1
                bad = judge(outcome, value)
                if bad is not None:
                    failures.append({"tool": tool, "args": args, "why_class": bad[0], "why": f"octave_{tool}: {bad[1]}",
                                     "replay": replay_snippet(tool, args), "known": classify(tool, real)})
    finally:
        targets.close()
    tools_total_failures.last_stats = stats
    return failures


def replay(record):
    """Re-execute the exact call of a failure record; returns (why_class, why) or None when it now holds."""
    targets = _Targets()
    try:
        outcome, value = execute(record["tool"], targets.materialise(record["args"]))
        return judge(outcome, value)
    finally:
        targets.close()
