"""C19 worker functions (module level so that vlib.pmap can ship them to processes)."""
from __future__ import annotations

import os
import random
import shutil
import sys

from harness import paths_fs as P


def _ro_prefixes():
    import vlib
    return [str(vlib.SRC), sys.prefix, sys.base_prefix, "/venv", "/usr/lib", "/usr/share", "/etc", "/dev", "/proc"]


def make_spec(kind, seed):
    if kind == "base":
        return P.base_spec()
    return P.random_spec(random.Random(seed))


def run_paths_chunk(job):
    """job = {kind, seed, paths:[str], tools:bool, tag}.  Returns
       {root, cwd, nodes, results:[{p, cls, val:{copy:[ok,reason]}, eps:{name:{refused,codes,raise,in_sb,outside,foreign,changed,out_changed}}}]}"""
    P.install_hook()
    top, root = P.new_root(str(job.get("tag", "w")))
    old_cwd = os.getcwd()
    ro = _ro_prefixes()
    try:
        spec = make_spec(job["kind"], job["seed"])
        P.build_tree(root, spec)
        cwd = root + "/sb"
        os.chdir(cwd)
        nodes = P.model_nodes(root, P.snapshot(root))
        snap0 = P.snapshot(top)
        sbrel = os.path.relpath(cwd, top)
        eps = P.entry_points(False) if job.get("tools") else []
        results = []
        for p0 in job["paths"]:
            p = p0.replace("{SB}", cwd)
            cls = P.classify_path(cwd, p)
            rec = {"p": p0, "cls": cls, "val": P.run_validators(p), "eps": {}}
            drive = P.safe_to_drive(top, cwd, p)
            rec["driven"] = drive
            for name, fn in eps if drive else []:
                if name == "cli_write" and "\x00" in p:
                    continue
                with P.Trace() as t:
                    try:
                        r = fn(p)
                        raised = None
                    except BaseException as e:  # noqa: BLE001
                        if isinstance(e, (KeyboardInterrupt, MemoryError)):
                            raise
                        r, raised = None, f"{type(e).__name__}: {str(e)[:60]}"
                in_sb, outside, foreign = P.judge_events(t.events, root, ro)
                snap1 = P.snapshot(top)
                changed = sorted(k for k in set(snap0) | set(snap1) if snap0.get(k) != snap1.get(k))
                rec["eps"][name] = {
                    "refused": bool(raised) or P._tool_refused(r), "codes": P._codes(r) if r else [], "raise": raised,
                    "in_sb": in_sb[:6], "outside": outside[:6], "foreign": foreign[:6],
                    "changed": changed[:6], "out_changed": [k for k in changed if not (k == sbrel or k.startswith(sbrel + "/"))][:6],
                }
                if changed:
                    os.chdir(top)
                    P.wipe(top)
                    os.makedirs(root)
                    P.build_tree(root, spec)
                    os.chdir(cwd)
            results.append(rec)
        return {"root": root, "cwd": cwd, "nodes": nodes, "results": results}
    finally:
        os.chdir(old_cwd)
        shutil.rmtree(top, ignore_errors=True)
