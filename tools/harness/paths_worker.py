"""C19 worker functions (module level so that vlib.pmap can ship them to processes)."""
from __future__ import annotations

import os
import random
import re
import shutil
import sys

from harness import paths_fs as P


def _ro_prefixes():
    import vlib
    return [str(vlib.SRC), sys.prefix, sys.base_prefix, "/venv", "/usr/lib", "/usr/share", "/etc", "/dev", "/proc"]


def make_spec(kind, seed):
    if kind == "base":
        return P.base_spec()
    return P.random_spec(random.Random(seed))


def _warm_up(eps, top, root, spec, cwd):
    """call every entry point once on an acceptable path so that lazy imports (and their .pyc writes) happen outside the trace"""
    for _name, fn in eps:
        try:
            fn("warm_up.md")
        except Exception:  # noqa: BLE001
            pass
    os.chdir(top)
    P.wipe(top)
    os.makedirs(root)
    P.build_tree(root, spec)
    os.chdir(cwd)


def run_paths_chunk(job):
    """job = {kind, seed, paths:[str], tools:bool, tag}.  Returns
       {root, cwd, nodes, results:[{p, cls, val:{copy:[ok,reason]}, eps:{name:{refused,codes,raise,in_sb,outside,foreign,changed,out_changed}}}]}"""
    P.install_hook()
    sys.dont_write_bytecode = True
    top, root = P.new_root(str(job.get("tag", "w")))
    old_cwd = os.getcwd()
    ro = _ro_prefixes()
    try:
        spec = make_spec(job["kind"], job["seed"])
        P.build_tree(root, spec)
        cwd = root + "/sb"
        os.chdir(cwd)
        nodes = P.model_nodes(root, P.snapshot(root))
        snap0 = P.snapshot(top)
        sbrel = os.path.relpath(cwd, top)
        eps = P.entry_points(False) if job.get("tools") else []
        if eps:
            _warm_up(eps, top, root, spec, cwd)
        def rebuild():
            os.chdir(top)
            P.wipe(top)
            os.makedirs(root)
            P.build_tree(root, spec)
            os.chdir(cwd)
        results = [_observe_path(p0, cwd, top, root, ro, eps, snap0, sbrel, rebuild) for p0 in job["paths"]]
        return {"root": root, "cwd": cwd, "nodes": nodes, "results": results}
    finally:
        os.chdir(old_cwd)
        shutil.rmtree(top, ignore_errors=True)


def _observe_path(p0, cwd, top, root, ro, eps, snap0, sbrel, rebuild):
    """One path string in the CURRENT layout: classification (independent reading), the three validators, every entry point
    under the audit hook with before/after snapshots.  `rebuild()` restores the layout after a call that changed the tree."""
    p = p0.replace("{SB}", cwd)
    cls = P.classify_path(cwd, p)
    rec = {"p": p0, "cls": cls, "val": P.run_validators(p), "eps": {}}
    drive = P.safe_to_drive(top, cwd, p)
    rec["driven"] = drive
    for name, fn in eps if drive else []:
        if name == "cli_write" and "\x00" in p:
            continue
        with P.Trace() as t:
            try:
                r = fn(p)
                raised = None
            except BaseException as e:  # noqa: BLE001
                if isinstance(e, (KeyboardInterrupt, MemoryError)):
                    raise
                r, raised = None, f"{type(e).__name__}: {str(e)[:60]}"
        in_sb, outside, foreign = P.judge_events(t.events, root, ro)
        snap1 = P.snapshot(top)
        changed = sorted(k for k in set(snap0) | set(snap1) if snap0.get(k) != snap1.get(k))
        rec["eps"][name] = {
            "refused": bool(raised) or P._tool_refused(r), "codes": P._codes(r) if r else [], "raise": raised,
            "in_sb": in_sb[:6], "outside": outside[:6], "foreign": foreign[:6],
            "changed": changed[:6], "out_changed": [k for k in changed if not (k == sbrel or k.startswith(sbrel + "/"))][:6],
        }
        if changed:
            rebuild()
    return rec


# --------------------------------------------------------------------------------------------
# sequences of calls in ONE process with a layout change between the calls
# --------------------------------------------------------------------------------------------

def _flip_text(root, loc, kind):
    """link text of an override `kind` at <root>/sb/<loc> (relative texts are relative to the directory holding the link)."""
    k = loc.count("/")
    return {"link-out-abs": root + "/out", "link-out-rel": "../" * (k + 1) + "out", "link-in": "../" * k + "d-private",
            "flink-out": root + "/out/secret.md", "flink-in": "../" * k + "g.oct.md", "dangling": root + "/out/missing.md"}[kind]


def apply_overrides(root, overrides):
    """overrides: {loc relative to sb: kind}; kinds: dir | file | absent | link-out-abs | link-out-rel | link-in | flink-out | flink-in |
    dangling.  Whatever the base tree has at the location is replaced by an object of that kind AT THE SAME ABSOLUTE PATH."""
    for loc, kind in overrides.items():
        q = root + "/sb/" + loc
        par = os.path.dirname(q)
        if not os.path.isdir(par) or os.path.realpath(par) != par:
            continue      # an earlier override replaced a directory above this location: nothing to realise here in this layout
        if os.path.islink(q) or os.path.isfile(q):
            os.unlink(q)
        elif os.path.isdir(q):
            shutil.rmtree(q)
        if kind == "dir":
            os.makedirs(q)
            with open(q + "/f.md", "w", encoding="utf-8") as f:
                f.write(P.OCT)
        elif kind == "file":
            with open(q, "w", encoding="utf-8") as f:
                f.write(P.OCT)
        elif kind != "absent":
            os.symlink(_flip_text(root, loc, kind), q)


def run_sequence_chunk(job):
    """job = {kind, seed, seqs:[[step,...]], tag}; step = ["call", path string] | ["flip", loc, kind | "orig"].
    Every sequence runs on its own root (same absolute paths throughout the sequence), all of them in this one process with
    the same tool instances — what a long-running server does.  Each call is observed exactly like a path of run_paths_chunk,
    against the layout of that moment.  Returns {results: [{seq, calls: [{step, layout, rec}], layouts: [{cwd, nodes}]}]}."""
    P.install_hook()
    sys.dont_write_bytecode = True
    ro = _ro_prefixes()
    old_cwd = os.getcwd()
    results = []
    try:
        for sidx, steps in enumerate(job["seqs"]):
            top, root = P.new_root(f"{job.get('tag', 'q')}{sidx}")
            try:
                spec = make_spec(job["kind"], job["seed"])
                P.build_tree(root, spec)
                cwd = root + "/sb"
                os.chdir(cwd)
                sbrel = os.path.relpath(cwd, top)
                eps = P.entry_points(False)
                _warm_up(eps, top, root, spec, cwd)
                overrides = {}

                def rebuild():
                    os.chdir(top)
                    P.wipe(top)
                    os.makedirs(root)
                    P.build_tree(root, spec)
                    apply_overrides(root, overrides)
                    os.chdir(cwd)
                snap0 = P.snapshot(top)
                layouts = [{"cwd": cwd, "nodes": P.model_nodes(root, P.snapshot(root))}]
                calls = []
                for i, st in enumerate(steps):
                    if st[0] == "flip":
                        overrides.pop(st[1], None)
                        if st[2] != "orig":          # "orig": what the base tree has there
                            overrides[st[1]] = st[2]
                        rebuild()
                        snap0 = P.snapshot(top)
                        layouts.append({"cwd": cwd, "nodes": P.model_nodes(root, P.snapshot(root))})
                    else:
                        calls.append({"step": i, "layout": len(layouts) - 1,
                                      "rec": _observe_path(st[1], cwd, top, root, ro, eps, snap0, sbrel, rebuild)})
                results.append({"seq": steps, "calls": calls, "layouts": layouts})
            finally:
                os.chdir(old_cwd)
                shutil.rmtree(top, ignore_errors=True)
        return {"results": results}
    finally:
        os.chdir(old_cwd)


# --------------------------------------------------------------------------------------------
# schema names
# --------------------------------------------------------------------------------------------

SCHEMA_FILES = ["specs/schemas/a.oct.md", "specs/schemas/A_.oct.md", "specs/schemas/a0.oct.md", "specs/schemas/AA.oct.md", "specs/schemas/aa.oct.md",
                "src/octave_mcp/resources/specs/schemas/a_.oct.md", "src/octave_mcp/resources/specs/schemas/a.oct.md",
                "specs/secret.oct.md", "secret.oct.md", "a.oct.md", "specs/schemas/sub/a.oct.md", "specs/a.oct.md", "specs/schemas/a\n.oct.md"]


def expected_search_dirs(cwd):
    """independent evaluation of the four directories named in Gen.schemaSearchOrder."""
    import octave_mcp.schemas.loader as LD
    pkg = os.path.dirname(os.path.dirname(os.path.abspath(LD.__file__)))
    cands = [pkg + "/resources/specs/schemas", cwd + "/src/octave_mcp/resources/specs/schemas", cwd + "/specs/schemas", pkg + "/schemas/builtin"]
    return [d for d in cands if os.path.exists(d)]


def run_schema_chunk(job):
    """job = {names:[str], tag}.  For every name: result kind, paths stat'ed, paths opened (through the audit hook)."""
    P.install_hook()
    top, root = P.new_root(str(job.get("tag", "s")))
    old_cwd = os.getcwd()
    import octave_mcp.schemas.loader as LD
    real_stat = os.stat
    stats = []

    def rec_stat(path, *a, **k):
        if P._ON[0]:
            try:
                stats.append(os.fsdecode(os.fspath(path)))
            except Exception:  # noqa: BLE001
                stats.append(repr(path))
        return real_stat(path, *a, **k)

    try:
        cwd = root + "/proj"
        os.makedirs(cwd)
        for rel in SCHEMA_FILES:
            fp = os.path.join(cwd, rel)
            os.makedirs(os.path.dirname(fp), exist_ok=True)
            with open(fp, "w", encoding="utf-8") as f:
                f.write(P.OCT)
        os.chdir(cwd)
        try:
            LD.load_schema_by_name("META")
        except Exception:  # noqa: BLE001
            pass
        dirs_impl = [str(d) for d in LD.get_schema_search_paths()]
        dirs_expected = expected_search_dirs(cwd)
        nodes = P.model_nodes(root, P.snapshot(root))
        seen = {tuple(n[0]) for n in nodes}
        for d in dirs_impl:
            if P.inside(d, root):
                continue
            comps = [c for c in d.split("/") if c]
            for i in range(1, len(comps) + 1):
                if tuple(comps[:i]) not in seen:
                    seen.add(tuple(comps[:i]))
                    nodes.append([comps[:i], "d"])
            for n in sorted(os.listdir(d)):
                full = os.path.join(d, n)
                nodes.append([comps + [n], "d" if os.path.isdir(full) else "f"])
        os.stat = rec_stat
        results = []
        for name in job["names"]:
            stats.clear()
            with P.Trace() as t:
                try:
                    r = LD.load_schema_by_name(name)
                    kind = "none" if r is None else "schema"
                except Exception as e:  # noqa: BLE001
                    kind = "raise:" + type(e).__name__
            results.append({"n": name, "kind": kind, "stat": list(stats), "open": [[k, p, rp] for (k, p, rp) in t.events]})
        return {"cwd": cwd, "dirs_impl": dirs_impl, "dirs_expected": dirs_expected, "nodes": nodes, "results": results}
    finally:
        os.stat = real_stat
        os.chdir(old_cwd)
        shutil.rmtree(top, ignore_errors=True)


# --------------------------------------------------------------------------------------------
# frozen references
# --------------------------------------------------------------------------------------------

def frozen_setup(cache, with_default):
    import hashlib
    os.makedirs(cache)
    c1, c2, c3 = "GOOD-STANDARD\n", "OTHER-STANDARD\n", "DIRECTORY\n"
    d = {k: hashlib.sha256(v.encode()).hexdigest() for k, v in (("good", c1), ("tampered", c2), ("dir", c3))}
    with open(f"{cache}/{d['good'][:16]}.oct.md", "w") as f:
        f.write(c1)
    with open(f"{cache}/{d['tampered'][:16]}.oct.md", "w") as f:
        f.write("tampered\n")
    os.makedirs(f"{cache}/{d['dir'][:16]}.oct.md")
    if with_default:
        with open(f"{cache}/default.oct.md", "w") as f:
            f.write(c1)
    d["missing"] = hashlib.sha256(b"nothing").hexdigest()
    d["collide"] = d["good"][:16] + d["missing"][16:]          # same file name as `good`, different digest
    d["collide_tail"] = d["good"][:63] + ("0" if d["good"][63] != "0" else "1")
    return d


def run_frozen_chunk(job):
    """job = {refs:[template str with {good},{tampered},... placeholders], with_default:bool}"""
    import hashlib
    P.install_hook()
    top, root = P.new_root("f")
    old_cwd = os.getcwd()
    from pathlib import Path

    from octave_mcp.core import hydrator as HY
    try:
        P.build_tree(root, [("out", "d", None), ("out/secret.md", "f", "SECRET-1\n"), ("out/secret.oct.md", "f", "SECRET-2\n"),
                            ("sb", "d", None), ("sb/deadbeefcafe0.oct.md", "f", "SECRET-5\n")])
        cache = root + "/sb/cache"
        dg = frozen_setup(cache, job["with_default"])
        os.chdir(root + "/sb")
        snap = P.snapshot(root)
        nodes = []
        for comps, n in P.model_nodes(root, snap):
            if n == "f":
                rel = os.path.relpath("/" + "/".join(comps), root)
                n = {"f": snap[rel][1].decode("utf-8")}
            nodes.append([comps, n])
        htab = [[v[1].decode("utf-8"), hashlib.sha256(v[1]).hexdigest()] for v in snap.values() if v[0] == "f"]
        results = []
        for tmpl in job["refs"]:
            ref = re.sub(r"\{good@(\d+)=(.)\}", lambda m: dg["good"][:int(m.group(1))] + m.group(2) + dg["good"][int(m.group(1)) + 1:], tmpl, flags=re.S)
            for k, v in dg.items():
                ref = ref.replace("{" + k + "}", v).replace("{" + k + ":U}", v.upper()).replace("{" + k + ":M}", v[:30].upper() + v[30:])
            with P.Trace() as t:
                try:
                    q = HY.resolve_hermetic_standard(ref, Path(cache))
                    res = ["ok", str(q)]
                except HY.VocabularyError as e:
                    m = str(e)
                    res = ["mismatch" if "Hash mismatch" in m else "notFound" if "not found" in m else "invalid"]
                except Exception as e:  # noqa: BLE001
                    res = ["raise", type(e).__name__]
            byts = None
            if res[0] == "ok":
                try:
                    with open(res[1], "rb") as f:
                        byts = hashlib.sha256(f.read()).hexdigest()
                except Exception:  # noqa: BLE001
                    byts = "unreadable"
            results.append({"tmpl": tmpl, "ref": ref, "res": res, "sha": byts, "open": [[k, p, rp] for (k, p, rp) in t.events]})
        return {"cache": cache, "root": root, "nodes": nodes, "H": htab, "results": results}
    finally:
        os.chdir(old_cwd)
        shutil.rmtree(top, ignore_errors=True)


# --------------------------------------------------------------------------------------------
# source URIs
# --------------------------------------------------------------------------------------------

def run_uri_chunk(job):
    """job = {kind, seed, base: relative dir below sb ('' = sb), uris:[str]}"""
    P.install_hook()
    top, root = P.new_root("u")
    old_cwd = os.getcwd()
    from pathlib import Path

    from octave_mcp.core import hydrator as HY
    ro = _ro_prefixes()
    try:
        spec = make_spec(job["kind"], job["seed"])
        P.build_tree(root, spec)
        sb = root + "/sb"
        base = sb + ("/" + job["base"] if job["base"] else "")
        os.chdir(sb)
        nodes = P.model_nodes(root, P.snapshot(root))
        realbase = os.path.realpath(base)
        results = []
        for u0 in job["uris"]:
            u = u0.replace("{SB}", sb)
            try:
                r = HY.validate_source_uri(u, Path(base))
                res = ["ok", str(r)]
            except HY.SourceUriSecurityError as e:
                m = str(e)
                res = ["absolute" if "absolute paths" in m else "outside" if "outside allowed" in m else "resolveFailed"]
            except Exception as e:  # noqa: BLE001
                res = ["raise", type(e).__name__]
            link_prefix = link_real = None
            if res[0] == "ok":
                cs = [c for c in res[1].split("/") if c]
                for i in range(1, len(cs) + 1):
                    pre = "/" + "/".join(cs[:i])
                    if os.path.islink(pre):
                        link_prefix, link_real = pre, os.path.realpath(pre)
                        break
            with P.Trace() as t:
                try:
                    sr = HY._check_single_snapshot("NS", u, "sha256:0", base_path=Path(base))
                    st = sr.status
                except Exception as e:  # noqa: BLE001
                    st = "raise:" + type(e).__name__
            in_base = [e for e in t.events if P.inside(e[2], realbase)]
            other = [list(e) for e in t.events if not P.inside(e[2], realbase)
                     and not (e[0] == "open-r" and any(P.inside(e[2], q) for q in ro))]
            results.append({"u": u0, "res": res, "snap_status": st, "opened_in_base": len(in_base), "opened_outside": other[:4],
                            "link_prefix": link_prefix, "link_real": link_real,
                            "result_real": os.path.realpath(res[1]) if res[0] == "ok" else None})
        return {"base": base, "realbase": realbase, "sb": sb, "nodes": nodes, "results": results}
    finally:
        os.chdir(old_cwd)
        shutil.rmtree(top, ignore_errors=True)


# --------------------------------------------------------------------------------------------
# the real CLI in a subprocess (thorough tier): exit code + before/after snapshot only
# --------------------------------------------------------------------------------------------

def run_cli_subprocess_chunk(job):
    """job = {kind, seed, paths:[str], cmd} — `octave write --content … -- <path>` (default) or `octave normalize f.md -o <path>` /
    `octave seal f.md -o <path>` (the CLI's other ways to name a file to write) with cwd = sandbox."""
    import subprocess
    top, root = P.new_root("c")
    try:
        spec = make_spec(job["kind"], job["seed"])
        P.build_tree(root, spec)
        cwd = root + "/sb"
        sbrel = os.path.relpath(cwd, top)
        snap0 = P.snapshot(top)
        results = []
        for p0 in job["paths"]:
            p = p0.replace("{SB}", cwd)
            if "\x00" in p or not P.safe_to_drive(top, cwd, p):
                continue
            cls = P.classify_path(cwd, p)
            cmd = job.get("cmd", "write")
            if cmd == "write":
                argv = ["/venv/bin/octave", "write", "--content", P.OCT, "--", p]
            else:
                if p.startswith("-"):
                    continue
                argv = ["/venv/bin/octave", cmd, "g.oct.md", "-o", p]
            pr = subprocess.run(argv, cwd=cwd, capture_output=True, text=True, timeout=120)
            snap1 = P.snapshot(top)
            changed = sorted(k for k in set(snap0) | set(snap1) if snap0.get(k) != snap1.get(k))
            results.append({"p": p0, "cls": cls, "rc": pr.returncode, "err": (pr.stderr or "")[-120:], "changed": changed[:6],
                            "out_changed": [k for k in changed if not (k == sbrel or k.startswith(sbrel + "/"))][:6]})
            if changed:
                P.wipe(top)
                os.makedirs(root)
                P.build_tree(root, spec)
        return {"results": results}
    finally:
        shutil.rmtree(top, ignore_errors=True)


# --------------------------------------------------------------------------------------------
# frozen references whose cache file was tampered with (reference = correct digest of the ORIGINAL bytes)
# --------------------------------------------------------------------------------------------

def frozen_originals():
    """name -> pinned bytes.  Line-ending conventions, no final newline, non-ASCII, a lone CR, and a file longer than one
    hashing chunk (8192) whose first line break sits exactly on the chunk boundary once re-encoded with CRLF."""
    import octave_mcp
    meta = open(os.path.join(os.path.dirname(octave_mcp.__file__), "schemas", "builtin", "meta.oct.md"), "rb").read().replace(b"\r\n", b"\n")
    return {"schema_lf": meta, "schema_crlf": meta.replace(b"\n", b"\r\n"), "short_nonl": b"GOOD-STANDARD",
            "short_nl": "GOOD-STANDARD é x\nSECOND LINE\n".encode("utf-8"), "lone_cr": b"A\rB\nC\r\nD\n",
            "big": b"a" * 8191 + b"\n" + b"B::1\n" * 2000}


def _sub_first(b, old, new):
    i = b.find(old)
    return b if i < 0 else b[:i] + new + b[i + len(old):]


def _sub_last(b, old, new):
    i = b.rfind(old)
    return b if i < 0 else b[:i] + new + b[i + len(old):]


def _nfd(b):
    import unicodedata
    try:
        return unicodedata.normalize("NFD", b.decode("utf-8")).encode("utf-8")
    except UnicodeDecodeError:
        return b


def _flip(b, i):
    return b if not b else b[:i] + bytes([b[i] ^ 1]) + b[i + 1:]


FROZEN_TAMPERS = {
    "none": lambda b: b,                                                          # control: the pinned bytes themselves
    # same text, other bytes
    "crlf": lambda b: b.replace(b"\r\n", b"\n").replace(b"\n", b"\r\n"),
    "lf": lambda b: b.replace(b"\r\n", b"\n"),
    "cr": lambda b: b.replace(b"\r\n", b"\n").replace(b"\n", b"\r"),
    "crcrlf": lambda b: b.replace(b"\n", b"\r\r\n"),
    "first_crlf": lambda b: _sub_first(b.replace(b"\r\n", b"\n"), b"\n", b"\r\n") if b"\r\n" not in b else _sub_first(b, b"\r\n", b"\n"),
    "last_crlf": lambda b: _sub_last(b.replace(b"\r\n", b"\n"), b"\n", b"\r\n") if b"\r\n" not in b else _sub_last(b, b"\r\n", b"\n"),
    "nl_added": lambda b: b + b"\n",
    "nl_removed": lambda b: b[:-1] if b.endswith(b"\n") else b,
    "crlf_added": lambda b: b + b"\r\n",
    "cr_added": lambda b: b + b"\r",
    "bom": lambda b: b"\xef\xbb\xbf" + b,
    "space_added": lambda b: b + b" ",
    "space_eol": lambda b: _sub_first(b, b"\n", b" \n"),
    "space_stripped": lambda b: _sub_first(b, b" \n", b"\n") if b" \n" in b else _sub_first(b, b" ", b""),
    "tab": lambda b: _sub_first(b, b" ", b"\t"),
    "nfd": _nfd,
    "case": lambda b: b[:1].swapcase() + b[1:],
    # other content
    "flip_first": lambda b: _flip(b, 0),
    "flip_mid": lambda b: _flip(b, len(b) // 2),
    "flip_last": lambda b: _flip(b, len(b) - 1),
    "trunc_1": lambda b: b[:-1],
    "trunc_half": lambda b: b[:len(b) // 2],
    "empty": lambda b: b"",
    "nul_added": lambda b: b + b"\x00",
    "doubled": lambda b: b + b,
}


def run_frozen_tamper_chunk(job):
    """job = {cases: [[original name, tamper name], ...]}.  For each case a cache directory of its own holds ONE file,
    <digest of the original>[:16].oct.md, with the tampered bytes; the reference is frozen@sha256:<digest of the ORIGINAL bytes>.
    Routes: hydrator.resolve_hermetic_standard(ref, cache) and octave_write(schema=ref) with the cache at $HOME/.octave/standards."""
    import asyncio
    import hashlib
    P.install_hook()
    sys.dont_write_bytecode = True
    top, root = P.new_root("ft")
    old_cwd = os.getcwd()
    old_home = os.environ.get("HOME")
    from pathlib import Path

    from octave_mcp.core import hydrator as HY
    from octave_mcp.mcp.write import WriteTool
    try:
        P.build_tree(root, [("out", "d", None), ("out/secret.md", "f", "SECRET-1\n"), ("sb", "d", None)])
        os.chdir(root + "/sb")
        origs = frozen_originals()
        prepared = []
        for k, (oname, tname) in enumerate(job["cases"]):
            ob = origs[oname]
            tb = FROZEN_TAMPERS[tname](ob)
            digest = hashlib.sha256(ob).hexdigest()
            cache = f"{root}/sb/tc/{k}"
            std = f"{root}/sb/home/{k}/.octave/standards"
            for d in (cache, std):
                os.makedirs(d)
                with open(f"{d}/{digest[:16]}.oct.md", "wb") as f:
                    f.write(tb)
            prepared.append((k, oname, tname, ob, tb, digest, cache, std))
        snap = P.snapshot(root)
        nodes, htab, seen = [], [], set()
        home_comps = [c for c in (root + "/sb/home").split("/") if c]
        for comps, n in P.model_nodes(root, snap):
            if comps[:len(home_comps)] == home_comps:
                continue          # the model is asked about the explicit cache directories only
            if n == "f":
                rel = os.path.relpath("/" + "/".join(comps), root)
                text = snap[rel][1].decode("utf-8", "replace")
                n = {"f": text}
                if text not in seen:
                    seen.add(text)
                    htab.append([text, hashlib.sha256(snap[rel][1]).hexdigest()])
            nodes.append([comps, n])
        tool = WriteTool()
        try:   # lazy imports outside the traces
            asyncio.run(tool.execute(target_path=f"{root}/sb/warm.oct.md", content=P.OCT, schema="META", debug_grammar=True))
        except Exception:  # noqa: BLE001
            pass
        results = []
        for (k, oname, tname, ob, tb, digest, cache, std) in prepared:
            ref = "frozen@sha256:" + digest
            with P.Trace() as t:
                try:
                    q = HY.resolve_hermetic_standard(ref, Path(cache))
                    res = ["ok", str(q)]
                except HY.VocabularyError as e:
                    m = str(e)
                    res = ["mismatch" if "Hash mismatch" in m else "notFound" if "not found" in m else "invalid"]
                except Exception as e:  # noqa: BLE001
                    res = ["raise", type(e).__name__]
            byts = None
            if res[0] == "ok":
                try:
                    with open(res[1], "rb") as f:
                        byts = hashlib.sha256(f.read()).hexdigest()
                except Exception:  # noqa: BLE001
                    byts = "unreadable"
            # the MCP tool: the cache is $HOME/.octave/standards
            os.environ["HOME"] = f"{root}/sb/home/{k}"
            try:
                r = asyncio.run(tool.execute(target_path=f"{root}/sb/w{k}.oct.md", content=P.OCT, schema=ref, debug_grammar=True))
                tool_view = {"status": r.get("status"), "validation_status": r.get("validation_status"), "schema_name": r.get("schema_name"),
                             "loaded": bool("debug_info" in r or r.get("schema_name"))}
            except Exception as e:  # noqa: BLE001
                tool_view = {"status": "raise:" + type(e).__name__, "loaded": False}
            finally:
                if old_home is None:
                    os.environ.pop("HOME", None)
                else:
                    os.environ["HOME"] = old_home
            results.append({"original": oname, "tamper": tname, "same_bytes": tb == ob, "ref": ref, "cache": cache, "digest": digest,
                            "file_sha": hashlib.sha256(tb).hexdigest(), "res": res, "sha": byts, "tool": tool_view,
                            "open": [[kk, p, rp] for (kk, p, rp) in t.events]})
        return {"root": root, "nodes": nodes, "H": htab, "results": results}
    finally:
        if old_home is None:
            os.environ.pop("HOME", None)
        else:
            os.environ["HOME"] = old_home
        os.chdir(old_cwd)
        shutil.rmtree(top, ignore_errors=True)
