"""Shared pieces of the C16 / C17 checks: sandboxes, scenarios, abstract file systems for the Lean
model, requests to the driver, and the independent reference for the pure pipeline."""
from __future__ import annotations

import hashlib
import os
import shutil
import tempfile

import vlib

SRC_ROOT = str(vlib.SRC)

DOC = "===DOC===\nMETA:\n  TYPE::X\nA::{a}\nB::\"{b}\"\n===END===\n"


def sha(text_or_bytes) -> str:
    b = text_or_bytes.encode("utf-8") if isinstance(text_or_bytes, str) else text_or_bytes
    return hashlib.sha256(b).hexdigest()


def canonical_of(content: str):
    """Independent reference for the pure pipeline in strict content mode: ('ok', text) | ('err', code)."""
    from octave_mcp.core.emitter import emit
    from octave_mcp.core.lexer import tokenize
    from octave_mcp.core.parser import parse
    try:
        tokenize(content)
    except Exception:
        return ("err", "E_TOKENIZE")
    try:
        doc = parse(content)
    except Exception:
        return ("err", "E_PARSE")
    try:
        return ("ok", emit(doc))
    except Exception:
        return ("err", "E_EMIT")


# ------------------------------------------------------------------------------------------------------
# Sandboxes
# ------------------------------------------------------------------------------------------------------

def _base():
    b = os.environ.get("VERIF_FS_TMP")
    if b:
        return b
    # tmpfs when there is one: fsync is free there, and nothing of the checks depends on a real disk
    return "/dev/shm/verif-fs" if os.path.isdir("/dev/shm") and os.access("/dev/shm", os.W_OK) else "/tmp/verif-fs"


BASE = _base()


class Sandbox:
    """root/d/<name> is the target; `missing_parent` puts it at root/m1/m2/<name> with m1 absent."""

    def __init__(self, state: dict):
        os.makedirs(BASE, exist_ok=True)
        self.root = os.path.realpath(tempfile.mkdtemp(prefix="sb", dir=BASE))
        self.state = state
        name = state.get("name", "doc.oct.md")
        if state.get("missing_parent"):
            self.parent = os.path.join(self.root, "m1", "m2")
        else:
            self.parent = os.path.join(self.root, "d")
            os.mkdir(self.parent)
        self.target = os.path.join(self.parent, name)
        if state.get("content") is not None:
            with open(self.target, "wb") as f:
                f.write(state["content"].encode("utf-8"))
            os.chmod(self.target, state.get("mode", 0o644))
        if state.get("target_is_dir"):
            os.mkdir(self.target)
        if state.get("symlink_to") is not None:
            real = os.path.join(self.root, "elsewhere.oct.md")
            with open(real, "wb") as f:
                f.write(state["symlink_to"].encode("utf-8"))
            os.symlink(real, self.target)

    def cleanup(self):
        shutil.rmtree(self.root, ignore_errors=True)

    # abstract paths for the model: root = [], d = [1], target = [1,2], temp = [1,9];
    # missing parent: m1 = [3], m2 = [3,4], target = [3,4,2], temp = [3,4,9]
    def apath(self, what: str):
        par = [3, 4] if self.state.get("missing_parent") else [1]
        return {"root": [], "parent": par, "target": par + [2], "tmp": par + [9], "tmp2": par + [8],
                "grand": par[:-1]}[what]

    def abstract_fs(self):
        st = self.state
        fs = [[[], {"dir": True}]]
        if not st.get("missing_parent"):
            fs.append([[1], {"dir": True}])
        if st.get("content") is not None:
            fs.append([self.apath("target"), {"file": st["content"], "mode": st.get("mode", 0o644), "synced": True}])
        if st.get("symlink_to") is not None:
            fs.append([self.apath("target"), {"symlink": True}])
        if st.get("target_is_dir"):
            fs.append([self.apath("target"), {"dir": True}])
        return fs

    def query(self):
        return [self.apath("target"), self.apath("tmp"), self.apath("parent"), self.apath("tmp2")]


def sweep_stale(max_age_s: float = 7200.0):
    """Remove sandboxes left behind by an aborted run (older than two hours)."""
    import time
    try:
        for n in os.listdir(BASE):
            p = os.path.join(BASE, n)
            try:
                if n.startswith("sb") and time.time() - os.lstat(p).st_mtime > max_age_s:
                    shutil.rmtree(p, ignore_errors=True)
            except OSError:
                pass
    except OSError:
        pass


def tmp_files(parent: str):
    try:
        return sorted(n for n in os.listdir(parent) if n.endswith(".tmp"))
    except OSError:
        return []


# ------------------------------------------------------------------------------------------------------
# Model calls
# ------------------------------------------------------------------------------------------------------

def model_call(sb: Sandbox, *, mode: str, base_text, dry: bool, path_ok: bool, fails_default, canon_default,
               fails_table=None, canon_table=None, tmp="tmp"):
    """CALL object of the driver protocol.  `base_text`: the text whose hash base_hash is (None = no base_hash)."""
    return {"target": sb.apath("target"), "tmp": sb.apath(tmp), "mode": mode, "baseHash": base_text, "dry": dry, "pathOk": path_ok,
            "fails": {"default": fails_default, "table": fails_table or []},
            "canon": {"default": canon_default, "table": canon_table or []}}


PROG_OF_ENTRY = {"tool": "writeTool", "atomic": "atomicWrite", "cli": "cliWrite"}


def real_result_view(res: dict | None, killed: bool):
    """(kind, code) of a real outcome in the model's vocabulary."""
    if killed or res is None:
        return ("crashed", None)
    if res["status"] == "success":
        return ("ok", None)
    if res["status"] == "raised":
        return ("raised", None)
    return ("err", res.get("code"))


def model_result_view(rep: dict):
    return (rep["res"], rep.get("code"))
