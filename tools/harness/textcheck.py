"""Shared evaluation of generated documents on the REAL code for the text-pipeline properties
(C01 C02 C03 C05 C07), plus the input streams they share: content-model documents in canonical and
lenient spellings, the repository's own documents, exhaustive short token sequences as assignment
values, and token/character-level mutations."""
from __future__ import annotations

import itertools
import json
import random

from harness import docgen as G
from harness import text as T

# 30-symbol token alphabet (C01 / C20 quantifier: "every token sequence up to a small length bound")
TOKENS = ["a", "B_c", '"s t"', "1", "-2", "3.5", "1.2.3", "true", "null", "$V", "§", "→", "->", "⊕", "+", "~", "@", "⇌", " vs ", "∧",
          "∨", "[", "]", ",", "::", ":", "\n", "\n  ", " //c", "N<q>", "X[y]", " ", "---", "True", "NULL",
          # digits that are not ASCII digits: No (superscript two; may START an identifier), Nd (Arabic-Indic three; lexes as a NUMBER),
          # Nl (Roman numeral eight; identifier body only)
          "²", "٣", "Ⅷ"]


def gen_case(seed: int, idx: int, zones=True, p=0.4):
    rng = random.Random(f"{seed}:{idx}")
    d = G.gen_doc(rng, zones=zones)
    ctext, crec = G.render(d, G.Spelling(rng, canonical=True))
    ltext, lrec = G.render(d, G.Spelling(rng, p=p, envelope=True))
    return d, ctext, crec, ltext, lrec


FAMILY_CORNERS = [(0, "raw"), (1, "esc"), (0, "esc"), (1, "raw")]


def family_spellings(seed, k: int, only=None, n_seeded: int = 2):
    """Fixed family member k (docgen.family_docs) in its canonical spelling and in deterministic corners of the spelling space:
    every applicable site non-canonical x which ASCII alias x which triple-quoted form, plus `n_seeded` seeded mixed spellings.
    -> (family, name, model, [(label, text, rewrite receipts, advisories)]) with the canonical spelling first."""
    fam, name, d = G.family_docs()[k]
    ctext, crec, cadv = G.render_full(d, G.Spelling(random.Random(0), canonical=True))
    out = [("canonical", ctext, crec, cadv)]
    for (ai, tr) in FAMILY_CORNERS:
        t, r, a = G.render_full(d, G.Spelling(random.Random(f"{seed}:fam:{k}:{ai}{tr}"), only=only, extreme=True, alias_index=ai, triple=tr))
        out.append((f"corner:alias{ai}:{tr}", t, r, a))
    for j in range(n_seeded):
        t, r, a = G.render_full(d, G.Spelling(random.Random(f"{seed}:fam:{k}:s{j}"), only=only, p=[0.5, 0.25, 0.8][j % 3]))
        out.append((f"seeded{j}", t, r, a))
    return fam, name, d, out


def family_chunk(args):
    """worker: [(seed, k, only)] -> per family member the evaluation of every spelling on the real code."""
    out = []
    for (seed, k, only) in args:
        fam, name, d, sps = family_spellings(seed, k, set(only) if only is not None else None)
        out.append({"family": fam, "name": name, "model": d, "expected": G.expected_doc(d),
                    "spellings": [{"label": lb, "text": t, "rec": r, "adv": a, "ev": eval_text(t)} for (lb, t, r, a) in sps]})
    return out


def family_args(seed, only=None):
    return [(seed, k, sorted(only) if only is not None else None) for k in range(len(G.family_docs()))]


def deep_nesting_records(pw: dict):
    """the deep_nesting advisories of a parse_with_warnings result ([kind, depth, threshold, line, column])."""
    return [x for x in pw.get("warnings", []) if x[0] == "deep_nesting"]


def zones_of(docj):
    """[(key path, content, tag, marker)] of every literal zone in an AST JSON, in document order."""
    out = []

    def val(v, path):
        if isinstance(v, dict):
            if "z" in v:
                out.append(["/".join(path), v["z"]["c"], v["z"]["t"], v["z"]["m"]])
            elif "l" in v:
                for i, x in enumerate(v["l"]):
                    val(x, path + [str(i)])
            elif "m" in v:
                for k, x in v["m"]:
                    val(x, path + [k])

    def node(n, path):
        if "a" in n:
            val(n["a"]["v"], path + [n["a"]["k"]])
        elif "b" in n:
            for c in n["b"]["ch"]:
                node(c, path + [n["b"]["k"]])
        elif "sec" in n:
            for c in n["sec"]["ch"]:
                node(c, path + ["§" + n["sec"]["id"]])
    for k, mv in docj.get("meta", []):
        if "v" in mv:
            val(mv["v"], ["META", k])
    for s in docj.get("sections", []):
        node(s, [])
    return out


def eval_text(x: str):
    """Everything the text properties observe about one input on the real code."""
    from octave_mcp.core.emitter import emit
    from octave_mcp.core.parser import parse, parse_with_warnings
    r = {"pw": T.py_parse_warn(x)}
    if "err" in r["pw"]:
        return r
    try:
        doc, _ = parse_with_warnings(x)
        c1 = emit(doc)
        r["c1"] = c1
    except BaseException as e:  # noqa: BLE001
        r["c1_err"] = f"{type(e).__name__}: {str(e)[:80]}"
        return r
    try:
        d2 = parse(c1)
        r["strict_doc"] = T.doc_to_json(d2)
        r["c2"] = emit(d2)
    except BaseException as e:  # noqa: BLE001
        r["strict_err"] = T.canon_exc(e) + [str(e)[:80]]
    return r


def eval_chunk(args):
    """worker: [(seed, idx)] -> list of per-case result dicts (real code only)."""
    out = []
    for (seed, idx, zones) in args:
        d, ctext, crec, ltext, lrec = gen_case(seed, idx, zones)
        out.append({"idx": idx, "model": d, "expected": G.expected_doc(d), "ctext": ctext, "crec": crec, "ltext": ltext, "lrec": lrec,
                    "c": eval_text(ctext), "l": eval_text(ltext)})
    return out


def eval_raw_chunk(texts):
    return [eval_text(x) for x in texts]


def token_sequences(max_len: int, rng: random.Random | None = None, sample: int | None = None):
    """`K::` + every token sequence of length <= max_len (top level and as a block child)."""
    seqs = []
    for n in range(0, max_len + 1):
        for tup in itertools.product(TOKENS, repeat=n):
            seqs.append("".join(tup))
    if sample is not None and rng is not None and len(seqs) > sample:
        seqs = rng.sample(seqs, sample)
    out = []
    for s in seqs:
        out.append("K::" + s)
        out.append("===D===\nB:\n  K::" + s + "\n  Z::1\n===END===\n")
    return out


def mutate(text: str, rng: random.Random) -> str:
    """one span-level mutation: delete / insert / duplicate / transpose."""
    if not text:
        return text
    n = len(text)
    i = rng.randrange(n)
    j = min(n, i + rng.choice([1, 1, 2, 3, 8, 20]))
    op = rng.choice(["delete", "insert", "duplicate", "transpose"])
    if op == "delete":
        return text[:i] + text[j:]
    if op == "insert":
        ins = rng.choice(TOKENS + ["\t", "`", "```", '"', '"""', "\\", "{", "}", "<", ">", "%", "===", "===END===", "===X===", "META:", "é", "́"])
        return text[:i] + ins + text[i:]
    if op == "duplicate":
        return text[:j] + text[i:j] + text[j:]
    k = min(n, j + (j - i))
    return text[:i] + text[j:k] + text[i:j] + text[k:]


def rewrite_receipts(pw: dict):
    """The receipts of a parse_with_warnings result that report a rewrite (C07 reading, DESIGN.md §7)."""
    rew = [x for x in pw.get("repairs", []) if x[0] in ("normalization", "curly_brace_annotation")]
    rew += [x for x in pw.get("warnings", []) if x[0] in ("multi_word_coalesce", "source_compile_value", "bare_line_dropped", "unclosed_list", "pattern_autoquote")]
    return rew


def firstdiff(a, b, path=""):
    if type(a) is not type(b):
        return path, a, b
    if isinstance(a, dict):
        for k in sorted(set(a) | set(b)):
            if a.get(k) != b.get(k):
                return firstdiff(a.get(k), b.get(k), path + "/" + k)
    if isinstance(a, list):
        for i, (x, y) in enumerate(zip(a, b)):
            if x != y:
                return firstdiff(x, y, path + f"/{i}")
        return path + "/len", len(a), len(b)
    return path, a, b


def short(x, n=400):
    s = x if isinstance(x, str) else json.dumps(x, ensure_ascii=False)
    return s if len(s) <= n else s[:n] + "…"
