"""Harness of the `validator` engine (properties C09, C11).

  * encoders: real AST / SchemaDefinition  ->  JSON of lean/validator/Driver.lean
  * external values (`Env`): Unicode tables, str.lower, float() of every string of a case
  * generators: schema specs, instance documents (as AST *and* as text in many spellings)
  * runners: the four entry points
  * oracles: the property statements of C11 / C09 evaluated on observed behaviour, written
    independently of the implementation and of the Lean model

Everything is deterministic given the `random.Random` passed in.
"""
from __future__ import annotations

import asyncio
import copy
import json
import math
import os
import re
import subprocess
import tempfile
import unicodedata
import zlib
from fractions import Fraction
from pathlib import Path

import vlib  # noqa: F401  (puts REPO/src on sys.path)

from octave_mcp.core import ast_nodes as A  # noqa: E402

# ---------------------------------------------------------------------------------------------
# A. encoders (implementation objects -> driver JSON)
# ---------------------------------------------------------------------------------------------


def enc_val(v):
    if v is None or isinstance(v, bool):
        return v
    if isinstance(v, int):
        return {"i": str(v)}
    if isinstance(v, float):
        return {"f": [repr(v), math.isfinite(v)]}
    if isinstance(v, str):
        return {"s": v}
    if isinstance(v, A.ListValue):
        sp = []
        for t in (v.tokens or []):
            sp += [int(getattr(t, "line", 0)), int(getattr(t, "column", 0))]
        return {"l": [enc_val(x) for x in v.items], "sp": sp}
    if isinstance(v, A.InlineMap):
        return {"m": [[k, enc_val(x)] for k, x in v.pairs.items()]}
    if isinstance(v, A.LiteralZoneValue):
        return {"z": [v.content, v.info_tag, v.fence_marker]}
    return {"o": zlib.crc32(repr(v).encode("utf-8", "surrogatepass"))}


def enc_pyval(v):
    """`_to_python_value` output."""
    if v is None or isinstance(v, bool):
        return v
    if isinstance(v, int):
        return {"i": str(v)}
    if isinstance(v, float):
        return {"f": [repr(v), math.isfinite(v)]}
    if isinstance(v, str):
        return {"s": v}
    if isinstance(v, list):
        return {"l": [enc_pyval(x) for x in v]}
    if isinstance(v, dict):
        return {"m": [[k, enc_pyval(x)] for k, x in v.items()]}
    if isinstance(v, A.LiteralZoneValue):
        return {"z": [v.content, v.info_tag, v.fence_marker]}
    return {"o": zlib.crc32(repr(v).encode("utf-8", "surrogatepass"))}


def _pos(n):
    return [int(getattr(n, "line", 0) or 0), int(getattr(n, "column", 0) or 0), list(getattr(n, "leading_comments", []) or []),
            getattr(n, "trailing_comment", None)]


def enc_node(n):
    if isinstance(n, A.Assignment):
        return {"k": "a", "p": _pos(n), "key": n.key, "v": enc_val(n.value)}
    if isinstance(n, A.Block):
        return {"k": "b", "p": _pos(n), "key": n.key, "t": n.target, "c": [enc_node(c) for c in n.children]}
    if isinstance(n, A.Section):
        return {"k": "s", "p": _pos(n), "sid": n.section_id, "key": n.key, "ann": n.annotation, "c": [enc_node(c) for c in n.children]}
    return {"k": "o", "p": _pos(n), "id": zlib.crc32(type(n).__name__.encode())}


def enc_doc(d):
    return {"p": _pos(d), "name": d.name, "meta": [[k, enc_val(v)] for k, v in d.meta.items()], "sections": [enc_node(s) for s in d.sections],
            "sep": bool(d.has_separator), "fm": d.raw_frontmatter, "tcs": list(d.trailing_comments or []), "gv": d.grammar_version}


def erase_json(j):
    """`content` on the JSON form: drop positions, comments, token slices."""
    if isinstance(j, dict):
        out = {}
        for k, v in j.items():
            if k == "p":
                out[k] = [0, 0, [], None]
            elif k in ("sp", "tcs"):
                out[k] = []
            else:
                out[k] = erase_json(v)
        return out
    if isinstance(j, list):
        return [erase_json(x) for x in j]
    return j


EXT_KINDS = {}


def enc_constraint(c, ext_ids):
    from octave_mcp.core import constraints as C
    if isinstance(c, C.RequiredConstraint):
        return {"k": "REQ"}
    if isinstance(c, C.OptionalConstraint):
        return {"k": "OPT"}
    if isinstance(c, C.EnumConstraint):
        return {"k": "ENUM", "a": list(c.allowed_values)}
    if isinstance(c, C.TypeConstraint):
        return {"k": "TYPE", "t": c.expected_type}
    ext_ids.append(c)
    return {"k": "EXT", "id": len(ext_ids) - 1}


def ext_conflicts(chain):
    """number of E999 conflicts `detect_conflicts` reports beyond REQ∧OPT (CONST-related: external)."""
    from octave_mcp.core import constraints as C
    n = len(chain.detect_conflicts())
    has_req = any(isinstance(c, C.RequiredConstraint) for c in chain.constraints)
    has_opt = any(isinstance(c, C.OptionalConstraint) for c in chain.constraints)
    return n - (1 if has_req and has_opt else 0)


def enc_schema(sd, ext_ids=None):
    """SchemaDefinition -> driver JSON.  ext_ids collects the constraint objects modelled as `ext i`."""
    ext_ids = ext_ids if ext_ids is not None else []
    fields = []
    for k, fd in sd.fields.items():
        if fd.pattern is None:
            fields.append([k, None])      # a FieldDefinition with pattern None is JSON null for the driver
            continue
        ch = fd.pattern.constraints
        c = None
        if ch is not None:
            c = {"cs": [enc_constraint(x, ext_ids) for x in ch.constraints], "xc": ext_conflicts(ch)}
        fields.append([k, {"c": c, "t": fd.pattern.target}])
    return {"name": sd.name, "fields": fields, "uf": sd.policy.unknown_fields if sd.policy else "REJECT",
            "pt": list(sd.policy.targets) if sd.policy else [], "dt": sd.default_target, "fm": bool(sd.frontmatter)}


def _strings_of(j, acc):
    if isinstance(j, str):
        acc.add(j)
    elif isinstance(j, dict):
        for k, v in j.items():
            acc.add(k)
            _strings_of(v, acc)
    elif isinstance(j, list):
        for x in j:
            _strings_of(x, acc)


def make_env(*jsons):
    """External values for every string occurring in the given JSON payloads."""
    strs = set()
    for j in jsons:
        _strings_of(j, strs)
    chars, lower, fl = {}, [], []
    for s in sorted(strs):
        for ch in s:
            if ord(ch) >= 128 and ord(ch) not in chars:
                try:
                    dec = unicodedata.decimal(ch)
                except ValueError:
                    dec = None
                chars[ord(ch)] = [ord(ch), ch.isspace(), dec]
        st = s.strip()
        for x in {s, st}:
            if any(ord(c) >= 128 for c in x):
                lower.append([x, x.lower()])
        if st:
            try:
                f = float(st)
                fl.append([st, repr(f), math.isfinite(f)])
            except (ValueError, OverflowError):
                pass
    # dedupe
    seen, lo2 = set(), []
    for a, b in lower:
        if a not in seen:
            seen.add(a)
            lo2.append([a, b])
    seen, fl2 = set(), []
    for e in fl:
        if e[0] not in seen:
            seen.add(e[0])
            fl2.append(e)
    return {"chars": sorted(chars.values()), "lower": lo2, "float": fl2}


def has_surrogate(j) -> bool:
    strs = set()
    _strings_of(j, strs)
    return any(0xD800 <= ord(c) <= 0xDFFF for s in strs for c in s)


# ---------------------------------------------------------------------------------------------
# B. schemas
# ---------------------------------------------------------------------------------------------
# A field spec is (name, example text, chain text | None, target text | None) or ("RAW", line).

FIELD_POOL = {
    "STATUS": ("STATUS", '"ACTIVE"', "REQ∧ENUM[ACTIVE,DONE,Pending]", None),
    "STATE": ("STATE", '"ACTIVE"', "OPT∧ENUM[ACTIVE,ACTIVATING,DONE]", None),
    "AMB": ("AMB", '"Ab"', "OPT∧ENUM[Ab,AB,c]", None),
    "BOTH": ("BOTH", '"a"', "OPT∧ENUM[A,B]∧ENUM[a,b]", None),
    "COUNT": ("COUNT", "1", "OPT∧TYPE[NUMBER]", None),
    "RCOUNT": ("RCOUNT", "1", "REQ∧TYPE[NUMBER]", "SELF"),
    "NE": ("NE", "1", 'OPT∧ENUM["1E5","2",Ab]∧TYPE[NUMBER]', None),
    "EN": ("EN", "1", "OPT∧TYPE[NUMBER]∧ENUM[1,2]", None),
    "PCT": ("PCT", "5", "OPT∧TYPE[NUMBER]∧RANGE[0,100]", None),
    "TOL": ("TOL", "0.001", "OPT∧TYPE[NUMBER]∧RANGE[0.0000001,0.01]", None),
    "NAME": ("NAME", '"x"', "REQ", "INDEXER"),
    "NOTE": ("NOTE", '"x"', "OPT", None),
    "TXT": ("TXT", '"x"', "OPT∧TYPE[STRING]", None),
    "FLAG": ("FLAG", "true", "OPT∧TYPE[BOOLEAN]", None),
    "TAGS": ("TAGS", "[a,b]", "OPT∧TYPE[LIST]", None),
    "TAGS2": ("TAGS2", "[a]", "OPT∧TYPE[LIST]∧MAX_LENGTH[1]", None),
    "TAGS3": ("TAGS3", "[a,b]", "OPT∧MIN_LENGTH[2]", None),
    "SLUG": ("SLUG", '"abc"', 'OPT∧REGEX["^[a-z]+$"]', None),
    "KIND": ("KIND", '"X"', "REQ∧CONST[X]", None),
    "CONFL": ("CONFL", '"x"', "REQ∧OPT", None),
    "SHORT": ("SHORT", '"abc"', "OPT∧MAX_LENGTH[3]", None),
    "DAY": ("DAY", '"2024-01-15"', "OPT∧DATE", None),
    "ROUTED": ("ROUTED", '"x"', "OPT", "NOPE"),
    "MULTI": ("MULTI", '"x"', "OPT", "SELF∨§NOPE"),
    "CUST": ("CUST", '"x"', "OPT", "CUSTOM"),
    "FREE": ("FREE", '"x"', None, None),
    "PLAIN": ("RAW", "PLAIN::justtext"),
    "TF": ("TF", '"x"', "OPT∧ENUM[true,false,NONE]", None),
    "WEIRD": ("WEIRD", '"x"', "OPT∧TYPE[FOO]", None),
    "GREEK": ("GREEK", '"x"', "OPT∧ENUM[ΑΣ,Ωμέγα,straße]", None),
    "NUMSTR": ("NUMSTR", '"x"', "OPT∧TYPE[NUMBER]∧TYPE[STRING]", None),
    "DUPNUM": ("DUPNUM", "1", "OPT∧TYPE[NUMBER]∧ENUM[1,1.0,1e0]∧TYPE[NUMBER]", None),
}


# ENUMs that hold SEVERAL spellings of one word differing only by letter case (2, 3, 4, 5 of them: even and odd counts), next to
# distinct members, in every relative position; plus a second ENUM in the chain for which the same value IS a single match.  A value
# that is a further case variant of the word matches several allowed values case-insensitively: ambiguous, never to be replaced —
# whatever the number (or parity) of the colliding spellings.  Kept apart from FIELD_POOL (C09's seeded random schemas draw from it).
CASE_ENUM_FIELDS = {
    "AMB2": ("AMB2", '"GB"', "OPT∧ENUM[mb,MB,GB]", None),
    "AMB3": ("AMB3", '"GB"', "OPT∧ENUM[mb,Mb,MB,GB]", None),
    "AMB4": ("AMB4", '"x"', "OPT∧ENUM[abc,Abc,ABC,aBC,x]", None),
    "AMB5": ("AMB5", '"Done"', "OPT∧ENUM[Done,abc,ABC,Abc,abC,aBc]", None),
    "AMB3I": ("AMB3I", '"Kb"', "REQ∧ENUM[on,kb,On,Kb,ON]", None),          # three spellings interleaved with a word that has two
    "AMB3U": ("AMB3U", '"x"', "OPT∧ENUM[ωμ,Ωμ,ΩΜ,x]", None),                # non-ASCII case pairs
    "AMB3B": ("AMB3B", '"GB"', "OPT∧ENUM[mb,Mb,MB,GB]∧ENUM[MB,GB]", None),  # ambiguous in the first ENUM, single match in the second
    "AMB33": ("AMB33", '"GB"', "OPT∧ENUM[mb,Mb,MB,gb,Gb,GB,tb]", None),     # two words with three spellings each and a unique one
}


def render_schema(spec) -> str:
    lines = [f"==={spec['name']}===", "META:", "  TYPE::SCHEMA", '  VERSION::"1.0"', ""]
    pol = []
    if spec.get("uf") is not None:
        pol.append(f"  UNKNOWN_FIELDS::{spec['uf']}")
    if spec.get("targets"):
        pol.append("  TARGETS::[" + ",".join("§" + t for t in spec["targets"]) + "]")
    if spec.get("default_target"):
        pol.append(f"  DEFAULT_TARGET::§{spec['default_target']}")
    if pol or spec.get("policy", True):
        lines += ["POLICY:", '  VERSION::"1.0"'] + pol + [""]
    lines.append("FIELDS:")
    for f in spec["fields"]:
        if f[0] == "RAW":
            lines.append("  " + f[1])
            continue
        name, ex, chain, tgt = f
        body = ex + (("∧" + chain) if chain else "") + (("→§" + tgt) if tgt else "")
        lines.append(f"  {name}::[{body}]")
    lines.append("===END===")
    return "\n".join(lines) + "\n"


def load_schema_text(text):
    from octave_mcp.core.parser import parse
    from octave_mcp.core.schema_extractor import extract_schema_from_document
    return extract_schema_from_document(parse(text))


HAND_SCHEMAS = [
    {"name": "SCHEMA_A", "uf": "REJECT", "fields": ["STATUS", "COUNT", "NAME", "NOTE"]},
    {"name": "SCHEMA_B", "uf": "WARN", "fields": ["STATE", "AMB", "RCOUNT", "TAGS", "FLAG", "TAGS2", "TAGS3"]},
    {"name": "SCHEMA_C", "uf": "IGNORE", "fields": ["BOTH", "NE", "EN", "PCT", "TOL", "TF"]},
    {"name": "SCHEMA_D", "uf": "BOGUS", "targets": ["CUSTOM"], "default_target": "RISK_LOG",
     "fields": ["STATUS", "ROUTED", "MULTI", "CUST", "FREE", "PLAIN", "KIND"]},
    {"name": "SCHEMA_E", "uf": None, "fields": ["SLUG", "CONFL", "SHORT", "DAY", "TXT", "WEIRD", "COUNT"]},
    {"name": "SCHEMA_F", "uf": "WARN", "default_target": "ELSEWHERE", "fields": ["GREEK", "NUMSTR", "DUPNUM", "STATUS"]},
    {"name": "META", "uf": "WARN", "fields": ["STATUS", "COUNT", "NAME", "STATE"]},
]

# hand schemas of C11 only (ENUMs with case-colliding members, see CASE_ENUM_FIELDS)
HAND_SCHEMAS_C11 = [
    {"name": "SCHEMA_G", "uf": "WARN", "fields": ["AMB2", "AMB3", "AMB4", "AMB5", "AMB3I", "AMB3U", "AMB3B", "AMB33", "STATUS"]},
]


def schema_spec(s):
    out = dict(s)
    out["fields"] = [(FIELD_POOL.get(f) or CASE_ENUM_FIELDS[f]) if isinstance(f, str) else f for f in s["fields"]]
    return out


def random_schema(rng, i):
    names = sorted(FIELD_POOL)
    k = rng.randint(1, 6)
    fs = rng.sample(names, k)
    return {"name": f"GEN_{i}", "uf": rng.choice(["REJECT", "WARN", "IGNORE", None]),
            "targets": rng.choice([[], [], ["CUSTOM"], ["NOPE"]]), "default_target": rng.choice([None, None, "SELF", "ELSEWHERE"]), "fields": fs}


# ---------------------------------------------------------------------------------------------
# C. instance documents: light trees -> AST and -> text
# ---------------------------------------------------------------------------------------------
# node  : ("A", key, value) | ("B", key, target|None, [node]) | ("S", sid, key, [node])
# value : None | bool | int | float | str | ("L", [value]) | ("M", [(k, value)]) | ("Z", content, info|None)


def build_value(v):
    if isinstance(v, tuple):
        if v[0] == "L":
            return A.ListValue(items=[build_value(x) for x in v[1]])
        if v[0] == "M":
            return A.InlineMap(pairs={k: build_value(x) for k, x in v[1]})
        if v[0] == "Z":
            return A.LiteralZoneValue(content=v[1], info_tag=v[2])
        raise ValueError(v)
    return v


def build_node(n):
    if n[0] == "A":
        return A.Assignment(key=n[1], value=build_value(n[2]))
    if n[0] == "B":
        return A.Block(key=n[1], target=n[2], children=[build_node(c) for c in n[3]])
    if n[0] == "S":
        return A.Section(section_id=n[1], key=n[2], children=[build_node(c) for c in n[3]])
    raise ValueError(n)


def build_doc(tree, name="DOC", meta=None):
    return A.Document(name=name, meta=dict(meta or {}), sections=[build_node(n) for n in tree])


PLAIN_WORD = re.compile(r"[A-Za-z_][A-Za-z0-9_]*\Z")
RESERVED = {"true", "false", "null", "vs", "True", "False", "TRUE", "FALSE", "Null", "NULL", "END", "META"}


def is_plain_word(s: str) -> bool:
    return bool(PLAIN_WORD.match(s)) and s not in RESERVED


def quote(s: str, triple=False) -> str:
    body = s.replace("\\", "\\\\").replace('"', '\\"').replace("\n", "\\n").replace("\t", "\\t")
    return ('"""' + body + '"""') if triple else ('"' + body + '"')


class Spelling:
    """How a light tree is written down.  Every option is a *lenient respelling*: it must not change
    the content of the document."""

    def __init__(self, indent=2, assign="::", bare_words=True, triple=False, blank=0, end=True, arrow="→",
                 comments=False, list_style="inline", trailing_ws=False, section="§"):
        self.indent, self.assign, self.bare_words, self.triple = indent, assign, bare_words, triple
        self.blank, self.end, self.arrow, self.comments, self.list_style = blank, end, arrow, comments, list_style
        self.trailing_ws, self.section = trailing_ws, section

    def describe(self):
        return {k: v for k, v in self.__dict__.items()}


CANONICAL_SPELLING = dict(indent=2, assign="::", bare_words=True, triple=False, blank=0, end=True, arrow="→", comments=False, list_style="inline")

RESPELLINGS = [
    dict(indent=4), dict(assign=" :: "), dict(assign=":: "), dict(bare_words=False), dict(triple=True, bare_words=False),
    dict(blank=1), dict(end=False), dict(arrow="->"), dict(comments=True), dict(list_style="spaced"), dict(list_style="multiline"),
    dict(trailing_ws=True), dict(section="#"),
    dict(indent=4, assign=" :: ", bare_words=False, blank=1, end=False, arrow="->", comments=True, list_style="spaced"),
    dict(indent=3, triple=True, bare_words=False, list_style="multiline", blank=2, section="#"),
]


EMPTY = ("EMPTY",)      # `KEY::` with nothing after it (text routes only: what the reader makes of it is the reader's business)


def render_value(v, sp: Spelling, depth: int, in_list=False) -> str:
    if v == EMPTY:
        return ""
    if v is None:
        return "null"
    if isinstance(v, bool):
        return "true" if v else "false"
    if isinstance(v, (int, float)):
        return repr(v)
    if isinstance(v, str):
        if sp.bare_words and is_plain_word(v):
            return v
        return quote(v, sp.triple)
    if v[0] == "L":
        items = [render_value(x, sp, depth + 1, True) for x in v[1]]
        if sp.list_style == "spaced":
            return "[ " + " , ".join(items) + " ]" if items else "[ ]"
        if sp.list_style == "multiline" and items:
            pad = " " * (sp.indent * (depth + 1))
            return "[\n" + ",\n".join(pad + i for i in items) + "\n" + " " * (sp.indent * depth) + "]"
        return "[" + ",".join(items) + "]"
    if v[0] == "M":
        return ",".join(f"{k}{sp.assign.strip() if in_list else sp.assign}{render_value(x, sp, depth, True)}" for k, x in v[1])
    raise ValueError(v)


def render_nodes(nodes, sp: Spelling, depth: int, out: list):
    pad = " " * (sp.indent * depth)
    tw = "  " if sp.trailing_ws else ""
    for n in nodes:
        # a comment line directly before a top-level `META:` makes the parser read META as an ordinary
        # block (parser quirk, territory of C02); the respeller must not change content, so it never does that
        if sp.comments and not (depth == 0 and n[0] == "B" and n[1] == "META"):
            out.append(pad + "// note")
        for _ in range(sp.blank):
            out.append("")
        if n[0] == "A":
            v = n[2]
            if isinstance(v, tuple) and v[0] == "Z":
                out.append(f"{pad}{n[1]}{sp.assign.rstrip()}")
                out.append(pad + "```" + (v[2] or ""))
                out.extend(v[1].split("\n") if v[1] != "" else [])
                out.append(pad + "```")
            elif isinstance(v, tuple) and v[0] == "M":
                out.append(f"{pad}{n[1]}{sp.assign}[{render_value(v, sp, depth, True)}]{tw}")
            else:
                tc = " // t" if sp.comments and not (isinstance(v, tuple)) else ""
                out.append(f"{pad}{n[1]}{sp.assign}{render_value(v, sp, depth)}{tc}{tw}")
        elif n[0] == "B":
            tgt = f"[{sp.arrow}{n[2]}]" if n[2] else ""
            out.append(f"{pad}{n[1]}{tgt}:{tw}")
            render_nodes(n[3], sp, depth + 1, out)
        elif n[0] == "S":
            out.append(f"{pad}{sp.section}{n[1]}::{n[2]}{tw}")
            render_nodes(n[3], sp, depth + 1, out)


def render_doc(tree, meta, sp: Spelling, name="DOC") -> str:
    out = [f"==={name}==="]
    if meta:
        out.append("META:")
        render_nodes([("A", k, v) for k, v in meta], sp, 1, out)
    render_nodes(tree, sp, 0, out)
    if sp.end:
        out.append("===END===")
    return "\n".join(out) + "\n"


# ---------------------------------------------------------------------------------------------
# D. value pools and document generators
# ---------------------------------------------------------------------------------------------

NUM_STRINGS = [
    "42", " 42 ", "4_2", "4__2", "_42", "42_", "+42", "-42", "- 42", "0042", "0", "-0", "00", "0_0",
    "1e5", "1E5", "1e+5", "1e-5", "1E+05", "1.5", ".5", "5.", "-.5", "+.5e-3", "1_0.5", "1_0.5_5", "1._5", "1_.5", "1e1_0", "1e_5", "1_e5",
    "1e", "e5", ".", "e", ".e5", "1.e5", "1e5e", "1..2", "1.5.2", "--1", "+-1", "++1", "1e309", "-1e309", "1e308", "1.7976931348623157e308",
    "1.7976931348623159e308", "1e-400", "4.9e-324", "2e-324", "nan", "NaN", "inf", "-inf", "+inf", "infinity", "Infinity", "-Infinity", "nane", "inf.", "in.f", "1einf",
    "٣", "١٢٣", "१२", "1٣", "１２", "１.５", "٣e٣", "²", "½", "Ⅷ", "0x10", "0b1", "0o7", "1,000", "1 000", "1 000", "", " ", " ", "\t42\n", " 42 ",
    "\x1c42\x1f", "42\x85", "4\x0c2", "1e5 ", " 1.5", "1L", "1f", "1.0f", "1d", "1j", "1+1", "1/2", "0.1", "0.10", "0.30000000000000004",
    "100000000000000000000000", "9007199254740993", "9007199254740993.0", "0.1000000000000000055511151231257827", "123456789012345678901234567890.0",
    "1" * 4300, "1" * 4301, "0" * 4301 + "1", "-" + "9" * 4300, "1" * 400 + ".0", "1e" + "9" * 30, "1e-" + "9" * 30, "True", "true", "None", "abc", "E", "e.", ".E",
    "1_000_000", "1__000", "1_000_", "٣_٣", "٣٣_", "1٣.٥", "1e٣", "−42", "＋42", "4２", "1．5", "1e５",
]

WRONG_KINDS = [None, True, False, 0, 1, 42, -3, 4.5, 1e22, 100000.0, ("L", ["a", "b"]), ("L", []), ("L", [1, "2"]), ("L", ["a"]), ("L", ["a", "b", "c"]), ("M", [("k", "v")]),
               ("Z", "x = 1", "python"), ("Z", "", None), ("L", [("L", ["a"])])]
API_ONLY_KINDS = [float("inf"), float("-inf"), float("nan"), -0.0, ("L", [("Z", "1", None)]), ("M", [("STATUS", "active")])]
GENERIC_STRINGS = ["", "x", "XYZ", "active", "A", "a", "1", " ", "TRUE", "True", "NULL", "False",
                   # strings whose spelling needs escapes (length / pattern constraints see the VALUE, not the spelling) and strings that
                   # look like other syntax when written bare (comment, path)
                   "a\nb", "a\tb", "\\", 'a"b', "//x", "// y", "/p", "./r", "a/b"]


def random_numeral(rng) -> str:
    """mostly well-formed numerals (sign, digit groups with underscores, fraction, exponent, Unicode
    digits, blanks) with an occasional single-character mutation."""
    D = "0123456789"
    U = "٠١٢٣٤٥٦٧٨٩"

    def digits(n):
        alphabet = U if rng.random() < 0.1 else D
        g = "".join(rng.choice(alphabet) for _ in range(rng.randint(1, n)))
        while rng.random() < 0.2:
            g += "_" + "".join(rng.choice(alphabet) for _ in range(rng.randint(1, 3)))
        return g
    s = rng.choice(["", "", "+", "-"])
    r = rng.random()
    if r < 0.08:
        s += rng.choice(["inf", "Infinity", "nan", "NaN", "INF", "infinity"])
    else:
        if r < 0.5:
            s += digits(6)
        elif r < 0.75:
            s += digits(4) + "." + (digits(4) if rng.random() < 0.8 else "")
        else:
            s += "." + digits(4)
        if rng.random() < 0.4:
            s += rng.choice("eE") + rng.choice(["", "+", "-"]) + digits(rng.choice([1, 1, 2, 3]))
    if rng.random() < 0.25:
        s = rng.choice([" ", "\t", "\u00a0", "  "]) + s + rng.choice([" ", "\n", "", "\u2003"])
    if rng.random() < 0.3 and s:
        i = rng.randrange(len(s))
        m = rng.choice(["_", ".", "e", "-", " ", "x", "", "", "1", "٣"])
        s = s[:i] + m + s[i + (rng.random() < 0.5):]
    return s


def to_tuples(j, value=False):
    """inverse of json round trip for light trees (lists -> the tuples the generators use)."""
    if value:
        if isinstance(j, list):
            if j and j[0] == "L":
                return ("L", [to_tuples(x, True) for x in j[1]])
            if j and j[0] == "M":
                return ("M", [(k, to_tuples(x, True)) for k, x in j[1]])
            if j and j[0] == "Z":
                return ("Z", j[1], j[2])
        return j
    out = []
    for n in j:
        if n[0] == "A":
            out.append(("A", n[1], to_tuples(n[2], True)))
        elif n[0] == "B":
            out.append(("B", n[1], n[2], to_tuples(n[3])))
        elif n[0] == "S":
            out.append(("S", n[1], n[2], to_tuples(n[3])))
    return out


def mixed_case(a: str):
    """spellings of `a` in mixed letter case that lower/upper/swapcase/capitalize/title do not produce: alternating case in both
    phases, only the last letter raised, only the first letter lowered."""
    alt0 = "".join(ch.upper() if i % 2 == 0 else ch.lower() for i, ch in enumerate(a))
    alt1 = "".join(ch.lower() if i % 2 == 0 else ch.upper() for i, ch in enumerate(a))
    return [alt0, alt1, a[:-1].lower() + a[-1:].upper(), a[:1].lower() + a[1:].upper()]


def ambiguous_case_values(fd):
    """texts that are not allowed by some ENUM of the field but equal TWO OR MORE of its allowed values case-insensitively."""
    from octave_mcp.core import constraints as C
    chain = fd.pattern.constraints.constraints if (fd is not None and fd.pattern is not None and fd.pattern.constraints is not None) else []
    out = []
    for c in chain:
        if isinstance(c, C.EnumConstraint):
            for a in c.allowed_values:
                for v in case_variants(a):
                    if v not in c.allowed_values and len({x for x in c.allowed_values if x.lower() == v.lower()}) >= 2 and v not in out:
                        out.append(v)
    return out


def case_variants(a: str):
    out = [a, a.lower(), a.upper(), a.swapcase(), a.capitalize(), a.title()] + mixed_case(a)
    if len(a) > 1:
        out += [a[:1], a[:-1], a[: max(1, len(a) // 2)], a.lower()[:2], a.upper()[:2], a[1:], a[1:].lower()]
    out += [a + "x", a + "X", " " + a, a + " ", " " + a.lower() + " ", a.lower() + "_", a.casefold()]
    return out


def field_value_pool(fd, api=False):
    """perturbations of one field, driven by its real constraint chain."""
    from octave_mcp.core import constraints as C
    vals = []
    chain = fd.pattern.constraints.constraints if (fd is not None and fd.pattern is not None and fd.pattern.constraints is not None) else []
    for c in chain:
        if isinstance(c, C.EnumConstraint):
            for a in c.allowed_values:
                vals += case_variants(a)
            # ambiguous prefixes: common prefixes of two allowed values
            for a in c.allowed_values:
                for b in c.allowed_values:
                    if a != b:
                        k = 0
                        while k < min(len(a), len(b)) and a[k] == b[k]:
                            k += 1
                        if k:
                            vals += [a[:k], a[:k].lower()]
        if isinstance(c, C.RangeConstraint):
            # both sides of both bounds, and numbers whose canonical spelling needs an exponent or many decimals
            for b in (c.min_value, c.max_value):
                if isinstance(b, (int, float)) and not isinstance(b, bool):
                    vals += [b, b * 2, b / 2, b + 1, b - 1, float(b) * 1.0000001, float(b) * 0.9999999]
            vals += [2e-07, 1e-07, 5e-08, 1.2345e-05, 3e-07, 0.0, -0.0, 1e16, 123456789012345680.0, 1e-300]
        if isinstance(c, C.TypeConstraint) and c.expected_type == "NUMBER":
            vals += NUM_STRINGS
    vals += GENERIC_STRINGS + ["42", "1e5", " 7 "] + WRONG_KINDS + (API_ONLY_KINDS if api else [])
    seen, out = set(), []
    for v in vals:
        k = repr(v)
        if k not in seen:
            seen.add(k)
            out.append(v)
    return out


def priority_values(fd):
    """values every run uses for this field whatever the sampling budget: both sides of RANGE bounds and numbers whose canonical
    spelling needs an exponent or more than six decimals (a verdict that depends on how the emitter spells the number)."""
    from octave_mcp.core import constraints as C
    chain = fd.pattern.constraints.constraints if (fd is not None and fd.pattern is not None and fd.pattern.constraints is not None) else []
    out = []
    for c in chain:
        if isinstance(c, C.RangeConstraint):
            for b in (c.min_value, c.max_value):
                if isinstance(b, (int, float)) and not isinstance(b, bool):
                    out += [b, float(b) * 2, float(b) / 2]
            out += [2e-07, 1.2345e-05, 3e-07, 1e16]
    out.append(EMPTY)        # every field once with an empty value
    for c in chain:
        # length / pattern constraints look at the VALUE: strings whose spelling carries escapes, in every quoting style
        if isinstance(c, (C.MaxLengthConstraint, C.MinLengthConstraint, C.RegexConstraint)):
            out += ["a\nb", "a\tb", "\\\\b", 'a"b']
            break
    return out


def text_safe(v) -> bool:
    """can this value be written in OCTAVE text without running into lexer normalisation (NFC,
    control characters, backslashes: properties C02/C04 territory)?"""
    if isinstance(v, str):
        if len(v) > 300:
            return False
        # newline, tab, backslash and double quote have escapes (`quote` writes them, in single- and triple-quoted form alike)
        return all(c in " \n\t" or c.isprintable() for c in v) and unicodedata.normalize("NFC", v) == v
    if isinstance(v, float):
        return math.isfinite(v)
    if isinstance(v, tuple):
        if v[0] == "L":
            return all(text_safe(x) for x in v[1]) and not any(isinstance(x, tuple) and x[0] == "Z" for x in v[1])
        if v[0] == "M":
            return all(text_safe(x) for _k, x in v[1])
        if v[0] == "Z":
            return "```" not in v[1]
    return True


def valid_value_for(fd):
    """a value the field's chain accepts (its example), used to keep the rest of a document quiet."""
    ex = fd.pattern.example if fd is not None and fd.pattern is not None else "x"
    if isinstance(ex, list):
        return ("L", [x for x in ex])
    return ex


def doc_one_field(sd, fname, value, nested=True, second_block=False):
    """schema block where `fname` carries `value`, the other required fields are valid; the same
    assignment is repeated nested in a sub-block, at top level, in a section and next to a zone."""
    children = []
    for k, fd in sd.fields.items():
        if k == fname:
            children.append(("A", k, value))
        elif fd.is_required:
            children.append(("A", k, valid_value_for(fd)))
    tree = [("B", sd.name, None, children)]
    if nested:
        children.append(("B", "NEST", None, [("A", fname, value), ("B", "DEEP", "SELF", [("A", fname, value), ("A", "OTHER", value)])]))
        tree.append(("A", fname, value))
        tree.append(("S", "1", "SEC", [("A", fname, value), ("B", "INSEC", None, [("A", fname, value)])]))
        tree.append(("B", "OTHERBLOCK", None, [("A", fname, ("Z", "active\n42", None)), ("A", "UNRELATED", value),
                                               ("A", fname.lower(), value), ("A", fname.capitalize(), value), ("A", fname + "_X", value)]))
    if second_block:
        tree.append(("B", sd.name, None, [("A", fname, value)]))
    return tree


def random_value(rng, sd, k, api=False):
    fd = sd.fields.get(k)
    pool = field_value_pool(fd, api)
    return rng.choice(pool)


def random_doc(rng, sd, api=False, depth=2):
    """seeded structured instance: missing / extra / duplicated fields, nested occurrences of field names."""
    names = list(sd.fields)
    extra = ["EXTRA", "Unknown_1", "ZED", "aaa"] + [n.lower() for n in names[:2]] + [n + "_X" for n in names[:1]]

    def kids(d):
        out = []
        for _ in range(rng.randint(0, 5)):
            r = rng.random()
            if r < 0.65 and names:
                k = rng.choice(names)
                out.append(("A", k, random_value(rng, sd, k, api)))
            elif r < 0.8:
                k = rng.choice(extra)
                out.append(("A", k, rng.choice(GENERIC_STRINGS + WRONG_KINDS[:8] + ["active", "Done", "42", "1e5"])))
            elif d > 0:
                key = rng.choice(["NEST", "DEEP", sd.name] + names[:1])
                tgt = rng.choice([None, None, "SELF", "CUSTOM", "NOPE"])
                out.append(("B", key, tgt, kids(d - 1)))
        return out

    main = []
    for k, fd in sd.fields.items():
        r = rng.random()
        if r < 0.15 and not fd.is_required:
            continue                                   # missing optional
        if r < 0.08:
            continue                                   # missing required
        main.append(("A", k, random_value(rng, sd, k, api) if rng.random() < 0.7 else valid_value_for(fd)))
        if rng.random() < 0.05:
            main.append(("A", k, random_value(rng, sd, k, api)))   # duplicate key
    main += kids(depth)
    rng.shuffle(main)
    tree = [("B", sd.name, rng.choice([None, None, None, "CUSTOM", "NOPE"]), main)]
    if rng.random() < 0.4:
        tree += kids(depth)
    if rng.random() < 0.3:
        tree.append(("S", str(rng.randint(1, 9)), "SEC", kids(depth - 1)))
    if rng.random() < 0.25:
        # a second block with the schema's name (both are validated; their [→TARGET] annotations share one dict key)
        tree.insert(rng.choice([0, len(tree)]), ("B", sd.name, rng.choice([None, "SELF", "CUSTOM", "NOPE"]), kids(1)))
    return tree


def meta_abuse(tree) -> bool:
    """instances that use the reserved name META for an ordinary top-level block (after the META block,
    with a target annotation, or empty): their canonical text is not re-readable (the emitter drops an
    empty META and the next `META[→T]:` is then read as a malformed META block) — a reader/emitter
    matter (C01), so text-level cases of this engine do not use them."""
    for i, n in enumerate(tree):
        if n[0] == "B" and n[1] == "META" and (i > 0 or n[2] is not None or not n[3]):
            return True
    return False


def tree_text_safe(tree) -> bool:
    if meta_abuse(tree):
        return False
    return _tree_text_safe(tree)


def _tree_text_safe(tree) -> bool:
    for n in tree:
        if n[0] == "A":
            if not text_safe(n[2]):
                return False
        elif not _tree_text_safe(n[3]):
            return False
    return True


# ---------------------------------------------------------------------------------------------
# E. entry points
# ---------------------------------------------------------------------------------------------

class Workdir:
    """temp cwd with specs/schemas/<name>.oct.md — what schemas/loader.py searches."""

    def __init__(self, tag="validator"):
        base = Path(os.environ.get("VERIF_TMP", "/tmp")) / f"verif-{tag}-{os.getpid()}"
        self.tmp = tempfile.mkdtemp(prefix=str(base) + "-")
        self.dir = Path(self.tmp)
        (self.dir / "specs" / "schemas").mkdir(parents=True)
        (self.dir / "out").mkdir()
        self.prev = os.getcwd()

    def add_schema(self, spec) -> str:
        text = render_schema(spec)
        (self.dir / "specs" / "schemas" / (spec["name"].lower() + ".oct.md")).write_text(text, encoding="utf-8")
        return text

    def add_schema_text(self, name: str, text: str) -> str:
        (self.dir / "specs" / "schemas" / (name.lower() + ".oct.md")).write_text(text, encoding="utf-8")
        return text

    def enter(self):
        os.chdir(self.dir)

    def leave(self):
        os.chdir(self.prev)
        import shutil
        shutil.rmtree(self.tmp, ignore_errors=True)


def log_dicts(repair_log):
    return [{"rule_id": e.rule_id, "before": e.before, "after": e.after, "tier": e.tier.value, "safe": e.safe,
             "semantics_changed": e.semantics_changed} for e in repair_log.repairs]


def run_repair_api(sd, doc, fix=True):
    """repair() on a deep copy; returns (before, after, log dicts, exception text | None)."""
    from octave_mcp.core.repair import repair
    before = copy.deepcopy(doc)
    work = copy.deepcopy(doc)
    try:
        after, log = repair(work, [], fix=fix, schema=sd)
        return before, after, log_dicts(log), None
    except Exception as e:  # the property gives repair no licence to raise
        return before, work, [], f"{type(e).__name__}: {e}"


def run_repair_value(value, fd, fix=True):
    """repair_value() on a deep copy of an AST value: (new value, log dicts, exception | None)."""
    from octave_mcp.core.repair import repair_value
    from octave_mcp.core.repair_log import RepairLog
    log = RepairLog(repairs=[])
    try:
        v2, was = repair_value(copy.deepcopy(value), fd, log, fix=fix)
        return v2, was, log_dicts(log), None
    except Exception as e:
        return None, False, [], f"{type(e).__name__}: {e}"


def run_validate_tool(**kw):
    from octave_mcp.mcp.validate import ValidateTool
    return asyncio.run(ValidateTool().execute(**kw))


def run_write_tool(**kw):
    from octave_mcp.mcp.write import WriteTool
    return asyncio.run(WriteTool().execute(**kw))


def run_cli(args, cwd, stdin=None, timeout=120):
    p = subprocess.run(["/venv/bin/octave", *args], cwd=cwd, capture_output=True, text=True, timeout=timeout, input=stdin)
    return p.returncode, p.stdout, p.stderr


def cli_split(stdout: str):
    """`octave validate` prints canonical, a blank line, `validation_status: X`."""
    m = re.search(r"\n\nvalidation_status: (\w+)\n", stdout)
    if not m:
        return None, None
    return stdout[: m.start()], m.group(1)


def parse_text(text):
    from octave_mcp.core.parser import parse_with_warnings
    return parse_with_warnings(text)[0]


def emit_doc(doc):
    from octave_mcp.core.emitter import emit
    return emit(doc)


# ---------------------------------------------------------------------------------------------
# F. oracles — C11
# ---------------------------------------------------------------------------------------------

def same_value(a, b, tokens=True) -> bool:
    if type(a) is not type(b):
        return False
    if isinstance(a, float):
        return repr(a) == repr(b)
    if isinstance(a, A.ListValue):
        if len(a.items) != len(b.items) or not all(same_value(x, y, tokens) for x, y in zip(a.items, b.items)):
            return False
        return (not tokens) or a.tokens == b.tokens
    if isinstance(a, A.InlineMap):
        return list(a.pairs) == list(b.pairs) and all(same_value(a.pairs[k], b.pairs[k], tokens) for k in a.pairs)
    if isinstance(a, A.LiteralZoneValue):
        return (a.content, a.info_tag, a.fence_marker) == (b.content, b.info_tag, b.fence_marker)
    try:
        return a == b
    except Exception:
        return a is b


def skeleton(nodes):
    out = []
    for n in nodes:
        if isinstance(n, A.Assignment):
            out.append(("A", n.key))
        elif isinstance(n, A.Block):
            out.append(("B", n.key, n.target, skeleton(n.children)))
        elif isinstance(n, A.Section):
            out.append(("S", n.section_id, n.key, n.annotation, skeleton(n.children)))
        else:
            out.append(("?", type(n).__name__))
    return out


def leaves(nodes, path=()):
    for i, n in enumerate(nodes):
        if isinstance(n, A.Assignment):
            yield path + (i,), n
        elif isinstance(n, (A.Block, A.Section)):
            yield from leaves(n.children, path + (i,))


def to_ascii_digits(s: str):
    out = []
    for ch in s:
        if ord(ch) < 128:
            out.append(ch)
        else:
            try:
                out.append(str(unicodedata.decimal(ch)))
            except ValueError:
                return None
    return "".join(out)


_G = r"\d(?:_?\d)*"
NUMERAL = re.compile(rf"(?P<sign>[+-]?)(?:(?P<ip>{_G})(?:\.(?P<fp>{_G})?)?|\.(?P<fp2>{_G}))(?:[eE](?P<es>[+-]?)(?P<ed>{_G}))?\Z", re.A)


def big_int(digits: str) -> int:
    """int(digits) without CPython's 4300-digit str->int limit (arithmetic on chunks), so that the
    oracle never shares — or trips over — the implementation's limit."""
    n = 0
    for i in range(0, len(digits), 1000):
        chunk = digits[i:i + 1000]
        n = n * (10 ** len(chunk)) + int(chunk)
    return n


def numeral_value(text: str):
    """exact rational a text denotes under CPython's numeral grammar (after str.strip()), or None.
    Written from the language reference (float()/int() of a string), not from repair.py."""
    t = to_ascii_digits(text.strip())
    if t is None:
        return None
    m = NUMERAL.match(t)
    if not m:
        return None
    ip = (m.group("ip") or "").replace("_", "")
    fp = (m.group("fp") or m.group("fp2") or "").replace("_", "")
    mant = Fraction(big_int(ip + fp or "0"), 10 ** len(fp))
    if m.group("ed"):
        e = big_int(m.group("ed").replace("_", "")) * (-1 if m.group("es") == "-" else 1)
        if mant != 0 and e > 100000:
            return "huge"          # far beyond the double range: denotes no finite double
        if mant != 0 and e < -100000:
            return "tiny"          # far below the smallest subnormal: the correctly rounded double is (±)0.0
        if mant != 0:
            mant *= Fraction(10) ** e
    return -mant if m.group("sign") == "-" else mant


def is_integer_numeral(text: str) -> bool:
    t = to_ascii_digits(text.strip())
    m = NUMERAL.match(t) if t is not None else None
    return bool(m) and m.group("fp") is None and m.group("fp2") is None and m.group("ed") is None and "." not in t


def denotes(text: str, number) -> bool:
    """`number` is the finite Python number the numeral `text` denotes.  Lossless means: the number
    equals the numeral's exact rational value; or — only for numerals written with a fraction or an
    exponent, whose value a Python program can hold as a float only — it is the correctly rounded double."""
    if isinstance(number, bool) or not isinstance(number, (int, float)):
        return False
    q = numeral_value(text)
    if q is None or q == "huge":
        return False
    if q == "tiny":
        return isinstance(number, float) and number == 0.0
    if isinstance(number, int):
        return q == number
    if not math.isfinite(number):
        return False
    if Fraction(number) == q:
        return True
    if is_integer_numeral(text):
        return False          # an integer numeral is representable exactly (as int): a rounded float loses digits
    try:
        rounded = q.numerator / q.denominator      # int / int is correctly rounded
    except OverflowError:
        return False
    return rounded == number


def ci_eq(a: str, b: str) -> bool:
    return a.lower() == b.lower() or a.casefold() == b.casefold()


def field_chain(sd, key):
    fd = sd.fields.get(key) if sd is not None else None
    if fd is None or fd.pattern is None or fd.pattern.constraints is None:
        return []
    return list(fd.pattern.constraints.constraints)


def check_step(sd, key, cur, e, final):
    """Is log entry `e` a permitted change of the current value `cur` of field `key`?  Returns
    (new value, None) or (None, why)."""
    from octave_mcp.core import constraints as C
    chain = field_chain(sd, key)
    if e.get("tier") != "REPAIR":
        return None, f"log entry tier {e.get('tier')!r} is not REPAIR"
    if not isinstance(cur, str):
        return None, f"a non-text value ({type(cur).__name__}) was changed"
    if e.get("before") != cur:
        return None, f"log 'before' {e.get('before')!r} is not the exact old value {cur!r}"
    rule = e.get("rule_id", e.get("code"))
    if rule == "ENUM_CASEFOLD":
        nxt = e.get("after")
        if not isinstance(nxt, str) or nxt == cur or not ci_eq(nxt, cur):
            return None, f"enum repair {cur!r} -> {nxt!r} is not a change of letter case"
        enums = [c for c in chain if isinstance(c, C.EnumConstraint)]
        ok = [c for c in enums if nxt in c.allowed_values and {v for v in c.allowed_values if ci_eq(v, cur)} == {nxt}]
        if not ok:
            return None, f"enum repair {cur!r} -> {nxt!r}: no ENUM of field {key} has {nxt!r} as its single case-insensitive match"
        return nxt, None
    if rule == "TYPE_COERCION":
        if not any(isinstance(c, C.TypeConstraint) and c.expected_type == "NUMBER" for c in chain):
            return None, f"number coercion on field {key} which has no TYPE[NUMBER]"
        if isinstance(final, bool) or not isinstance(final, (int, float)):
            return None, f"coercion result {final!r} is not a number"
        if not denotes(cur, final):
            return None, f"coercion {cur!r} -> {final!r} is not lossless (the text does not denote that finite number)"
        if e.get("after") != str(final):
            return None, f"log 'after' {e.get('after')!r} is not the exact new value {str(final)!r}"
        return final, None
    return None, f"unknown repair rule {rule!r}"


def c11_oracle(sd, before, after, log, tokens=True, have_log=True):
    """The statement of C11 evaluated on one observed repair.  Returns (anomalies, stats):
    anomalies = [(kind, why)], kind in skeleton|meta|change|log|extra-log|cycle."""
    an = []
    if skeleton(before.sections) != skeleton(after.sections):
        an.append(("skeleton", "keys / nesting / order changed"))
        return an, {"changes": -1}
    bm, am = before.meta, after.meta
    if list(bm) != list(am) or not all(same_value(bm[k], am[k], tokens) for k in bm) or (before.name, before.raw_frontmatter) != (after.name, after.raw_frontmatter):
        an.append(("meta", "envelope / META / frontmatter changed"))
    i, changes = 0, 0
    for (pb, nb), (_pa, na) in zip(leaves(before.sections), leaves(after.sections)):
        old, new = nb.value, na.value
        if same_value(old, new, tokens):
            # over-logging on an unchanged value (only an enum cycle can do it): consume it if present
            if have_log and isinstance(old, str) and i < len(log) and log[i].get("before") == old and len(
                    [c for c in field_chain(sd, nb.key) if type(c).__name__ == "EnumConstraint"]) >= 2:
                cur, j = old, i
                while j < len(log) and j - i < 8 and isinstance(cur, str) and log[j].get("before") == cur and log[j].get("rule_id", log[j].get("code")) == "ENUM_CASEFOLD":
                    cur = log[j].get("after")
                    j += 1
                    if cur == old:
                        an.append(("cycle", f"log reports {j - i} repairs of {nb.key}={old!r} although the value is unchanged"))
                        i = j
                        break
            continue
        changes += 1
        if old is None:
            an.append(("change", f"missing/None value of {nb.key} was filled with {new!r}"))
            continue
        if isinstance(old, A.LiteralZoneValue):
            an.append(("change", f"literal zone {nb.key} was touched"))
            continue
        if not have_log:
            # no log observable (CLI): the change must still be explainable by one or two permitted steps
            why = explain_without_log(sd, nb.key, old, new)
            if why:
                an.append(("change", why))
            continue
        cur, steps = old, 0
        while not same_value(cur, new, tokens):
            if i >= len(log):
                an.append(("log", f"{nb.key}: value changed {old!r} -> {new!r} but the log has no (further) entry for it"))
                break
            nxt, why = check_step(sd, nb.key, cur, log[i], new)
            if why:
                an.append(("change" if "log '" not in why else "log", f"{nb.key}: {why}"))
                break
            cur = nxt
            i += 1
            steps += 1
            if steps > 8:
                an.append(("log", f"{nb.key}: more than 8 logged steps"))
                break
    if have_log and i < len(log):
        an.append(("extra-log", f"{len(log) - i} log entr(y/ies) without a corresponding change, first: {log[i]}"))
    return an, {"changes": changes}


def explain_without_log(sd, key, old, new):
    from octave_mcp.core import constraints as C
    if not isinstance(old, str):
        return f"{key}: a non-text value ({type(old).__name__}) was changed to {new!r}"
    chain = field_chain(sd, key)
    enums = [c for c in chain if isinstance(c, C.EnumConstraint)]
    isnum = any(isinstance(c, C.TypeConstraint) and c.expected_type == "NUMBER" for c in chain)

    def fold_ok(a, b):
        return isinstance(b, str) and a != b and ci_eq(a, b) and any(b in c.allowed_values and {v for v in c.allowed_values if ci_eq(v, a)} == {b} for c in enums)

    if fold_ok(old, new):
        return None
    if isnum and denotes(old, new):
        return None
    # casefold(s) followed by a coercion
    for c in enums:
        for mid in c.allowed_values:
            if fold_ok(old, mid) and (fold_ok(mid, new) or (isnum and denotes(mid, new))):
                return None
    return f"{key}: change {old!r} -> {new!r} is neither an enum case repair nor a lossless number coercion"



# ---------------------------------------------------------------------------------------------
# G. oracles — C09
# ---------------------------------------------------------------------------------------------

def verdict_set(errors):
    """{(code, field_path)} of a list of ValidationError objects / dicts."""
    out = set()
    for e in errors:
        if isinstance(e, dict):
            if "field" in e or "field_path" in e:
                out.add((e.get("code"), e.get("field", e.get("field_path"))))
        else:
            out.add((e.code, e.field_path))
    return sorted(out, key=lambda x: (str(x[0]), str(x[1])))


def deep_fingerprint(obj, _depth=0):
    """structural hash of an AST including positions, comments, tokens and object kinds."""
    if _depth > 200:
        return "deep"
    if isinstance(obj, (str, int, float, bool)) or obj is None:
        return (type(obj).__name__, repr(obj))
    if isinstance(obj, (list, tuple)):
        return (type(obj).__name__, tuple(deep_fingerprint(x, _depth + 1) for x in obj))
    if isinstance(obj, dict):
        return ("dict", tuple((deep_fingerprint(k, _depth + 1), deep_fingerprint(v, _depth + 1)) for k, v in obj.items()))
    if hasattr(obj, "__dataclass_fields__") and not isinstance(obj, type):
        return (type(obj).__name__, tuple((f, deep_fingerprint(getattr(obj, f), _depth + 1)) for f in obj.__dataclass_fields__))
    return (type(obj).__name__, repr(obj))
