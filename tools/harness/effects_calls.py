"""Seeded generator of the C06 call stream: OCTAVE documents + calls for the four MCP tools and the Python API.

Everything derives from the `random.Random` passed in; a call is a plain JSON value (see effects_worker.py), so
any failing call replays exactly.  Documents are drawn from a POOL that is much smaller than the number of
calls: the same text is served by different tools, with different flags, at different points of a history —
which is what a content-keyed cache, a leaked repair or a stale per-instance field needs in order to show.

The pools deliberately contain what each determinism mutation needs:
  * several (3–6) unknown fields with dissimilar names in schema-validated blocks  -> set-order in reports
  * the same document validated with fix=true and then without                      -> leaked repairs / caches
  * every packaged schema name, unknown names, names that only differ in case         -> schema lookup
  * grammar compilation for several schemas in a row                               -> counters / rule caches
  * section markers that disappear on overwrite (W_STRUCT_001 reports a sorted set difference)
  * META enum values in the wrong case with lenient=true (repair path mutates the document)
"""
import hashlib

SCHEMAS = ["META", "DEBATE_TRANSCRIPT", "TEST_HOLOGRAPHIC", "SKILL"]
ODD_SCHEMAS = ["NOPE", "meta", "Debate_Transcript", "../secret", "", "META_X", "SESSION_LOG", "TEST_HOLOGRAPHIC2"]
UNKNOWN_FIELDS = ["ZED", "ALPHA", "EXTRA_1", "Q", "MIDDLE", "OMEGA", "BETA9", "X_Y_Z", "NOTE", "AA", "ZZ", "K", "HOLO"]
KEYS = ["A", "B", "NAME", "STATUS", "TITLE", "COUNT", "ITEMS", "NOTE", "X_1", "FLAG", "PATH", "OWNER", "RISKS", "TESTS", "CI",
        "DEPS", "DECISIONS", "PATTERN", "REGEX", "ID"]
WORDS = ["alpha", "Beta", "GAMMA", "delta_1", "x", "ok", "Wind", "Wall", "Door", "fixed", "active", "DRAFT", "v2", "a-b", "p.q"]
# scalars that are EQUAL under == / hash although they are different values with different text (True == 1 == 1.0 == 1e0,
# False == 0 == 0.0 == -0.0, 1000 == 1e3): what a memo keyed by the value itself (dict, lru_cache) cannot tell apart — whichever the
# process saw first answers for the others.  Drawn for ROUTED fields (fields with a target) by gen_eq_scalar_calls, whose calls are
# appended to the stream from a generator of their own (the first n calls of a seed stay byte-identical).
EQ_SCALARS = ["true", "1", "1.0", "1e0", "false", "0", "0.0", "-0.0", "1000", "1e3"]


def pick(rng, xs):
    return xs[rng.randrange(len(xs))]


def gen_scalar(rng):
    k = rng.randrange(22)
    if k == 0:
        return str(rng.randrange(-50, 5000))
    if k == 1:
        return pick(rng, ["1.5", "-0.25", "1e3", "2.50", "0.1", "3.14159", "1E-2"])
    if k == 2:
        return pick(rng, ["true", "false", "null"])
    if k == 3:
        return '"' + pick(rng, ["hello world", "a, b", "x::y", "tab\\tq", "quote \\\" in", "back\\\\slash", "line\\nbreak", "", " lead", "é ü ñ", "日本語", "emoji 🙂", "true", "123", "A→B"]) + '"'
    if k == 4:
        return pick(rng, ["1.2.3", "2024-01-15", "2025-01-01T00:00:00Z", "v1", "./a/b.oct.md", "$VAR", "$1:name"])
    if k == 5:
        return pick(rng, WORDS) + pick(rng, ["->", "→"]) + pick(rng, WORDS) + (pick(rng, ["->", "→"]) + pick(rng, WORDS) if rng.random() < .4 else "")
    if k == 6:
        return pick(rng, WORDS) + pick(rng, ["+", "⊕", "~", "⧺"]) + pick(rng, WORDS)
    if k == 7:
        return pick(rng, WORDS) + pick(rng, [" vs ", "⇌", "<->"]) + pick(rng, WORDS)
    if k == 8:
        return pick(rng, ["ENUM[A,B,C]", 'REGEX["^[a-z]+$"]', "TYPE[STRING]", "NEVER[X]", "ALWAYS[Y]", "PATTERN[abc]", "HOLOGRAPHIC[JIT]"])
    if k == 9:
        return pick(rng, WORDS) + pick(rng, ["<q>", "<q>", "<a.b>", "<a.b>", "{q}"])
    if k == 10:
        return pick(rng, ["hello world again", "two words", "Multi Word Value here"])      # lenient multi-word coalescing
    if k == 11:
        return pick(rng, WORDS) + pick(rng, ["&", "∧", "|", "∨"]) + pick(rng, WORDS)
    return pick(rng, WORDS)


def gen_value(rng, depth=0):
    k = rng.randrange(12)
    if k == 0 and depth < 2:
        n = rng.randrange(0, 5)
        return "[" + pick(rng, [",", ", "]).join(gen_value(rng, depth + 1) for _ in range(n)) + "]"
    if k == 1 and depth < 2:
        n = rng.randrange(1, 4)
        return "[" + ",".join(f"{pick(rng, ['a', 'b', 'k1', 'Z', 'm'])}{i}::{gen_scalar(rng)}" for i in range(n)) + "]"
    if k == 2 and depth == 0:
        # holographic pattern (schema field definition syntax); with a constraint chain it is the input of the fixed finding C06N1
        ex = pick(rng, ['"x"', "4", "[a,b]", '"ACTIVE"'])
        chain = pick(rng, ["REQ", "OPT", "REQ∧ENUM[A,B]", "OPT∧TYPE[NUMBER]", 'REQ∧REGEX["^a"]', "REQ∧MAX_LENGTH[5]"])
        tgt = pick(rng, ["", "→§INDEXER", "→§SELF", "→§A∨§B"])
        return f"[{ex}∧{chain}{tgt}]"
    if k == 3 and depth == 0:
        items = [gen_scalar(rng) for _ in range(rng.randrange(3, 6))]
        return "[\n    " + ",\n    ".join(items) + "\n  ]"
    return gen_scalar(rng)


def gen_body(rng, indent=0, depth=0, n=None):
    pad = "  " * indent
    out = []
    n = rng.randrange(1, 7) if n is None else n
    used = []
    for _ in range(n):
        k = rng.randrange(14)
        key = pick(rng, KEYS)
        if rng.random() < .85 and key in used:
            key = key + str(rng.randrange(9))
        used.append(key)
        if k == 0 and depth < 3:
            tgt = pick(rng, ["", "", "[->INDEXER]", "[→§RISK_LOG]"]) if rng.random() < .3 else ""
            out.append(f"{pad}{key}{tgt}:")
            out += gen_body(rng, indent + 1, depth + 1)
        elif k == 1:
            out.append(f"{pad}// {pick(rng, ['note', 'TODO: x', 'é', ''])}")
            out.append(f"{pad}{key}::{gen_value(rng)}")
        elif k == 2:
            tag = pick(rng, ["", "python", "json", "text"])
            body = pick(rng, ["x = 1", "{\"a\": [1, 2]}", "  indented\n\tTAB kept", "A::B->C", ""])
            out.append(f"{pad}{key}::")
            out.append(f"{pad}```{tag}")
            out += [pad + ln if ln else ln for ln in body.split("\n")] if body else []
            out.append(f"{pad}```")
        elif k == 3:
            out.append(f"{pad}{key}::{gen_value(rng)}  // trailing")
        elif k == 4 and used[:-1]:
            out.append(f"{pad}{used[0]}::{gen_scalar(rng)}")           # duplicate key
        else:
            out.append(f"{pad}{key}::{gen_value(rng)}")
    return out


def gen_meta(rng, schema=None):
    lines = ["META:"]
    if rng.random() < .9:
        lines.append(f"  TYPE::{pick(rng, ['SESSION', 'SCHEMA', 'SKILL', 'X', schema or 'DOC', '42', 'true'])}")
    if rng.random() < .85:
        lines.append(f"  VERSION::{pick(rng, ['\"1.0\"', '\"1.0.0\"', '2', '1.5', 'v1'])}")
    if rng.random() < .6:
        lines.append(f"  STATUS::{pick(rng, ['DRAFT', 'ACTIVE', 'DEPRECATED', 'active', 'Draft', 'BOGUS', 'ACT', '7'])}")
    for _ in range(rng.randrange(0, 3)):
        lines.append(f"  {pick(rng, ['OWNER', 'PURPOSE', 'TAGS', 'EXTRA', 'ID'])}::{gen_value(rng, 1)}")
    if rng.random() < .2:
        lines.append("  CONTRACT::[FIELD[STATUS]::REQ∧ENUM[ACTIVE,PAUSED,COMPLETE], FIELD[PRIORITY]::OPT∧ENUM[LOW,MEDIUM,HIGH]"
                     + pick(rng, ["", ", FIELD[N]::OPT∧TYPE[NUMBER]", ', FIELD[ID]::REQ∧REGEX["^[a-z]+$"]', ", FIELD[A.B]::REQ"]) + "]")
    return lines


def block_for_schema(rng, schema):
    L = [f"{schema}:"]

    def maybe(p, line):
        if rng.random() < p:
            L.append("  " + line)
    if schema == "DEBATE_TRANSCRIPT":
        maybe(.9, f"THREAD_ID::{pick(rng, ['\"t-1\"', 't2', '42'])}")
        maybe(.9, f"TOPIC::{pick(rng, ['\"the topic\"', 'x', '[\"x\"∧REQ]', '[4∧OPT∧TYPE[NUMBER]→§SELF]'])}")
        maybe(.9, f"MODE::{pick(rng, ['fixed', 'mediated', 'FIXED', 'other'])}")
        maybe(.9, f"STATUS::{pick(rng, ['active', 'synthesis', 'closed', 'Active', 'open'])}")
        maybe(.9, f"PARTICIPANTS::{pick(rng, ['[Wind,Wall,Door]', '[Wind]', 'Wind', '[]'])}")
        maybe(.9, f"TURNS::{pick(rng, ['[a,b]', '[t1]', '3', '[[a::1],[b::2]]'])}")
        maybe(.4, f"SYNTHESIS::{pick(rng, ['\"done\"', 'null'])}")
        maybe(.4, f"MAX_ROUNDS::{pick(rng, ['4', '\"4\"', 'four', '4.5'])}")
        maybe(.3, f"MAX_TURNS::{pick(rng, ['12', '\"12\"'])}")
    elif schema == "TEST_HOLOGRAPHIC":
        maybe(.85, f"NAME::{pick(rng, ['example', '\"a b\"', '7'])}")
        maybe(.85, f"STATUS::{pick(rng, ['ACTIVE', 'DRAFT', 'active', 'Deprecated', 'NOPE', 'ACT'])}")
        maybe(.5, f"OPTIONAL_FIELD::{pick(rng, ['x', 'null', '[1,2]'])}")
    elif schema == "SKILL":
        maybe(.85, f"TYPE::{pick(rng, ['SKILL', 'skill', 'OTHER'])}")
        maybe(.85, f"VERSION::{pick(rng, ['\"1.0\"', '1'])}")
        maybe(.5, f"STATUS::{pick(rng, ['ACTIVE', 'DRAFT', 'draft', 'X'])}")
    else:
        maybe(.9, f"TYPE::{gen_scalar(rng)}")
    nu = pick(rng, [0, 0, 2, 3, 4, 5, 6])
    for f in rng.sample(UNKNOWN_FIELDS, nu):
        L.append(f"  {f}::{gen_scalar(rng)}")
    body = L[1:]
    rng.shuffle(body)
    return [L[0]] + body


FRONTMATTER = ["---\nname: demo\ndescription: A demo skill\nallowed-tools: [Read, Write]\n---\n",
               "---\nname: demo\nversion: 2\ntriggers:\n  - a\n  - b\n---\n",
               "---\ndescription: only\nallowed-tools: Read\nextra: 1\n---\n", ""]


def gen_doc(rng, flavour=None):
    flavour = flavour or pick(rng, ["plain", "plain", "schema", "schema", "schema", "schema", "schema", "schema", "meta", "sections", "sections",
                                    "contract", "schemadoc", "schemadoc", "malformed", "prose"])
    name = pick(rng, ["DOC", "TEST", "A_1", "SESSION_LOG", "X"])
    L = []
    if flavour == "prose":
        return pick(rng, ["Just some plain text.\nSecond line FOO{bar}.\n", "Title:\n  words here\n", "", "   \n", "hello"]), flavour
    if rng.random() < .15:
        L.append("OCTAVE::5.1.0")
    L.append(f"==={name}===")
    schema = None
    if flavour in ("schema", "meta", "contract") or rng.random() < .5:
        schema = pick(rng, ["DEBATE_TRANSCRIPT"] * 4 + ["TEST_HOLOGRAPHIC"] * 3 + ["SKILL", "META"]) if flavour == "schema" else pick(rng, SCHEMAS)
        L += gen_meta(rng, schema)
        if rng.random() < .3:
            L.append("---")
    if flavour == "schema":
        L += block_for_schema(rng, schema)
        if rng.random() < .4:
            L += gen_body(rng, 0, 0, rng.randrange(1, 3))
    elif flavour == "sections":
        for i in range(rng.randrange(1, 4)):
            L.append(f"§{pick(rng, ['1', '2', '2b', '3', '10'])}::{pick(rng, ['INTRO', 'BODY', 'RISKS', 'END'])}")
            L += gen_body(rng, 1, 1, rng.randrange(1, 4))
        if rng.random() < .5:
            L += gen_body(rng, 0, 0, 2)
    elif flavour == "schemadoc":
        L += ["POLICY:", '  VERSION::"1.0"', f"  UNKNOWN_FIELDS::{pick(rng, ['REJECT', 'WARN', 'IGNORE', 'BOGUS'])}",
              f"  TARGETS::[{pick(rng, ['§INDEXER, §SELF', '§CUSTOM_A', ''])}]", "FIELDS:"]
        for f in rng.sample(["ID", "STATUS", "COUNT", "NAME", "A.B", "A_DOT_B", "CONTENT", "WHEN", "TAGS"], rng.randrange(1, 6)):
            chain = pick(rng, ["REQ", "OPT", "REQ∧ENUM[A,B,C]", "OPT∧TYPE[NUMBER]", 'REQ∧REGEX["^[a-z]+$"]', "OPT∧DATE", "OPT∧ISO8601",
                               "REQ∧TYPE[LIST]", "OPT∧RANGE[1,5]", "REQ∧MAX_LENGTH[8]∧MIN_LENGTH[2]", "REQ∧CONST[X]", "OPT∧DIR", "REQ∧OPT"])
            L.append(f"  {f}::[{pick(rng, ['\"ex\"', '3', '[a,b]'])}∧{chain}{pick(rng, ['', '→§INDEXER', '→§SELF', '→§NOWHERE'])}]")
    else:
        L += gen_body(rng)
    L.append("===END===")
    text = "\n".join(L) + "\n"
    if flavour == "schema" and schema == "SKILL" or rng.random() < .08:
        text = pick(rng, FRONTMATTER) + text
    if flavour == "malformed":
        k = rng.randrange(8)
        if k == 0:
            text = text.replace("::", ":", 1)
        elif k == 1:
            text = text.replace("  ", "\t", 1)
        elif k == 2:
            text = text.replace("===END===\n", "")
        elif k == 3:
            text = text.replace("]", "", 1) if "]" in text else text + "]"
        elif k == 4:
            i = rng.randrange(len(text))
            text = text[:i] + pick(rng, ["@", "}", "\x00", "%%", "^"]) + text[i:]
        elif k == 5:
            text = text.replace("\n", "\r\n")
        elif k == 6:
            text = "```octave\n" + text.rstrip("\n") + "\n```"
        else:
            lines = text.split("\n")
            rng.shuffle(lines)
            text = "\n".join(lines)
    return text, flavour


VOCAB_TERMS = ["ALPHA", "BETA", "ZED", "OMEGA", "K9", "MIDDLE", "AA", "ZZ", "X_Y", "NOTE", "TERM_7", "Q"]


def gen_hydrate(rng):
    """files + args of a hydrate() call: a vocabulary capsule, a source document importing it, local definitions
    that may collide, content that uses some of the terms (what is pruned / collides is computed with sets)."""
    terms = rng.sample(VOCAB_TERMS, rng.randrange(3, 10))
    vocab = ['===VOCAB===', 'META:', f'  TYPE::{pick(rng, ['"CAPSULE"', 'CAPSULE', 'SPEC'] if rng.random() < .15 else ['"CAPSULE"'])}', '  VERSION::"1.0.0"', '', '§1::TERMS']
    vocab += [f'  {t}::"def of {t}"' for t in terms] + ['', '===END===', '']
    local = rng.sample(VOCAB_TERMS, rng.randrange(0, 4))
    used = rng.sample(terms + local, rng.randrange(0, len(terms + local) + 1)) if terms + local else []
    ver = pick(rng, ["", "", "", ',"1.0.0"'])
    src = ['===SOURCE===', 'META:', '  TYPE::"SPEC"', '  VERSION::"1.0.0"', '', f'§CONTEXT::IMPORT["@test/vocabulary"{ver}]', '']
    if local:
        src += ['§CONTEXT::LOCAL'] + [f'  {t}::"local {t}"' for t in local] + ['']
    src += ['§1::CONTENT', f'  REF::"uses {" and ".join(used)} here"'] + [f'  {t}::1' for t in used[:2]] + ['', '===END===', '']
    return {"files": {"specs/vocabulary.oct.md": "\n".join(vocab), "source.oct.md": "\n".join(src)},
            "args": {"source": "$SB/source.oct.md", "vocab": "$SB/specs/vocabulary.oct.md",
                     "output": pick(rng, ["$SB/docs/out.oct.md", "$SB/out.oct.md", None]),
                     "prune": pick(rng, ["list", "list", "hash", "count", "elide", "bogus"]),
                     "collision": pick(rng, ["error", "source_wins", "local_wins"])}}


INLINE_FIELDS = ["ID", "STATUS", "COUNT", "NAME", "WHEN", "TAGS", "OWNER", "LEVEL"]
INLINE_CHAINS = ["REQ", "OPT", "REQ∧ENUM[A,B,C]", "OPT∧TYPE[NUMBER]", 'REQ∧REGEX["^[a-z]+$"]', "OPT∧DATE", "OPT∧ISO8601", "REQ∧TYPE[LIST]",
                 "OPT∧RANGE[1,5]", "REQ∧MAX_LENGTH[8]∧MIN_LENGTH[2]", "REQ∧CONST[X]", "OPT∧TYPE[BOOLEAN]", "OPT∧ENUM[on,off]"]
INLINE_TARGETS = ["", "→§INDEXER", "→§SELF", "→§T_A∨§T_B", "→§T_C∨§INDEXER∨§T_A∨§RISK_LOG", "→§NOWHERE", "→§./out/x.oct.md", "→§T_B∨§T_A∨§T_C∨§SELF∨§META"]


def gen_inline_schema(rng):
    """(schema text, [field names]) — a schema document with POLICY/FIELDS; several fields route to MANY targets
    (`§A∨§B∨§C`: the router logs one entry per target, in the order of the specification)."""
    name = pick(rng, ["INLINE_S", "CONFIG", "TASK"])
    fields = rng.sample(INLINE_FIELDS, rng.randrange(2, 7))
    L = [f"==={name}===", "META:", "  TYPE::SCHEMA", '  VERSION::"1.0"', "POLICY:", '  VERSION::"1.0"',
         f"  UNKNOWN_FIELDS::{pick(rng, ['REJECT', 'WARN', 'WARN', 'IGNORE'])}",
         f"  TARGETS::[{pick(rng, ['§T_A, §T_B, §T_C', '§T_A', '§T_C,§T_B'])}]"]
    if rng.random() < .3:
        L.append(f"  DEFAULT_TARGET::{pick(rng, ['§T_A', '§INDEXER', '§T_A∨§T_C'])}")
    L.append("FIELDS:")
    for f in fields:
        L.append(f"  {f}::[{pick(rng, ['\"ex\"', '3', '[a,b]'])}∧{pick(rng, INLINE_CHAINS)}{pick(rng, INLINE_TARGETS)}]")
    L.append("===END===")
    return "\n".join(L) + "\n", name, fields


def gen_inline_doc(rng, name, fields):
    L = ["===D===", f"{name}:"]
    vals = ["A", "B", "x", "abc", "3", "9", "true", '"2024-01-15"', "2024-02-30", '"2025-01-01T00:00:00Z"', "[a,b]", "[]", "X", "on", '"toolongvalue"', "null", "a"]
    body = [f"  {f}::{pick(rng, vals)}" for f in fields if rng.random() < .85]
    body += [f"  {u}::{pick(rng, vals)}" for u in rng.sample(UNKNOWN_FIELDS, pick(rng, [0, 0, 2, 3, 5]))]
    rng.shuffle(body)
    if rng.random() < .35:
        # a nested block that declares a routing target of its own ([->T]): whatever it contributes to the validator's view of
        # valid targets must stay with this call (the same names appear as field targets in INLINE_TARGETS)
        body += [f"  {pick(rng, ['NOTES', 'LOG'])}[{pick(rng, ['->', '→§', '→'])}{pick(rng, ['NOWHERE', 'RISK_LOG', 'T_Z'])}]:", "    X::1"]
    return "\n".join(L + body + ["===END==="]) + "\n"


def sha(s):
    return hashlib.sha256(s.encode("utf-8")).hexdigest()


def gen_eq_scalar_calls(rng, k, inline, first_id):
    """k calls whose documents give ROUTED fields values drawn from EQ_SCALARS: the packaged DEBATE_TRANSCRIPT schema (SYNTHESIS,
    MAX_ROUNDS, MAX_TURNS route to §SELF) through octave_validate (content / file) and the Validator API, and the stream's inline
    schemas (targets of every kind, multi-target overrides) through the API.  One value per call more often than not, so that equal
    values meet ACROSS calls of one process, in whichever order the configuration's shuffle puts them."""
    calls = []
    for j in range(k):
        c = {"id": first_id + j, "flavour": "eq-scalars"}
        if rng.random() < .55 or not inline:
            L = ["===D===", "DEBATE_TRANSCRIPT:", f'  THREAD_ID::{pick(rng, ['"t-1"', "t2"])}', '  TOPIC::"x"', "  MODE::fixed", "  STATUS::active",
                 "  PARTICIPANTS::[Wind,Wall]", "  TURNS::[a,b]"]
            fs = rng.sample(["SYNTHESIS", "MAX_ROUNDS", "MAX_TURNS"], pick(rng, [1, 1, 1, 2, 3]))
            L += [f"  {f}::{pick(rng, EQ_SCALARS)}" for f in fs] + ["===END==="]
            doc = "\n".join(L) + "\n"
            r = rng.random()
            if r < .5:
                a = {"content": doc, "schema": "DEBATE_TRANSCRIPT"}
                for flag, p in (("fix", .3), ("compact", .15), ("diff_only", .15)):
                    if rng.random() < p:
                        a[flag] = True
                if rng.random() < .3:
                    a["profile"] = pick(rng, ["STRICT", "LENIENT"])
                c.update(tool="validate", args=a)
            elif r < .7:
                c["files"] = {"in/doc.oct.md": doc}
                c.update(tool="validate", args={"file_path": "$SB/in/doc.oct.md", "schema": "DEBATE_TRANSCRIPT"})
            else:
                c.update(tool="api", fn="validate_api", args={"content": doc, "schema": "DEBATE_TRANSCRIPT", "strict": rng.random() < .3, "fix": rng.random() < .4})
        else:
            st, nm, fs = pick(rng, inline)
            body = [f"  {f}::{pick(rng, EQ_SCALARS)}" for f in fs if rng.random() < .6] or [f"  {fs[0]}::{pick(rng, EQ_SCALARS)}"]
            a = {"schema_content": st, "content": "\n".join(["===D===", f"{nm}:"] + body + ["===END==="]) + "\n", "strict": rng.random() < .3,
                 "fix": rng.random() < .3, "gbnf": False}
            if rng.random() < .5:
                a["targets_override"] = {f: pick(rng, ["T_A∨T_B", "T_C∨INDEXER∨T_A∨RISK_LOG", "§T_B∨§T_A∨§T_C∨§SELF∨§META"]) for f in rng.sample(fs, rng.randrange(1, len(fs) + 1))}
            c.update(tool="api", fn="validate_inline", args=a)
        calls.append(c)
    return calls


def gen_calls(rng, n, resources=(), frozen=None):
    """n calls.  `resources`: [(name, text)] packaged .oct.md files used as extra documents.
    `frozen`: {"ref": "frozen@sha256:…", "text": …} installed in every HOME's cache."""
    pool = [gen_doc(rng) for _ in range(max(12, n // 4))]
    pool += [(t, "resource") for _n, t in resources]
    inline = [gen_inline_schema(rng) for _ in range(max(3, n // 40))]
    calls = []
    for i in range(n):
        doc, flav = pick(rng, pool)
        other, _ = pick(rng, pool)
        r = rng.random()
        schema = pick(rng, SCHEMAS) if rng.random() < .8 else pick(rng, ODD_SCHEMAS)
        # documents written for a schema are mostly validated against that schema
        for s in SCHEMAS:
            if f"\n{s}:\n" in doc and rng.random() < .8:
                schema = s
        c = {"id": i, "flavour": flav}
        if r < .34:
            a = {"schema": schema}
            if rng.random() < .25:
                c["files"] = {"in/doc.oct.md": doc}
                a["file_path"] = "$SB/in/doc" + pick(rng, [".oct.md"] * 8 + [".txt", "2.oct.md"])
            else:
                a["content"] = doc
            for flag, p in (("fix", .35), ("debug_grammar", .15), ("grammar_hint", .2), ("diff_only", .15), ("compact", .15)):
                if rng.random() < p:
                    a[flag] = True
            if rng.random() < .4:
                a["profile"] = pick(rng, ["STRICT", "STRICT", "STANDARD", "LENIENT", "LENIENT", "ULTRA", "strict", "BOGUS"])
            c.update(tool="validate", args=a)
        elif r < .64:
            a = {"target_path": "$SB/out/t" + pick(rng, [".oct.md"] * 9 + [".octave", ".md", ".txt"])}
            mode = pick(rng, ["new"] * 4 + ["overwrite"] * 4 + ["changes"] * 4 + ["normalize"] * 2 + ["both"])
            if mode in ("overwrite", "changes", "normalize", "both"):
                c["files"] = {"out/" + a["target_path"].rsplit("/", 1)[1]: other}
                if rng.random() < .4:
                    a["base_hash"] = sha(other) if rng.random() < .8 else "0" * 64
            if mode in ("new", "overwrite", "both"):
                a["content"] = doc
            if mode in ("changes", "both"):
                ch = {}
                for _ in range(rng.randrange(1, 4)):
                    k = pick(rng, ["A", "STATUS", "META.STATUS", "META.NEW", "META", "COUNT", "ZED", "NAME"])
                    ch[k] = pick(rng, ["x", 5, None, True, {"$op": "DELETE"}, ["a", "b"], {"k": "v", "n": [1, 2]}, 1.5, "two words", ""]) \
                        if k != "META" else pick(rng, [{"STATUS": "ACTIVE", "OLD": {"$op": "DELETE"}}, {"$op": "DELETE"}, {"TYPE": "X", "VERSION": "2"}])
                a["changes"] = ch
            if rng.random() < .25:
                a["mutations"] = pick(rng, [{"STATUS": "ACTIVE"}, {"TYPE": "SKILL", "TAGS": ["a", "b"]}, {"VERSION": {"$op": "DELETE"}}, {"N": None}])
            if rng.random() < .6:
                a["schema"] = schema if rng.random() < .85 or not frozen else pick(rng, [frozen["ref"], "latest", "frozen@sha256:" + "ab" * 32, "frozen@sha256:../x"])
            for flag, p in (("lenient", .45), ("corrections_only", .3), ("debug_grammar", .12), ("grammar_hint", .2)):
                if rng.random() < p:
                    a[flag] = True
            if rng.random() < .25:
                a["parse_error_policy"] = pick(rng, ["salvage", "salvage", "error", "bogus"])
            c.update(tool="write", args=a)
        elif r < .78:
            a = {"schema": schema, "content": doc if rng.random() < .92 else None}
            if rng.random() < .7:
                a["mode"] = pick(rng, ["canonical", "authoring", "executive", "developer"])
            if rng.random() < .8:
                a["format"] = pick(rng, ["octave", "json", "yaml", "markdown", "gbnf"])
            c.update(tool="eject", args=a)
        elif r < .88:
            a = {}
            k = rng.random()
            if k < .45:
                a["schema"] = schema
            elif k < .94:
                a["content"] = doc
            elif k < .97:
                a["schema"], a["content"] = schema, doc
            if rng.random() < .5:
                a["format"] = pick(rng, ["gbnf", "json_schema", "json_schema", "ebnf"])
            c.update(tool="compile", args=a)
        else:
            fn = pick(rng, ["parse_emit", "parse_warn", "tokenize", "seal", "project", "validate_api", "validate_api", "schema_extract", "gbnf", "gbnf", "exports",
                            "hydrate", "hydrate", "validate_inline", "validate_inline", "validate_inline"])
            a = {"content": doc}
            if fn == "parse_emit":
                a["twice"] = rng.random() < .5
            if fn == "project":
                a["mode"] = pick(rng, ["canonical", "authoring", "executive", "developer"])
            if fn == "validate_api":
                a.update(schema=pick(rng, SCHEMAS) if schema not in SCHEMAS else schema, strict=rng.random() < .4, fix=rng.random() < .5)
            if fn == "gbnf" and rng.random() < .6:
                a = {"schema": pick(rng, SCHEMAS[1:]), "envelope": rng.random() < .7}
            if fn == "exports":
                a = {"category": pick(rng, [None, "functions", "ast", "operators"])}
            if fn == "validate_inline":
                st, nm, fs = pick(rng, inline)
                a = {"schema_content": st, "content": gen_inline_doc(rng, nm, fs), "strict": rng.random() < .3, "fix": rng.random() < .4, "gbnf": rng.random() < .3}
                if rng.random() < .7:
                    a["targets_override"] = {f: pick(rng, ["T_A∨T_B", "T_C∨INDEXER∨T_A∨RISK_LOG", "§T_B∨§T_A∨§T_C∨§SELF∨§META", "T_A∨NOWHERE∨T_B", "./x∨T_A"])
                                             for f in rng.sample(fs, rng.randrange(1, len(fs) + 1))}
            if fn == "hydrate":
                h = gen_hydrate(rng)
                a, c["files"] = h["args"], h["files"]
            c.update(tool="api", fn=fn, args=a)
        calls.append(c)
    # a further family, drawn from a generator of its own AFTER the stream (the n calls above do not depend on it)
    import random
    calls += gen_eq_scalar_calls(random.Random(f"eq-scalars-{rng.random()}"), max(10, n // 10), inline, n)
    return calls
