"""Independent line-level recogniser of the STRICT PROFILE of canonical OCTAVE text (C03):
explicit ===NAME=== and ===END===, Unicode operators only outside strings/comments/literal zones,
no space around ::, exactly two spaces of indentation per level, no tabs or trailing whitespace
outside literal zones, a single final newline.  Written from the property statement, not from the
emitter; returns a list of violations (empty = in profile)."""
import re

FENCE = re.compile(r"^( *)(`{3,})([^`]*)$")
STRING = re.compile(r'"(?:[^"\\]|\\.)*"')


def check(text: str):
    v = []
    if not text.endswith("\n"):
        v.append("no final newline")
    if text.endswith("\n\n"):
        v.append("more than one final newline")
    lines = text[:-1].split("\n") if text.endswith("\n") else text.split("\n")
    i = 0
    if lines and lines[0] == "---":  # YAML frontmatter is a preserved container, not OCTAVE text
        try:
            j = lines.index("---", 1)
            i = j + 1
            if i < len(lines) and lines[i] == "":
                i += 1
        except ValueError:
            v.append("unterminated frontmatter")
    body = lines[i:]
    if not body:
        return v + ["empty document"]
    k = 0
    if body[0].startswith("OCTAVE::"):
        k = 1
    if k >= len(body) or not re.fullmatch(r"===[A-Za-z_][A-Za-z0-9_]*===", body[k]) or body[k] == "===END===":
        v.append(f"no explicit ===NAME=== envelope (line {i + k + 1}: {body[k] if k < len(body) else ''!r})")
    if body[-1] != "===END===":
        v.append("last line is not ===END===")
    in_zone = None
    prev_indent = 0
    openers = []   # indentation of the lines that opened a still-open multi-line list
    for n, line in enumerate(body, start=i + 1):
        m = FENCE.match(line)
        if in_zone is not None:
            if m and len(m.group(2)) == in_zone and not m.group(3).strip():
                in_zone = None
            continue
        if m:
            in_zone = len(m.group(2))
            if len(m.group(1)) % 2:
                v.append(f"line {n}: odd fence indentation")
            continue
        if "\t" in line:
            v.append(f"line {n}: tab")
        if line != line.rstrip():
            v.append(f"line {n}: trailing whitespace")
        if line.strip() == "":
            if line != "":
                v.append(f"line {n}: whitespace-only line")
            continue
        ind = len(line) - len(line.lstrip(" "))
        if ind % 2:
            v.append(f"line {n}: indentation {ind} is not a multiple of two")
        if ind > prev_indent + 2:
            v.append(f"line {n}: indentation jumps from {prev_indent} to {ind}")
        prev_indent = ind
        code = STRING.sub('""', line)          # drop string contents
        cpos = code.find("//")
        if cpos >= 0:
            code = code[:cpos]                  # drop comment
        # multi-line list layout: items one level (two spaces) deeper than the line that opened the bracket,
        # the closing bracket back at the opener's indentation
        stripped = code.strip()
        if openers:
            if stripped in ("]", "],"):
                if ind != openers[-1]:
                    v.append(f"line {n}: closing bracket at indentation {ind}, its list was opened at {openers[-1]}")
                openers.pop()
            elif ind != openers[-1] + 2:
                v.append(f"line {n}: list item at indentation {ind}, expected {openers[-1] + 2} (two spaces per level)")
        if stripped.endswith("[") and stripped.count("[") > stripped.count("]"):
            openers.append(ind)
        if re.search(r"->|<->|~|\||&|#", code):
            v.append(f"line {n}: ASCII operator alias outside strings/comments: {code.strip()!r}")
        if re.search(r"(?<![eE0-9])\+|(?<![eE])\+", code) and not re.search(r"\d[eE]\+\d", code):
            v.append(f"line {n}: '+' alias outside strings/comments: {code.strip()!r}")
        if re.search(r"(?<![A-Za-z0-9_.\-])vs(?![A-Za-z0-9_.\-])", code):
            v.append(f"line {n}: 'vs' alias outside strings/comments: {code.strip()!r}")
        if re.search(r" ::|:: ", code):
            v.append(f"line {n}: space around '::'")
    if in_zone is not None:
        v.append("unterminated literal zone")
    return v
