"""Single-site content mutations of a model document (C15 tamper search) and the cosmetic styles.

Every mutation is (kind, description, mutated_model).  Mutations never touch a top-level section keyed SEAL
(the seal itself) except the dedicated hash mutations; the one that INSERTS a section keyed SEAL is the class
of known finding F26."""
from __future__ import annotations

import copy
import math

from harness import project_docs as PD

SEAL = "SEAL"


def is_seal(n):
    return n["n"] == "s" and n["k"] == SEAL


def body_sites(doc):
    """[(children_list, index)] of every node outside the seal section, in document order (lists are live
    references into `doc`)."""
    out = []

    def rec(lst):
        for i, n in enumerate(lst):
            if is_seal(n) and lst is doc["sections"]:
                continue
            out.append((lst, i))
            if n["n"] in ("b", "s"):
                rec(n["c"])
    rec(doc["sections"])
    return out


def _other_scalar(v):
    t = v["t"]
    if t == "str":
        return PD.vstr(v["v"] + "x" if v["v"] != "x" else "y")
    if t == "int":
        return PD.vint(int(v["v"]) + 1)
    if t == "float":
        return PD.vfloat(repr(float(v["v"]) + 1.0))
    if t == "bool":
        return PD.vbool(not v["v"])
    if t == "null":
        return PD.vint(0)
    return None


def _retype(v):
    """The same spelling with another type (1 -> "1", "1" -> 1, true -> "true", null -> "null", …)."""
    t = v["t"]
    if t == "int":
        return [PD.vstr(v["v"]), {"t": "float", "v": repr(float(int(v["v"])))}] if abs(int(v["v"])) < 10**15 else [PD.vstr(v["v"])]
    if t == "float":
        return [PD.vstr(v["v"])]
    if t == "bool":
        return [PD.vstr("true" if v["v"] else "false")]
    if t == "null":
        return [PD.vstr("null")]
    if t == "str":
        s = v["v"]
        if s in ("true", "false"):
            return [PD.vbool(s == "true")]
        if s == "null":
            return [PD.vnull()]
        if s.lstrip("-").isdigit() and s == str(int(s)):
            return [PD.vint(int(s))]
        try:
            if repr(float(s)) == s:
                return [{"t": "float", "v": s}]
        except ValueError:
            pass
        return [PD.vlist([PD.vstr(s)])]       # scalar -> one-element list
    if t == "list" and len(v["v"]) == 1 and v["v"][0]["t"] != "imap":
        return [v["v"][0]]                      # one-element list -> scalar
    return []


def value_mutations(v):
    """[(kind, new_value)] single-site edits inside one leaf value."""
    out = []
    o = _other_scalar(v)
    if o is not None:
        out.append(("replace_value", o))
    for r in _retype(v):
        out.append(("retype_value", r))
    t = v["t"]
    if t == "float":
        # a NEARBY number (same magnitude): a change that only shows in the low digits / the exponent
        x = float(v["v"])
        near = x * 3 if x != 0.0 else 1e-09
        if repr(near) != repr(x):
            out.append(("replace_float_nearby", PD.vfloat(repr(near))))
        nxt = math.nextafter(x, math.inf)
        if repr(nxt) != repr(x):
            out.append(("replace_float_next_double", PD.vfloat(repr(nxt))))
    if t == "list":
        xs = v["v"]
        out.append(("list_insert_item", PD.vlist(xs + [PD.vstr("added")])))
        out.append(("list_insert_item_front", PD.vlist([PD.vint(7)] + xs)))
        if xs:
            out.append(("list_delete_item", PD.vlist(xs[:-1])))
            out.append(("list_delete_first", PD.vlist(xs[1:])))
            out.append(("list_nest", PD.vlist([PD.vlist(xs)])))
            for i, x in enumerate(xs[:3]):
                if x["t"] == "imap" and x["v"]:
                    k, iv = x["v"][0]
                    o2 = _other_scalar(iv)
                    if o2 is not None:
                        out.append(("imap_replace_value", PD.vlist(xs[:i] + [PD.vimap([(k, o2)] + [tuple(p) for p in x["v"][1:]])] + xs[i + 1:])))
                    out.append(("imap_rename_key", PD.vlist(xs[:i] + [PD.vimap([(k + "x", iv)] + [tuple(p) for p in x["v"][1:]])] + xs[i + 1:])))
                else:
                    o2 = _other_scalar(x)
                    if o2 is not None:
                        out.append(("list_replace_item", PD.vlist(xs[:i] + [o2] + xs[i + 1:])))
                    for r in _retype(x)[:1]:
                        if r["t"] != "list" or x["t"] != "str":
                            out.append(("list_retype_item", PD.vlist(xs[:i] + [r] + xs[i + 1:])))
        if len(xs) >= 2 and xs[0] != xs[1]:
            out.append(("list_swap_items", PD.vlist([xs[1], xs[0]] + xs[2:])))
    if t == "zone":
        out.append(("zone_edit_content", PD.vzone(v["c"] + "!", v["tag"], v["f"])))
        out.append(("zone_edit_content_newline", PD.vzone(v["c"] + "\n", v["tag"], v["f"])))
        if v["c"]:
            # whitespace-only edits of the verbatim content are changes of the value too
            ls = v["c"].split("\n")
            out.append(("zone_trailing_space_first_line", PD.vzone("\n".join([ls[0] + "  "] + ls[1:]), v["tag"], v["f"])))
            out.append(("zone_trailing_tab_last_line", PD.vzone("\n".join(ls[:-1] + [ls[-1] + "\t"]), v["tag"], v["f"])))
            out.append(("zone_leading_space", PD.vzone(" " + v["c"], v["tag"], v["f"])))
            if ls[0].rstrip() != ls[0]:
                out.append(("zone_strip_trailing_space", PD.vzone("\n".join([ls[0].rstrip()] + ls[1:]), v["tag"], v["f"])))
        out.append(("zone_change_tag", PD.vzone(v["c"], "txt" if v["tag"] != "txt" else None, v["f"])))
        out.append(("zone_to_string", PD.vstr(v["c"])))
    if t == "holo":
        out.append(("holo_to_string", PD.vstr(v["raw"])))
    return out


RENAME = {"a": "RENAMED", "b": "RENAMED_BLK", "s": "RENAMED_SEC"}


def mutations(doc, rng=None, cap=None):
    """All single-site mutations of the body / envelope / stored hash of a (sealed) model document."""
    out = []

    def emit(kind, what, m):
        out.append((kind, what, m))

    sites = body_sites(doc)
    for si, (lst, i) in enumerate(sites):
        def at(f, si=si):
            m = copy.deepcopy(doc)
            l2, i2 = body_sites(m)[si]
            f(l2, i2)
            return m
        n = lst[i]
        path = n.get("k", "//")
        if n["n"] == "a":
            for kind, nv in value_mutations(n["v"]):
                emit(kind, path, at(lambda l, j, nv=nv: l[j].__setitem__("v", nv)))
        if n["n"] in ("a", "b", "s"):
            emit("rename_key", path, at(lambda l, j: l[j].__setitem__("k", RENAME[l[j]["n"]])))
            emit("delete_node", path, at(lambda l, j: l.pop(j)))
            emit("insert_leaf_before", path, at(lambda l, j: l.insert(j, PD.A("INSERTED", PD.vint(1)))))
            emit("duplicate_node", path, at(lambda l, j: l.insert(j, copy.deepcopy(l[j]))))
        if n["n"] == "s":
            emit("change_section_id", path, at(lambda l, j: l[j].__setitem__("id", "9" if l[j]["id"] != "9" else "8")))
        if n["n"] in ("b", "s"):
            emit("insert_leaf_inside", path, at(lambda l, j: l[j]["c"].append(PD.A("INSERTED", PD.vstr("x")))))
            if n["c"]:
                # nesting: pull the first child out, in front of its parent
                emit("unnest_first_child", path, at(lambda l, j: l.insert(j, l[j]["c"].pop(0))))
                # … and the last child out, right after its parent: the same lines in the same order, only the
                # indentation of one node changes
                emit("unnest_last_child", path, at(lambda l, j: l.insert(j + 1, l[j]["c"].pop())))
            if i + 1 < len(lst) and not (lst is doc["sections"] and is_seal(lst[i + 1])):
                # the next sibling becomes the last child (indentation-only change as well)
                emit("nest_next_sibling", path, at(lambda l, j: l[j]["c"].append(l.pop(j + 1))))
            emit("block_to_section" if n["n"] == "b" else "section_to_block", path,
                 at(lambda l, j: l.__setitem__(j, PD.S("1", l[j]["k"], l[j]["c"]) if l[j]["n"] == "b" else PD.B(l[j]["k"], l[j]["c"]))))
        if n["n"] == "a":
            emit("leaf_to_block", path, at(lambda l, j: l.__setitem__(j, PD.B(l[j]["k"], [PD.A("V", l[j]["v"])])) if l[j]["v"]["t"] != "zone" else l.__setitem__(j, PD.B(l[j]["k"], [PD.A("V", PD.vint(0))]))))
        # order / nesting with the next sibling
        if i + 1 < len(lst) and not (lst is doc["sections"] and is_seal(lst[i + 1])) and lst[i] != lst[i + 1]:
            emit("swap_with_next", path, at(lambda l, j: l.__setitem__(slice(j, j + 2), [l[j + 1], l[j]])))
            if lst[i + 1]["n"] in ("b", "s") and n["n"] in ("a",):
                emit("move_into_next_container", path, at(lambda l, j: l[j + 1]["c"].insert(0, l.pop(j))))
    # top level: append after the last body node (before the seal) and after the seal
    seal_idx = [i for i, n in enumerate(doc["sections"]) if is_seal(n)]

    def top(f):
        m = copy.deepcopy(doc)
        f(m)
        return m
    pos = seal_idx[0] if seal_idx else len(doc["sections"])
    emit("insert_leaf_top", "before seal", top(lambda m: m["sections"].insert(pos, PD.A("INSERTED", PD.vint(1)))))
    emit("insert_block_top", "before seal", top(lambda m: m["sections"].insert(pos, PD.B("INSERTED_BLK", [PD.A("X", PD.vint(1))]))))
    emit("insert_section_top", "before seal", top(lambda m: m["sections"].insert(pos, PD.S("7", "INSERTED_SEC", [PD.A("X", PD.vint(1))]))))
    emit("insert_leaf_top", "at start", top(lambda m: m["sections"].insert(0, PD.A("INSERTED", PD.vstr("x")))))
    if seal_idx:
        emit("insert_leaf_top", "after seal", top(lambda m: m["sections"].append(PD.A("INSERTED", PD.vint(1)))))
        emit("insert_block_top", "after seal", top(lambda m: m["sections"].append(PD.B("INSERTED_BLK", [PD.A("X", PD.vint(1))]))))
        # F26: a second section keyed SEAL (after the seal / before the seal with no assignment child)
        emit("insert_seal_keyed_section", "after seal", top(lambda m: m["sections"].append(PD.S("9", SEAL, [PD.A("EVIL", PD.vint(1))]))))
        emit("insert_seal_keyed_section", "before seal, block child only", top(lambda m: m["sections"].insert(pos, PD.S("9", SEAL, [PD.B("EVIL", [PD.A("X", PD.vint(1))])]))))
    # envelope
    emit("envelope_name", "", top(lambda m: m.__setitem__("name", m["name"] + "_X")))
    emit("envelope_name_case", "", top(lambda m: m.__setitem__("name", m["name"].swapcase())))
    if doc["meta"]:
        k0, v0 = doc["meta"][0]
        o = _other_scalar(v0)
        if o is not None:
            emit("meta_replace_value", k0, top(lambda m: m["meta"].__setitem__(0, [k0, o])))
        emit("meta_rename_key", k0, top(lambda m: m["meta"].__setitem__(0, [k0 + "_X", v0])))
        emit("meta_delete_field", k0, top(lambda m: m["meta"].pop(0)))
        if len(doc["meta"]) >= 2 and doc["meta"][0] != doc["meta"][1]:
            emit("meta_swap_fields", k0, top(lambda m: m["meta"].__setitem__(slice(0, 2), [m["meta"][1], m["meta"][0]])))
        for r in _retype(v0)[:1]:
            if r["t"] != "list":
                emit("meta_retype_value", k0, top(lambda m, r=r: m["meta"].__setitem__(0, [k0, r])))
    emit("meta_add_field", "", top(lambda m: m["meta"].append(["ADDED", PD.vstr("x")])))
    if doc["front"] is not None:
        emit("frontmatter_edit", "", top(lambda m: m.__setitem__("front", m["front"] + "\nextra: 1")))
        emit("frontmatter_trailing_space", "", top(lambda m: m.__setitem__("front", m["front"] + "  ")))
        emit("frontmatter_remove", "", top(lambda m: m.__setitem__("front", None)))
    elif not doc["gv"]:
        emit("frontmatter_add", "", top(lambda m: m.__setitem__("front", "added: true")))
    # stored hash
    for si in seal_idx[:1]:
        ch = doc["sections"][si]["c"]
        hi = [i for i, c in enumerate(ch) if c["n"] == "a" and c["k"] == "HASH"]
        if hi and ch[hi[0]]["v"]["t"] == "str":
            h = ch[hi[0]]["v"]["v"]

            def seth(nh):
                m = copy.deepcopy(doc)
                m["sections"][si]["c"][hi[0]]["v"] = PD.vstr(nh)
                return m
            flip = {"0": "1", "f": "e"}
            positions = sorted(set([0, 1, len(h) // 2, len(h) - 2, len(h) - 1] + ([rng.randrange(len(h)) for _ in range(3)] if rng else [])))
            for p in positions:
                c = h[p]
                nc = flip.get(c, "0" if c != "0" else "1")
                emit("hash_flip_digit", f"pos {p}", seth(h[:p] + nc + h[p + 1:]))
            emit("hash_drop_last", "", seth(h[:-1]))
            emit("hash_drop_first", "", seth(h[1:]))
            emit("hash_append_digit", "", seth(h + "0"))
            emit("hash_prepend_digit", "", seth("0" + h))
            emit("hash_uppercase", "", seth(h.upper()) if h.upper() != h else seth(h[:-1] + "g"))
            emit("hash_empty", "", seth(""))
            emit("hash_swap_halves", "", seth(h[32:] + h[:32]) if h[32:] != h[:32] else seth("0" * 64))
    # drop no-ops (e.g. swapping equal siblings)
    out = [(k, w, m) for (k, w, m) in out if m != doc]
    if cap is not None and len(out) > cap and rng is not None:
        # keep every kind represented, sample the rest
        by_kind: dict = {}
        for x in out:
            by_kind.setdefault(x[0], []).append(x)
        keep = [rng.choice(v) for v in by_kind.values()]
        rest = [x for x in out if x not in keep]
        rng.shuffle(rest)
        out = keep + rest[:max(0, cap - len(keep))]
    return out


def strip_seal(doc):
    """The model document without its top-level sections keyed SEAL (what the seal covers)."""
    return {**doc, "sections": [n for n in doc["sections"] if not is_seal(n)]}


def count_seal_sections(doc):
    return sum(1 for n in doc["sections"] if is_seal(n))
