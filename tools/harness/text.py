"""Harness of the `text` engine: per-case Env construction, canonical forms of tokens / AST /
exceptions of the real implementation, corpus loading.  The implementation is imported from
$VERIF_REPO/src (vlib sets sys.path)."""
from __future__ import annotations

import re
import unicodedata
from pathlib import Path

import vlib

NUMBER_RE = re.compile(r"-?\d+\.?\d*(?:[eE][+-]?\d+)?")
OPERATOR_CHARS = "→⊕⧺⇌∧∨§"


def char_flags(c: str) -> str:
    """Classification of a non-ASCII char, computed from CPython's own tables (NOT from the repo's
    helper functions, so that a change of the repo's category lists shows up as a disagreement)."""
    cat = unicodedata.category(c)
    f = ""
    start = cat.startswith("L") or cat in ("So", "Sm", "No", "Sk", "Po")
    if start and c not in OPERATOR_CHARS:
        f += "S"
    if start and c not in OPERATOR_CHARS or cat.startswith("N") or cat.startswith("M"):
        f += "C"
    if re.match(r"\w", c):
        f += "W"
    if c.isalpha():
        f += "A"
    if c.isalnum():
        f += "N"
    if c.isspace():
        f += "P"
    return f


def make_env(s: str) -> dict:
    env: dict = {}
    texts = [s]
    if not s.isascii():
        nfc = {}
        for line in s.split("\n"):
            n = unicodedata.normalize("NFC", line)
            if n != line:
                nfc[line] = n
                texts.append(n)
        if nfc:
            env["nfc"] = nfc
        cls, dig = {}, {}
        for t in texts:
            for c in t:
                if ord(c) >= 128 and c not in cls:
                    cls[c] = char_flags(c)
                    if re.match(r"\d", c):
                        try:
                            dig[c] = int(c)
                        except ValueError:
                            pass
        env["cls"] = cls
        if dig:
            env["dig"] = dig
    fl = {}
    for t in texts:
        for m in re.finditer(r"[-\d]", t):
            mm = NUMBER_RE.match(t, m.start())
            if mm:
                lex = mm.group()
                if ("." in lex or "e" in lex.lower()) and lex not in fl:
                    try:
                        fl[lex] = repr(float(lex))
                    except (ValueError, OverflowError):
                        pass
    if fl:
        env["fl"] = fl
    return env


def enc_tval(ttype: str, v):
    if v is None:
        return None
    if isinstance(v, bool):
        return v
    if ttype == "INDENT":
        return {"n": v}
    if isinstance(v, int):
        return {"i": str(v)}
    if isinstance(v, float):
        return {"f": repr(v)}
    if isinstance(v, str):
        return {"s": v}
    if isinstance(v, dict):
        return {"marker": v.get("fence_marker"), "tag": v.get("info_tag")}
    return {"?": repr(v)}


def canon_exc(e: BaseException):
    from octave_mcp.core.lexer import LexerError
    from octave_mcp.core.parser import ParserError
    if isinstance(e, LexerError):
        return ["LexerError", e.error_code, e.line, e.column]
    if isinstance(e, ParserError):
        t = e.token
        return ["ParserError", e.error_code, t.line if t else None, t.column if t else None]
    return [type(e).__name__]


def canon_repair(r: dict):
    t = r.get("type")
    if t == "normalization":
        v = r["normalized"]
        return ["normalization", r["original"], enc_tval("STRING", v), r["line"], r["column"]]
    if t == "spec_violation" and r.get("subtype") == "wrong_case":
        return ["wrong_case", r["original"], r["correct"], r["line"], r["column"]]
    if t == "spec_violation" and r.get("subtype") == "boundary_missing":
        return ["boundary_missing", r["original"], r["line"], r["column"]]
    if t == "repair_candidate":
        return ["curly_brace_annotation", r["original"], r["repaired"], r["line"], r["column"]]
    return ["?", repr(sorted(r.items()))]


def py_tokenize(s: str, lenient: bool = False):
    """Canonical result of the real tokenize: {"tokens": [...], "repairs": [...]} or {"err": [...]}."""
    from octave_mcp.core.lexer import tokenize
    try:
        toks, reps = tokenize(s, lenient=lenient)
    except BaseException as e:  # noqa: BLE001 - the exception class is the observable
        return {"err": canon_exc(e)}
    return {"tokens": [[t.type.name, enc_tval(t.type.name, t.value), t.line, t.column, t.normalized_from, t.raw] for t in toks],
            "repairs": [canon_repair(r) for r in reps]}


def corpus_files():
    """Every OCTAVE document shipped with the repository (packaged resources, examples, docs vectors)."""
    roots = [vlib.SRC / "octave_mcp" / "resources", vlib.REPO / "examples", vlib.REPO / "docs", vlib.REPO / "tests" / "fixtures"]
    seen = []
    for r in roots:
        if r.exists():
            for p in sorted(r.rglob("*")):
                if p.is_file() and (p.name.endswith(".oct.md") or p.suffix == ".octave"):
                    seen.append(p)
    return seen
