"""Harness of the `text` engine: per-case Env construction, canonical forms of tokens / AST /
exceptions of the real implementation, corpus loading.  The implementation is imported from
$VERIF_REPO/src (vlib sets sys.path)."""
from __future__ import annotations

import re
import unicodedata
from pathlib import Path

import vlib

NUMBER_RE = re.compile(r"-?\d+\.?\d*(?:[eE][+-]?\d+)?")
OPERATOR_CHARS = "→⊕⧺⇌∧∨§"


def char_flags(c: str) -> str:
    """Classification of a non-ASCII char, computed from CPython's own tables (NOT from the repo's
    helper functions, so that a change of the repo's category lists shows up as a disagreement)."""
    cat = unicodedata.category(c)
    f = ""
    start = cat.startswith("L") or cat in ("So", "Sm", "No", "Sk", "Po")
    if start and c not in OPERATOR_CHARS:
        f += "S"
    if start and c not in OPERATOR_CHARS or cat.startswith("N") or cat.startswith("M"):
        f += "C"
    if re.match(r"\w", c):
        f += "W"
    if c.isalpha():
        f += "A"
    if c.isalnum():
        f += "N"
    if c.isspace():
        f += "P"
    return f


def make_env(s: str) -> dict:
    env: dict = {}
    texts = [s]
    if not s.isascii():
        nfc = {}
        for line in s.split("\n"):
            n = unicodedata.normalize("NFC", line)
            if n != line:
                nfc[line] = n
                texts.append(n)
        if nfc:
            env["nfc"] = nfc
        cls, dig = {}, {}
        for t in texts:
            for c in t:
                if ord(c) >= 128 and c not in cls:
                    cls[c] = char_flags(c)
                    if re.match(r"\d", c):
                        try:
                            dig[c] = int(c)
                        except ValueError:
                            pass
        env["cls"] = cls
        if dig:
            env["dig"] = dig
    fl = {}
    for t in texts:
        for m in re.finditer(r"[-\d]", t):
            mm = NUMBER_RE.match(t, m.start())
            if mm:
                lex = mm.group()
                if ("." in lex or "e" in lex.lower()) and lex not in fl:
                    try:
                        fl[lex] = repr(float(lex))
                    except (ValueError, OverflowError):
                        pass
    if fl:
        env["fl"] = fl
    return env


def enc_tval(ttype: str, v):
    if v is None:
        return None
    if isinstance(v, bool):
        return v
    if ttype == "INDENT":
        return {"n": v}
    if isinstance(v, int):
        return {"i": str(v)}
    if isinstance(v, float):
        return {"f": repr(v)}
    if isinstance(v, str):
        return {"s": v}
    if isinstance(v, dict):
        return {"marker": v.get("fence_marker"), "tag": v.get("info_tag")}
    return {"?": repr(v)}


def canon_exc(e: BaseException):
    from octave_mcp.core.lexer import LexerError
    from octave_mcp.core.parser import ParserError
    if isinstance(e, LexerError):
        return ["LexerError", e.error_code, e.line, e.column]
    if isinstance(e, ParserError):
        t = e.token
        return ["ParserError", e.error_code, t.line if t else None, t.column if t else None]
    return [type(e).__name__]


def canon_repair(r: dict):
    t = r.get("type")
    if t == "normalization":
        v = r["normalized"]
        return ["normalization", r["original"], enc_tval("STRING", v), r["line"], r["column"]]
    if t == "spec_violation" and r.get("subtype") == "wrong_case":
        return ["wrong_case", r["original"], r["correct"], r["line"], r["column"]]
    if t == "spec_violation" and r.get("subtype") == "boundary_missing":
        return ["boundary_missing", r["original"], r["line"], r["column"]]
    if t == "repair_candidate":
        return ["curly_brace_annotation", r["original"], r["repaired"], r["line"], r["column"]]
    return ["?", repr(sorted(r.items()))]


def py_tokenize(s: str, lenient: bool = False):
    """Canonical result of the real tokenize: {"tokens": [...], "repairs": [...]} or {"err": [...]}."""
    from octave_mcp.core.lexer import tokenize
    try:
        toks, reps = tokenize(s, lenient=lenient)
    except BaseException as e:  # noqa: BLE001 - the exception class is the observable
        return {"err": canon_exc(e)}
    return {"tokens": [[t.type.name, enc_tval(t.type.name, t.value), t.line, t.column, t.normalized_from, t.raw] for t in toks],
            "repairs": [canon_repair(r) for r in reps]}


def corpus_files():
    """Every OCTAVE document shipped with the repository (packaged resources, examples, docs vectors)."""
    roots = [vlib.SRC / "octave_mcp" / "resources", vlib.REPO / "examples", vlib.REPO / "docs", vlib.REPO / "tests" / "fixtures"]
    seen = []
    for r in roots:
        if r.exists():
            for p in sorted(r.rglob("*")):
                if p.is_file() and (p.name.endswith(".oct.md") or p.suffix == ".octave"):
                    seen.append(p)
    return seen


# ---------------------------------------------------------------------------------------------
# AST <-> JSON (canonical form shared with the Lean driver)
# ---------------------------------------------------------------------------------------------

def value_to_json(v):
    from octave_mcp.core.ast_nodes import Absent, HolographicValue, InlineMap, ListValue, LiteralZoneValue
    if v is None:
        return None
    if isinstance(v, bool):
        return v
    if isinstance(v, int):
        return {"i": str(v)}
    if isinstance(v, float):
        return {"f": repr(v)}
    if isinstance(v, str):
        return {"s": v}
    if isinstance(v, Absent):
        return {"absent": True}
    if isinstance(v, ListValue):
        return {"l": [value_to_json(x) for x in v.items]}
    if isinstance(v, InlineMap):
        return {"m": [[k, value_to_json(x)] for k, x in v.pairs.items()]}
    if isinstance(v, HolographicValue):
        return {"h": v.raw_pattern}
    if isinstance(v, LiteralZoneValue):
        return {"z": {"c": v.content, "t": v.info_tag, "m": v.fence_marker}}
    if isinstance(v, dict):
        return {"pydict": [[k, value_to_json(x)] for k, x in v.items()]}
    return {"obj": repr(v)}


def node_to_json(n):
    from octave_mcp.core.ast_nodes import Assignment, Block, Comment, Section
    if isinstance(n, Assignment):
        return {"a": {"k": n.key, "v": value_to_json(n.value), "ln": n.line, "col": n.column,
                      "lead": list(getattr(n, "leading_comments", []) or []), "trail": getattr(n, "trailing_comment", None)}}
    if isinstance(n, Block):
        return {"b": {"k": n.key, "ch": [node_to_json(c) for c in n.children], "ln": n.line, "col": n.column,
                      "lead": list(getattr(n, "leading_comments", []) or []), "target": getattr(n, "target", None)}}
    if isinstance(n, Section):
        return {"sec": {"id": n.section_id, "k": n.key, "ann": n.annotation, "ch": [node_to_json(c) for c in n.children],
                        "ln": n.line, "col": n.column, "lead": list(getattr(n, "leading_comments", []) or [])}}
    if isinstance(n, Comment):
        return {"c": n.text}
    return {"obj": repr(n)}


def meta_to_json(meta: dict):
    out = []
    for k, v in meta.items():
        if isinstance(v, dict):
            out.append([k, {"d": [[k2, value_to_json(v2)] for k2, v2 in v.items()]}])
        else:
            out.append([k, {"v": value_to_json(v)}])
    return out


def doc_to_json(doc):
    return {"name": doc.name, "meta": meta_to_json(doc.meta), "sep": bool(doc.has_separator),
            "sections": [node_to_json(s) for s in doc.sections], "gv": doc.grammar_version,
            "fm": doc.raw_frontmatter, "trailing": list(getattr(doc, "trailing_comments", []) or [])}


def json_to_value(j):
    from octave_mcp.core.ast_nodes import Absent, HolographicValue, InlineMap, ListValue, LiteralZoneValue
    if j is None or isinstance(j, bool):
        return j
    if "s" in j:
        return j["s"]
    if "i" in j:
        return int(j["i"])
    if "f" in j:
        return float(j["f"])
    if "l" in j:
        return ListValue(items=[json_to_value(x) for x in j["l"]])
    if "m" in j:
        return InlineMap(pairs={k: json_to_value(v) for k, v in j["m"]})
    if "h" in j:
        return HolographicValue(example=None, constraints=None, target=None, raw_pattern=j["h"])
    if "z" in j:
        return LiteralZoneValue(content=j["z"]["c"], info_tag=j["z"]["t"], fence_marker=j["z"]["m"])
    return Absent()


def json_to_node(j):
    from octave_mcp.core.ast_nodes import Assignment, Block, Comment, Section
    if "a" in j:
        a = j["a"]
        return Assignment(key=a["k"], value=json_to_value(a["v"]), line=a.get("ln", 0), column=a.get("col", 0),
                          leading_comments=list(a.get("lead", [])), trailing_comment=a.get("trail"))
    if "b" in j:
        b = j["b"]
        return Block(key=b["k"], children=[json_to_node(c) for c in b["ch"]], line=b.get("ln", 0), column=b.get("col", 0),
                     leading_comments=list(b.get("lead", [])), target=b.get("target"))
    if "sec" in j:
        s = j["sec"]
        return Section(section_id=s["id"], key=s["k"], annotation=s.get("ann"), children=[json_to_node(c) for c in s["ch"]],
                       line=s.get("ln", 0), column=s.get("col", 0), leading_comments=list(s.get("lead", [])))
    return Comment(text=j["c"])


def json_to_doc(j):
    from octave_mcp.core.ast_nodes import Document
    d = Document()
    d.name = j.get("name", "INFERRED")
    meta = {}
    for k, mv in j.get("meta", []):
        meta[k] = json_to_value(mv["v"]) if "v" in mv else {k2: json_to_value(v2) for k2, v2 in mv["d"]}
    d.meta = meta
    d.has_separator = bool(j.get("sep", False))
    d.sections = [json_to_node(s) for s in j.get("sections", [])]
    d.grammar_version = j.get("gv")
    d.raw_frontmatter = j.get("fm")
    d.trailing_comments = list(j.get("trailing", []))
    return d


def canon_warning(w: dict):
    st = w.get("subtype")
    if st == "duplicate_key":
        return ["duplicate_key", w["key"], w["first_line"], w["duplicate_line"], list(w["all_lines"])]
    if st in ("bare_flow", "constraint_outside_brackets", "chained_tension", "unclosed_list"):
        return [st, w["line"], w["column"]]
    if st in ("pattern_autoquote", "constructor_misuse"):
        return [st, w["key"], w["value"], w["line"], w["column"]]
    if st == "bare_line_dropped":
        return [st, w["original"], w["line"], w["column"]]
    if st == "multi_word_coalesce":
        return [st, list(w["original"]), w["result"], w.get("context", ""), w["line"], w["column"]]
    if st == "source_compile_value":
        return [st, w["original"], w["line"], w["column"]]
    if st == "deep_nesting":
        return [st, w["depth"], w["threshold"], w["line"], w["column"]]
    if st == "nested_inline_map":
        return [st, w["key"], w["line"], w["column"]]
    return ["?", repr(sorted((k, repr(v)) for k, v in w.items()))]


def py_parse(s: str):
    from octave_mcp.core.parser import parse
    try:
        return {"doc": doc_to_json(parse(s))}
    except BaseException as e:  # noqa: BLE001
        return {"err": canon_exc(e)}


def py_parse_warn(s: str):
    from octave_mcp.core.parser import parse_with_warnings
    try:
        doc, ws = parse_with_warnings(s)
    except BaseException as e:  # noqa: BLE001
        return {"err": canon_exc(e)}
    reps = [canon_repair(w) for w in ws if w.get("type") in ("normalization", "repair_candidate") or (w.get("type") == "spec_violation" and w.get("subtype") in ("wrong_case", "boundary_missing"))]
    warns = [canon_warning(w) for w in ws if not (w.get("type") in ("normalization", "repair_candidate") or (w.get("type") == "spec_violation" and w.get("subtype") in ("wrong_case", "boundary_missing")))]
    return {"doc": doc_to_json(doc), "repairs": reps, "warnings": warns}


def py_parse_meta_only(s: str):
    from octave_mcp.core.parser import parse_meta_only
    try:
        return {"meta": meta_to_json(parse_meta_only(s))}
    except BaseException as e:  # noqa: BLE001
        return {"err": canon_exc(e)}


def py_emit(docj: dict):
    from octave_mcp.core.emitter import emit
    try:
        return {"text": emit(json_to_doc(docj))}
    except BaseException as e:  # noqa: BLE001
        return {"err": [type(e).__name__]}


def model_unsupported(rep: dict) -> bool:
    e = rep.get("err")
    return bool(e) and e[0] in ("MODEL_UNSUPPORTED", "MODEL_OUT_OF_FUEL")
