"""Independent GBNF (llama.cpp grammar syntax) parser / well-formedness checker / matcher / enumerator.

Written from the published syntax (llama.cpp grammars/README.md and the behaviour of its recursive
descent parser), *independently* of the Lean recogniser `Octave/Spec/GbnfSyntax.lean` (which is a
two-stage token automaton).  This one is a character-level recursive descent parser.  The C12 check
runs both on every grammar string and requires them to agree.

Syntax implemented
  grammar   := space(nl) rule* EOF
  rule      := name space(no-nl) "::=" space(nl) alternates(top) ( "\r\n" | "\r" | "\n" | EOF ) space(nl)
  alternates:= sequence ( "|" space(nl) sequence )*
  sequence  := item*          (items are followed by space(nested))
  item      := literal | class | name | "(" space(nl) alternates(nested) ")" | "."
             | ("*" | "+" | "?" | "{" int "}" | "{" int "," int? "}")      -- needs a preceding symbol
  literal   := '"' char* '"'          char := any character except '"' and '\\'   (newline allowed)
                                           | '\\' (n r t \\ " [ ] | xHH | uHHHH | UHHHHHHHH)
  class     := "[" "^"? ( char ( "-" char )? )* "]"     (char as above but terminated by ']')
  name      := [a-zA-Z0-9-]+   (lenient flag: also '_')
  space(nl) := ( " " | "\t" | "#" [^\r\n]* | nl-only: "\r" | "\n" )*
Well-formed := parses  and  root defined  and  every referenced rule defined  and  no rule defined
               twice  and  no empty alternative.
"""
from __future__ import annotations

from dataclasses import dataclass, field


class GbnfError(Exception):
    pass


HEX = "0123456789abcdefABCDEF"


@dataclass
class Grammar:
    rules: list = field(default_factory=list)        # [(name, alts)] in definition order
    empty_alts: list = field(default_factory=list)    # names of rules containing an empty alternative

    def table(self):
        t = {}
        for n, a in self.rules:
            t.setdefault(n, a)          # first definition (irrelevant for well-formed grammars)
        return t


class _P:
    def __init__(self, text: str, lenient: bool):
        self.s = text
        self.n = len(text)
        self.lenient = lenient
        self.cur_rule = None
        self.g = Grammar()

    def word(self, c):
        return ("a" <= c <= "z") or ("A" <= c <= "Z") or ("0" <= c <= "9") or c == "-" or (self.lenient and c == "_")

    def peek(self, i):
        return self.s[i] if i < self.n else ""

    def space(self, i, nl):
        while i < self.n:
            c = self.s[i]
            if c == " " or c == "\t" or (nl and (c == "\r" or c == "\n")):
                i += 1
            elif c == "#":
                while i < self.n and self.s[i] not in "\r\n":
                    i += 1
            else:
                break
        return i

    def name(self, i):
        j = i
        while j < self.n and self.word(self.s[j]):
            j += 1
        if j == i:
            raise GbnfError(f"expecting name at {i}")
        return self.s[i:j], j

    def char(self, i):
        """one (possibly escaped) character; returns (char, next)."""
        if i >= self.n:
            raise GbnfError("unexpected end of input")
        c = self.s[i]
        if c != "\\":
            return c, i + 1
        e = self.peek(i + 1)
        if e in ("x", "u", "U"):
            k = {"x": 2, "u": 4, "U": 8}[e]
            h = self.s[i + 2:i + 2 + k]
            if len(h) != k or any(x not in HEX for x in h):
                raise GbnfError(f"expecting {k} hex chars at {i}")
            v = int(h, 16)
            if v > 0x10FFFF:
                raise GbnfError("code point out of range")
            return chr(v), i + 2 + k
        if e == "t":
            return "\t", i + 2
        if e == "r":
            return "\r", i + 2
        if e == "n":
            return "\n", i + 2
        if e in ("\\", '"', "[", "]") and e != "":
            return e, i + 2
        raise GbnfError(f"unknown escape at {i}")

    def sequence(self, i, nested):
        items = []
        last_sym = False          # is there a preceding symbol a quantifier can apply to?
        while i < self.n:
            c = self.s[i]
            if c == '"':
                i += 1
                buf = []
                while self.peek(i) != '"':
                    ch, i = self.char(i)
                    buf.append(ch)
                i = self.space(i + 1, nested)
                items.append(("lit", "".join(buf)))
                last_sym = bool(buf)
            elif c == "[":
                i += 1
                neg = False
                if self.peek(i) == "^":
                    neg = True
                    i += 1
                ranges = []
                while self.peek(i) != "]":
                    lo, i = self.char(i)
                    if self.peek(i) == "-" and self.peek(i + 1) != "]":
                        if i + 1 >= self.n:
                            raise GbnfError("unexpected end of input")
                        hi, i = self.char(i + 1)
                        ranges.append((lo, hi))
                    else:
                        ranges.append((lo, lo))
                i = self.space(i + 1, nested)
                items.append(("cls", neg, ranges))
                last_sym = bool(ranges)
            elif self.word(c):
                nm, i = self.name(i)
                i = self.space(i, nested)
                items.append(("ref", nm))
                last_sym = True
            elif c == "(":
                i = self.space(i + 1, True)
                alts, i = self.alternates(i, True)
                if self.peek(i) != ")":
                    raise GbnfError(f"expecting ')' at {i}")
                i = self.space(i + 1, nested)
                items.append(("group", alts))
                last_sym = True
            elif c == ".":
                i = self.space(i + 1, nested)
                items.append(("any",))
                last_sym = True
            elif c in "*+?":
                if not last_sym:
                    raise GbnfError(f"expecting preceding item to */+/?/{{ at {i}")
                i = self.space(i + 1, nested)
                mn, mx = {"*": (0, None), "+": (1, None), "?": (0, 1)}[c]
                items[-1] = ("rep", items[-1], mn, mx)
            elif c == "{":
                if not last_sym:
                    raise GbnfError(f"expecting preceding item to */+/?/{{ at {i}")
                i = self.space(i + 1, nested)
                mn, i = self.int_(i)
                i = self.space(i, nested)
                if self.peek(i) == "}":
                    mx = mn
                    i = self.space(i + 1, nested)
                elif self.peek(i) == ",":
                    i = self.space(i + 1, nested)
                    mx = None
                    if self.peek(i).isascii() and self.peek(i).isdigit():
                        mx, i = self.int_(i)
                        i = self.space(i, nested)
                    if self.peek(i) != "}":
                        raise GbnfError(f"expecting '}}' at {i}")
                    i = self.space(i + 1, nested)
                else:
                    raise GbnfError(f"expecting ',' at {i}")
                if mx is not None and mx < mn:
                    raise GbnfError("max repetitions below min")
                items[-1] = ("rep", items[-1], mn, mx)
                if mx == 0:
                    last_sym = False
            else:
                break
        return items, i

    def int_(self, i):
        j = i
        while j < self.n and "0" <= self.s[j] <= "9":
            j += 1
        if j == i:
            raise GbnfError(f"expecting an int at {i}")
        return int(self.s[i:j]), j

    def alternates(self, i, nested):
        alts = []
        seq, i = self.sequence(i, nested)
        alts.append(seq)
        while self.peek(i) == "|":
            i = self.space(i + 1, True)
            seq, i = self.sequence(i, nested)
            alts.append(seq)
        if any(len(a) == 0 for a in alts) and self.cur_rule not in self.g.empty_alts:
            self.g.empty_alts.append(self.cur_rule)
        return alts, i

    def rule(self, i):
        nm, i = self.name(i)
        i = self.space(i, False)
        if self.s[i:i + 3] != "::=":
            raise GbnfError(f"expecting ::= at {i}")
        i = self.space(i + 3, True)
        self.cur_rule = nm
        alts, i = self.alternates(i, False)
        c = self.peek(i)
        if c == "\r":
            i += 2 if self.peek(i + 1) == "\n" else 1
        elif c == "\n":
            i += 1
        elif c != "":
            raise GbnfError(f"expecting newline or end at {i}")
        self.g.rules.append((nm, alts))
        return self.space(i, True)

    def parse(self):
        i = self.space(0, True)
        while i < self.n:
            i = self.rule(i)
        return self.g


def parse_grammar(text: str, lenient: bool = True) -> Grammar:
    return _P(text, lenient).parse()


def _refs(alts, out):
    for seq in alts:
        for it in seq:
            _refs_item(it, out)


def _refs_item(it, out):
    k = it[0]
    if k == "ref":
        if it[1] not in out:
            out.append(it[1])
    elif k == "group":
        _refs(it[1], out)
    elif k == "rep":
        _refs_item(it[1], out)


def check(text: str, lenient: bool = True) -> dict:
    """Report compared with the Lean recogniser: ok / defined (in order) / refs (first-occurrence
    order) / duplicates / undefined / empty_alts / root / wellformed."""
    try:
        g = parse_grammar(text, lenient)
    except GbnfError as e:
        return {"ok": False, "error": str(e), "wellformed": False}
    except RecursionError:
        return {"ok": False, "error": "nesting too deep", "wellformed": False}
    defined = [n for n, _ in g.rules]
    refs = []
    for _, a in g.rules:
        _refs(a, refs)
    dups = []
    seen = set()
    for n in defined:
        if n in seen and n not in dups:
            dups.append(n)
        seen.add(n)
    undefined = [r for r in refs if r not in seen]
    rep = {"ok": True, "defined": defined, "refs": refs, "duplicates": dups, "undefined": undefined,
           "empty_alts": list(g.empty_alts), "root": "root" in seen}
    rep["wellformed"] = rep["root"] and not dups and not undefined and not g.empty_alts
    return rep


# --------------------------------------------------------------------------------------------------
# derivation semantics: matcher and bounded enumerator
# --------------------------------------------------------------------------------------------------

def _cls_has(neg, ranges, c):
    return any(lo <= c <= hi for lo, hi in ranges) != neg


class Matcher:
    """Set-of-end-positions matcher (no left recursion support beyond a depth guard)."""

    def __init__(self, grammar: Grammar, max_depth: int = 200):
        self.t = grammar.table()
        self.max_depth = max_depth

    def alts(self, alts, s, i, d):
        out = set()
        for seq in alts:
            out |= self.seq(seq, 0, s, i, d)
        return out

    def seq(self, seq, k, s, i, d):
        if k == len(seq):
            return {i}
        out = set()
        for j in self.item(seq[k], s, i, d):
            out |= self.seq(seq, k + 1, s, j, d)
        return out

    def item(self, it, s, i, d):
        if d > self.max_depth:
            return set()
        k = it[0]
        if k == "lit":
            return {i + len(it[1])} if s.startswith(it[1], i) else set()
        if k == "cls":
            return {i + 1} if i < len(s) and _cls_has(it[1], it[2], s[i]) else set()
        if k == "any":
            return {i + 1} if i < len(s) else set()
        if k == "ref":
            a = self.t.get(it[1])
            return self.alts(a, s, i, d + 1) if a is not None else set()
        if k == "group":
            return self.alts(it[1], s, i, d + 1)
        if k == "rep":
            _, inner, mn, mx = it
            cur = {i}
            out = set(cur) if mn == 0 else set()
            n = 0
            seen = set()
            while cur and (mx is None or n < mx):
                nxt = set()
                for p in cur:
                    nxt |= self.item(inner, s, p, d + 1)
                n += 1
                if n >= mn:
                    out |= nxt
                key = (frozenset(nxt), n >= mn)
                if nxt <= seen and n >= mn:      # no new positions once past min: fixed point
                    break
                seen |= nxt
                cur = nxt
                if n > len(s) + mn + 1:
                    break
            return out
        raise ValueError(k)

    def fullmatch_alts(self, alts, s):
        return len(s) in self.alts(alts, s, 0, 0)

    def fullmatch_rule(self, name, s):
        a = self.t.get(name)
        return a is not None and self.fullmatch_alts(a, s)


def enumerate_alts(grammar: Grammar, alts, max_len: int, cls_sample, limit: int = 200000):
    """All strings of length <= max_len derivable from `alts`, where a character class contributes
    only the characters `cls_sample(neg, ranges)` (a finite list) — exhaustive for grammars whose
    classes are covered by the sample.  Returns (set of strings, truncated?)."""
    t = grammar.table()
    trunc = [False]

    def e_alts(alts, budget, depth):
        out = set()
        for seq in alts:
            out |= e_seq(seq, 0, budget, depth)
        return out

    def e_seq(seq, k, budget, depth):
        if k == len(seq):
            return {""}
        out = set()
        for a in e_item(seq[k], budget, depth):
            for b in e_seq(seq, k + 1, budget - len(a), depth):
                out.add(a + b)
                if len(out) > limit:
                    trunc[0] = True
                    return out
        return out

    def e_item(it, budget, depth):
        if budget < 0 or depth > 60:
            return set()
        k = it[0]
        if k == "lit":
            return {it[1]} if len(it[1]) <= budget else set()
        if k == "cls":
            return set(cls_sample(it[1], it[2])) if budget >= 1 else set()
        if k == "any":
            return set(cls_sample(True, [])) if budget >= 1 else set()
        if k == "ref":
            a = t.get(it[1])
            return e_alts(a, budget, depth + 1) if a is not None else set()
        if k == "group":
            return e_alts(it[1], budget, depth + 1)
        if k == "rep":
            _, inner, mn, mx = it
            base = {x for x in e_item(inner, budget, depth + 1)}
            res = set()
            cur = {""}
            n = 0
            if mn == 0:
                res.add("")
            while cur and (mx is None or n < mx):
                nxt = set()
                for p in cur:
                    for b in base:
                        if len(p) + len(b) <= budget and (b or n < mn):
                            nxt.add(p + b)
                n += 1
                if n >= mn:
                    res |= nxt
                if nxt == cur:
                    break
                cur = nxt
                if len(res) > limit:
                    trunc[0] = True
                    break
            return res
        raise ValueError(k)

    return e_alts(alts, max_len, 0), trunc[0]


def field_value_alts(grammar: Grammar, rule_name: str):
    """For a compiled field rule  NAME "::" ws <fragment...>  return the fragment as alternates
    (the items after the `ws` reference of the single top-level sequence), or None."""
    a = grammar.table().get(rule_name)
    if a is None or len(a) != 1:
        return None
    seq = a[0]
    for k, it in enumerate(seq):
        if it == ("ref", "ws"):
            return [seq[k + 1:]]
    return None
