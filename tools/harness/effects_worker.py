#!/venv/bin/python
"""Worker process of the C06 check (property: results depend only on the input).

Line protocol: one JSON command per line on stdin, one JSON reply per line on stdout (per call).
    {"cmd":"call","call":CALL}                    serve one call
    {"cmd":"forkcall","call":CALL}                serve one call in a child forked from this (so far idle) process
    {"cmd":"gather","calls":[CALL...]}            serve the calls concurrently: asyncio.gather in ONE event loop
    {"cmd":"sites"}                               (with --instrument) dump the iteration sites seen so far
CALL = {"id":int, "tool":"validate|write|eject|compile|api", "args":{...}, "files":{relpath:text}, "fn":str}
  * every call gets a private sandbox directory <root>/<id>; "files" are materialised there first and the
    string "$SB" inside args is replaced by that directory;
  * the reply carries the JSON text of the envelope exactly as mcp/server.py serialises it
    (json.dumps(result, indent=2)), with the sandbox root replaced by "$SB"; the SHA-256 of every file in the
    sandbox afterwards; and, with --snap, the module/class/tool-instance bindings of the octave_mcp package whose
    deep structural digest changed while the call was served.

The implementation under test is imported from $PYTHONPATH (set by vlib to $VERIF_REPO/src).  The process
environment (PYTHONHASHSEED, cwd, LANG/LC_ALL, HOME) is whatever the parent gave us: that is the experiment.
Like mcp/server.py, ONE instance of every tool serves all calls of the process.
"""
import ast
import asyncio
import hashlib
import json
import os
import re
import shutil
import sys
import types

ARGS = sys.argv[1:]
INSTRUMENT = "--instrument" in ARGS
SNAP = "--snap" in ARGS
SB_ROOT = ARGS[ARGS.index("--sandbox") + 1] if "--sandbox" in ARGS else None

SITES = {}   # (file, func, expr, consumer) -> [times a set was iterated, times anything was iterated]
ENVSITES = {}  # (file, func, kind) -> times an environment-reading callable was called from there


# ---------------------------------------------------------------------------------------------
# optional source instrumentation (import hook): record every iteration whose iterable is a set
# ---------------------------------------------------------------------------------------------

def _src(node, limit=90):
    try:
        s = ast.unparse(node)
    except Exception:
        s = type(node).__name__
    s = " ".join(s.split())
    return s if len(s) <= limit else s[: limit - 1] + "…"


def _c06_it(obj, site):
    rec = SITES.setdefault(site, [0, 0])
    rec[1] += 1
    if isinstance(obj, (set, frozenset)):
        rec[0] += 1
    return obj


def _env_kind(f):
    """kind of environment read performed by calling f, or None (identity of well-known stdlib callables)."""
    import datetime as _dt
    import locale as _lc
    import pathlib as _pl
    import random as _rd
    import tempfile as _tf
    import time as _tm
    import uuid as _uu
    try:
        k = _ENV_BY_ID.get(id(f))
        if k:
            return k
        fn = getattr(f, "__func__", None)
        if fn is not None:
            k = _ENV_BY_ID.get(id(fn))
            if k:
                return k
        slf = getattr(f, "__self__", None)
        nm = getattr(f, "__name__", "")
        if slf is os.environ:
            return "environ"
        if slf is _dt.datetime and nm in ("now", "utcnow", "today"):
            return "now"
        if slf is _dt.date and nm == "today":
            return "now"
        if isinstance(slf, _rd.Random) or slf is _rd:
            return "random"
        if getattr(f, "__module__", None) in ("time",) and nm not in ("strftime", "strptime", "gmtime", "struct_time", "sleep"):
            return "now"
        if getattr(f, "__module__", None) in ("random", "secrets", "uuid") and not isinstance(f, type):
            return "random"
        if f is _uu.uuid1 or f is _uu.uuid4:
            return "random"
        if getattr(f, "__module__", None) == "locale" or f is _lc.getpreferredencoding:
            return "locale"
        if getattr(f, "__module__", None) == "tempfile" or f is _tf.mkstemp:
            return "tmpname"
    except Exception:
        return None
    return None


def _build_env_table():
    import glob as _gl
    import pathlib as _pl
    t = {id(os.getcwd): "cwd", id(os.getcwdb): "cwd", id(os.getenv): "environ", id(os.listdir): "dirlist", id(os.scandir): "dirlist",
         id(os.walk): "dirlist", id(_gl.glob): "dirlist", id(_gl.iglob): "dirlist", id(os.getpid): "platform", id(os.urandom): "random",
         id(id): "identity", id(hash): "hash", id(os.path.abspath): "cwd-resolve", id(os.path.realpath): "cwd-resolve",
         id(os.path.relpath): "cwd-resolve", id(os.path.expanduser): "home", id(os.path.expandvars): "environ"}
    P = _pl.Path
    for nm, kind in (("cwd", "cwd"), ("home", "home"), ("expanduser", "home"), ("absolute", "cwd-resolve"), ("resolve", "cwd-resolve"),
                     ("glob", "dirlist"), ("rglob", "dirlist"), ("iterdir", "dirlist"), ("walk", "dirlist")):
        m = P.__dict__.get(nm) or getattr(P, nm, None)
        if m is not None:
            t[id(getattr(m, "__func__", m))] = kind
            for base in P.__mro__:
                mm = base.__dict__.get(nm)
                if mm is not None:
                    t[id(getattr(mm, "__func__", mm))] = kind
    return t


_ENV_BY_ID = _build_env_table()


def _c06_fn(f, site):
    k = _env_kind(f)
    if k is not None and not (k == "dirlist" and site[2]):
        key = (site[0], site[1], k)
        ENVSITES[key] = ENVSITES.get(key, 0) + 1
    return f


_NOWRAP = {"super", "isinstance", "len", "getattr", "hasattr", "str", "int", "float", "bool", "list", "dict", "set", "tuple", "range",
           "enumerate", "zip", "sorted", "min", "max", "any", "all", "print", "repr", "type", "iter", "next", "frozenset", "sum",
           "ValueError", "TypeError", "KeyError", "Exception", "__c06_it__", "__c06_fn__", "locals", "globals", "vars", "dir"}


class _Instr(ast.NodeTransformer):
    def __init__(self, short):
        self.short = short
        self.stack = []          # [(kind, name)]

    def qual(self):
        if not self.stack:
            return "<module>"
        if self.stack[-1][0] == "class":
            return f"<class {self.stack[-1][1]}>"
        out = ""
        for i, (k, n) in enumerate(self.stack):
            if k == "class":
                if any(kk == "func" for kk, _ in self.stack[:i]):
                    continue
                out = n
            else:
                prev_func = any(kk == "func" for kk, _ in self.stack[:i])
                out = f"{out}.<locals>.{n}" if prev_func else (f"{out}.{n}" if out else n)
        return out

    def wrap(self, e, consumer):
        site = (self.short, self.qual(), getattr(e, "_c06_src", None) or _src(e), consumer)
        new = ast.Call(func=ast.Name(id="__c06_it__", ctx=ast.Load()), args=[e, ast.Constant(value=site)], keywords=[])
        return ast.copy_location(new, e)

    def visit_ClassDef(self, n):
        self.stack.append(("class", n.name))
        self.generic_visit(n)
        self.stack.pop()
        return n

    def visit_FunctionDef(self, n):
        n.decorator_list = [self.visit(d) for d in n.decorator_list]
        self.stack.append(("func", n.name))
        n.body = [self.visit(s) for s in n.body]
        self.stack.pop()
        return n

    visit_AsyncFunctionDef = visit_FunctionDef

    def visit_For(self, n):
        self.generic_visit(n)
        n.iter = self.wrap(n.iter, "for")
        return n

    def visit_comprehension(self, n):
        self.generic_visit(n)
        n.iter = self.wrap(n.iter, "comp")
        return n

    def visit_Call(self, n):
        in_sorted = isinstance(n.func, ast.Name) and n.func.id == "sorted"
        if in_sorted:
            for a in n.args:
                for x in ast.walk(a):
                    x._c06_sorted = True
        self.generic_visit(n)
        f = n.func
        if isinstance(f, ast.Name) and f.id in ("list", "tuple", "enumerate", "iter", "next", "zip", "str", "repr", "dict",
                                                "sorted", "min", "max", "any", "all", "set", "frozenset", "sum") and n.args:
            n.args = [self.wrap(a, f.id) if not isinstance(a, ast.Starred) else a for a in n.args]
        elif isinstance(f, ast.Attribute) and f.attr in ("join", "extend") and len(n.args) == 1 and not isinstance(n.args[0], ast.Starred):
            n.args = [self.wrap(n.args[0], f.attr)]
        # callee identity: is an environment-reading callable called from here?
        if isinstance(f, ast.Attribute) or (isinstance(f, ast.Name) and f.id not in _NOWRAP):
            site = (self.short, self.qual(), bool(getattr(n, "_c06_sorted", False)))
            n.func = ast.copy_location(ast.Call(func=ast.Name(id="__c06_fn__", ctx=ast.Load()), args=[f, ast.Constant(value=site)], keywords=[]), f)
        return n


def install_instrumentation():
    import builtins
    import importlib.machinery
    builtins.__c06_it__ = _c06_it
    builtins.__c06_fn__ = _c06_fn

    class Loader(importlib.machinery.SourceFileLoader):
        def source_to_code(self, data, path, *, _optimize=-1):
            tree = ast.parse(data, filename=path)
            # remember the ORIGINAL source text of every expression that may get wrapped (inner wraps must not show up
            # in the site description of an outer one)
            for n in ast.walk(tree):
                if isinstance(n, (ast.For, ast.AsyncFor, ast.comprehension)):
                    n.iter._c06_src = _src(n.iter)
                elif isinstance(n, ast.Call):
                    for a in n.args:
                        a._c06_src = _src(a)
            p = str(path)
            short = p.split("octave_mcp/", 1)[1] if "octave_mcp/" in p else p
            tree = _Instr(short).visit(tree)
            ast.fix_missing_locations(tree)
            return compile(tree, path, "exec", dont_inherit=True, optimize=_optimize)

        def get_code(self, fullname):      # never use or write .pyc for instrumented code
            path = self.get_filename(fullname)
            return self.source_to_code(self.get_data(path), path)

    class Finder:
        @staticmethod
        def find_spec(name, path=None, target=None):
            if name != "octave_mcp" and not name.startswith("octave_mcp."):
                return None
            spec = importlib.machinery.PathFinder.find_spec(name, path)
            if spec is not None and isinstance(spec.loader, importlib.machinery.SourceFileLoader):
                spec.loader = Loader(spec.loader.name, spec.loader.path)
            return spec

    sys.meta_path.insert(0, Finder)


if INSTRUMENT:
    install_instrumentation()

from octave_mcp.mcp.compile_grammar import CompileGrammarTool  # noqa: E402
from octave_mcp.mcp.eject import EjectTool  # noqa: E402
from octave_mcp.mcp.validate import ValidateTool  # noqa: E402
from octave_mcp.mcp.write import WriteTool  # noqa: E402
import octave_mcp  # noqa: E402

TOOLS = {"validate": ValidateTool(), "write": WriteTool(), "eject": EjectTool(), "compile": CompileGrammarTool()}


# ---------------------------------------------------------------------------------------------
# deep structural digest of module / class / tool-instance state
# ---------------------------------------------------------------------------------------------

_SKIP_TYPES = (types.FunctionType, types.BuiltinFunctionType, types.ModuleType, types.MethodType, type,
               staticmethod, classmethod, property, types.MemberDescriptorType, types.GetSetDescriptorType,
               types.WrapperDescriptorType, types.MethodDescriptorType, types.MappingProxyType)


def digest(o, depth=0, seen=None):
    """Order-preserving for list/tuple/dict (their order is observable), order-free for sets."""
    if seen is None:
        seen = set()
    if o is None or isinstance(o, (bool, int, float, str, bytes)):
        return f"{type(o).__name__}:{o!r}"
    if depth > 12:
        return "<deep>"
    if id(o) in seen:
        return "<cycle>"
    seen = seen | {id(o)}
    if isinstance(o, (list, tuple)):
        return type(o).__name__ + "[" + ",".join(digest(x, depth + 1, seen) for x in o) + "]"
    if isinstance(o, dict):
        return "dict{" + ",".join(digest(k, depth + 1, seen) + "=" + digest(v, depth + 1, seen) for k, v in o.items()) + "}"
    if isinstance(o, (set, frozenset)):
        return type(o).__name__ + "{" + ",".join(sorted(digest(x, depth + 1, seen) for x in o)) + "}"
    if isinstance(o, re.Pattern):
        return f"re:{o.pattern!r}:{o.flags}"
    if isinstance(o, _SKIP_TYPES):
        return "<code>"
    import enum
    if isinstance(o, enum.Enum):
        return f"enum:{type(o).__name__}.{o.name}"
    d = getattr(o, "__dict__", None)
    if isinstance(d, dict):
        return type(o).__name__ + "(" + ",".join(f"{k}=" + digest(v, depth + 1, seen) for k, v in d.items()) + ")"
    slots = getattr(type(o), "__slots__", None)
    if slots:
        return type(o).__name__ + "(" + ",".join(f"{k}=" + digest(getattr(o, k, None), depth + 1, seen) for k in slots) + ")"
    return f"<{type(o).__module__}.{type(o).__name__}>"


def snapshot():
    snap = {}
    for name, mod in list(sys.modules.items()):
        if mod is None or not (name == "octave_mcp" or name.startswith("octave_mcp.")):
            continue
        f = getattr(mod, "__file__", "") or name
        short = f.split("octave_mcp/", 1)[1] if "octave_mcp/" in f else f
        for k, v in list(vars(mod).items()):
            if k.startswith("__") and k.endswith("__") and k not in ("__all__", "__version__"):
                continue
            if isinstance(v, type):
                if getattr(v, "__module__", None) == name:
                    for ck, cv in list(vars(v).items()):
                        if ck.startswith("__") and ck.endswith("__"):
                            continue
                        if isinstance(cv, _SKIP_TYPES):
                            continue
                        snap[(short, v.__name__, ck)] = hashlib.blake2b(digest(cv).encode("utf-8", "replace"), digest_size=8).hexdigest()
                continue
            if isinstance(v, _SKIP_TYPES):
                continue
            snap[(short, "<module>", k)] = hashlib.blake2b(digest(v).encode("utf-8", "replace"), digest_size=8).hexdigest()
    for tn, t in TOOLS.items():
        for k, v in vars(t).items():
            snap[("mcp/" + type(t).__module__.rsplit(".", 1)[-1] + ".py", type(t).__name__ + "<instance>", k)] = hashlib.blake2b(digest(v).encode("utf-8", "replace"), digest_size=8).hexdigest()
    return snap


def snap_diff(a, b):
    out = []
    for k in sorted(set(a) | set(b)):
        if a.get(k) != b.get(k):
            out.append({"file": k[0], "owner": k[1], "name": k[2], "kind": "added" if k not in a else "removed" if k not in b else "changed"})
    return out


# ---------------------------------------------------------------------------------------------
# Python API scenarios
# ---------------------------------------------------------------------------------------------

def api_call(fn, a):
    from octave_mcp import (Validator, emit, extract_schema_from_document, parse, parse_with_warnings, project, repair,
                            seal_document, tokenize, verify_seal)
    from octave_mcp.core.gbnf_compiler import GBNFCompiler, compile_gbnf_from_meta
    from octave_mcp.schemas.loader import get_builtin_schema, load_schema_by_name
    content = a.get("content", "")
    if fn == "parse_emit":
        doc = parse(content)
        once = emit(doc)
        return {"canonical": once, "twice": emit(parse(once)) if a.get("twice") else None}
    if fn == "parse_warn":
        doc, warns = parse_with_warnings(content)
        return {"canonical": emit(doc), "warnings": warns}
    if fn == "tokenize":
        toks, repairs = tokenize(content)
        return {"tokens": [[t.type.name, t.value if isinstance(t.value, (str, int, float, bool, type(None))) else str(t.value), t.line, t.column] for t in toks],
                "repairs": repairs}
    if fn == "seal":
        doc = parse(content)
        sealed = seal_document(doc)
        text = emit(sealed)
        ver = verify_seal(parse(text))
        return {"sealed": text, "status": ver.status.name if hasattr(ver.status, "name") else str(ver.status),
                "verify": {k: (v.name if hasattr(v, "name") else v) for k, v in vars(ver).items()}}
    if fn == "project":
        r = project(parse(content), mode=a.get("mode", "canonical"))
        return {"output": r.output, "lossy": r.lossy, "fields_omitted": r.fields_omitted}
    if fn == "validate_api":
        doc = parse(content)
        sd = load_schema_by_name(a["schema"])
        v = Validator(schema=get_builtin_schema(a["schema"]))
        errs = v.validate(doc, strict=bool(a.get("strict")), section_schemas={sd.name: sd} if sd is not None and sd.fields else None)
        out = {"errors": [[e.code, e.message, e.field_path, e.severity] for e in errs], "routing": v.routing_log.to_dict()}
        if a.get("fix"):
            doc2, log = repair(doc, errs, fix=True, schema=sd)
            out["repaired"] = emit(doc2)
            out["repairs"] = [e.to_dict() for e in log.repairs]
        return out
    if fn == "validate_inline":
        # schema given as text (arbitrary POLICY / FIELDS / targets incl. multi-target broadcast), not by name
        sd = extract_schema_from_document(parse(a["schema_content"]))
        # multi-target broadcast ("A∨B∨C": one routing entry per target, in specification order) cannot be written in a
        # schema FILE today (the ∨ is lost in reconstruction), only set through the API
        for fname, spec in (a.get("targets_override") or {}).items():
            if fname in sd.fields and sd.fields[fname].pattern is not None:
                sd.fields[fname].pattern.target = spec
        doc = parse(content)
        v = Validator(schema=None)
        errs = v.validate(doc, strict=bool(a.get("strict")), section_schemas={sd.name: sd})
        out = {"schema": sd.name, "errors": [[e.code, e.message, e.field_path, e.severity] for e in errs], "routing": v.routing_log.to_dict()}
        if a.get("fix"):
            doc2, log = repair(doc, errs, fix=True, schema=sd)
            out["repaired"] = emit(doc2)
            out["repairs"] = [e.to_dict() for e in log.repairs]
        if a.get("gbnf"):
            out["grammar"] = GBNFCompiler().compile_schema(sd, include_envelope=True)
        return out
    if fn == "schema_extract":
        sd = extract_schema_from_document(parse(content))
        return {"name": sd.name, "version": sd.version,
                "fields": {k: (f.pattern.constraints.to_string() if f.pattern and f.pattern.constraints else None, f.pattern.target if f.pattern else None)
                           for k, f in sd.fields.items()},
                "policy": {k: v for k, v in vars(sd.policy).items()} if sd.policy else None}
    if fn == "gbnf":
        if a.get("schema"):
            sd = load_schema_by_name(a["schema"])
            return {"grammar": GBNFCompiler().compile_schema(sd, include_envelope=bool(a.get("envelope", True))) if sd is not None else None}
        doc = parse(content)
        return {"grammar": compile_gbnf_from_meta(doc.meta)}
    if fn == "hydrate":
        from pathlib import Path
        from octave_mcp import HydrationPolicy, VocabularyRegistry, hydrate
        src_p, voc_p = Path(a["source"]), Path(a["vocab"])
        reg = VocabularyRegistry.from_mappings({a.get("namespace", "@test/vocabulary"): voc_p})
        pol = HydrationPolicy(prune_strategy=a.get("prune", "list"), collision_strategy=a.get("collision", "error"))
        doc = hydrate(src_p, reg, pol, output_path=Path(a["output"]) if a.get("output") else None)
        text = emit(doc)
        # HYDRATION_TIME is a clock reading (allowed read A4 of the Lean policy): masked here, nothing else is
        text = re.sub(r'(HYDRATION_TIME::)("[^"\n]*"|\S+)', r'\1"<masked>"', text)
        return {"hydrated": text}
    if fn == "exports":
        return {"all": octave_mcp.list_exports(a.get("category"))}
    raise ValueError(f"unknown api scenario {fn}")


# ---------------------------------------------------------------------------------------------
# serving calls
# ---------------------------------------------------------------------------------------------

def subst(x, sb):
    if isinstance(x, str):
        return x.replace("$SB", sb)
    if isinstance(x, list):
        return [subst(y, sb) for y in x]
    if isinstance(x, dict):
        return {k: subst(v, sb) for k, v in x.items()}
    return x


def prepare(call):
    sb = os.path.join(SB_ROOT, "%06d" % call["id"])
    shutil.rmtree(sb, ignore_errors=True)
    os.makedirs(sb)
    for rel, text in (call.get("files") or {}).items():
        p = os.path.join(sb, rel)
        os.makedirs(os.path.dirname(p), exist_ok=True)
        with open(p, "w", encoding="utf-8", newline="") as f:
            f.write(text)
    return sb


async def serve(call, sb):
    args = subst(call.get("args") or {}, sb)
    try:
        if call["tool"] == "api":
            res = api_call(call["fn"], args)
        else:
            res = await TOOLS[call["tool"]].execute(**args)
        try:
            text = json.dumps(res, indent=2)          # exactly what mcp/server.py sends
        except Exception as e:
            text = json.dumps({"__serialisation_raised__": f"{type(e).__name__}: {e}"}, indent=2)
    except Exception as e:                             # an exception out of a tool is also a result
        text = json.dumps({"__raised__": f"{type(e).__name__}: {e}"}, indent=2)
    return text


def finish(call, sb, text, before):
    files = {}
    for dp, _dn, fns in os.walk(sb):
        for fn in fns:
            p = os.path.join(dp, fn)
            try:
                with open(p, "rb") as f:
                    files[os.path.relpath(p, sb)] = hashlib.sha256(f.read()).hexdigest()
            except OSError as e:
                files[os.path.relpath(p, sb)] = f"unreadable:{type(e).__name__}"
    rep = {"id": call["id"], "out": text.replace(SB_ROOT, "$SBROOT"), "files": dict(sorted(files.items()))}
    if before is not None:
        rep["changed"] = snap_diff(before, snapshot())
    shutil.rmtree(sb, ignore_errors=True)
    return rep


def main():
    out = sys.stdout
    for line in sys.stdin:
        line = line.strip()
        if not line:
            continue
        cmd = json.loads(line)
        if cmd["cmd"] == "call":
            call = cmd["call"]
            sb = prepare(call)
            before = snapshot() if SNAP else None
            text = asyncio.run(serve(call, sb))
            out.write(json.dumps(finish(call, sb, text, before)) + "\n")
        elif cmd["cmd"] == "forkcall":
            # a fresh process for this call without paying the import time again: fork this process, which has served
            # nothing (module/class/tool-instance state is exactly the post-import state), let the child serve the call
            call = cmd["call"]
            out.flush()
            r, w = os.pipe()
            pid = os.fork()
            if pid == 0:
                try:
                    os.close(r)
                    try:
                        sb = prepare(call)
                        text = asyncio.run(serve(call, sb))
                        data = json.dumps(finish(call, sb, text, None))
                    except BaseException as e:      # noqa: BLE001 - report, never fall back into the parent's loop
                        data = json.dumps({"id": call["id"], "out": json.dumps({"__worker_raised__": f"{type(e).__name__}: {e}"}), "files": {}})
                    with os.fdopen(w, "wb") as f:
                        f.write(data.encode("utf-8"))
                finally:
                    os._exit(0)
            os.close(w)
            with os.fdopen(r, "rb") as f:
                data = f.read()
            os.waitpid(pid, 0)
            out.write((data.decode("utf-8") if data else json.dumps({"id": call["id"], "out": json.dumps({"__worker_raised__": "child died"}), "files": {}})) + "\n")
        elif cmd["cmd"] == "gather":
            calls = cmd["calls"]
            sbs = [prepare(c) for c in calls]
            before = snapshot() if SNAP else None

            async def all_():
                return await asyncio.gather(*[serve(c, sb) for c, sb in zip(calls, sbs)])
            texts = asyncio.run(all_())
            after_changed = snap_diff(before, snapshot()) if SNAP else None
            for c, sb, t in zip(calls, sbs, texts):
                rep = finish(c, sb, t, None)
                if after_changed is not None:
                    rep["changed"] = after_changed
                out.write(json.dumps(rep) + "\n")
        elif cmd["cmd"] == "shared":
            # several calls on ONE sandbox (the first call's files): awaited one after the other (`how` = "seq") or
            # submitted together with asyncio.gather (`how` = "gather"); same submission order in both
            calls = cmd["calls"]
            sb = prepare(calls[0])

            async def run_shared():
                if cmd["how"] == "seq":
                    return [await serve(c, sb) for c in calls]
                return await asyncio.gather(*[serve(c, sb) for c in calls])
            texts = asyncio.run(run_shared())
            left = {}
            for dp, _dn, fns in os.walk(sb):
                for fn in fns:
                    try:
                        with open(os.path.join(dp, fn), encoding="utf-8", errors="replace", newline="") as f:
                            left[os.path.relpath(os.path.join(dp, fn), sb)] = f.read()
                    except OSError as e:
                        left[os.path.relpath(os.path.join(dp, fn), sb)] = f"unreadable:{type(e).__name__}"
            rep = finish(calls[0], sb, json.dumps([t.replace(sb, "$SB") for t in texts]), None)
            rep["left"] = dict(sorted(left.items()))
            out.write(json.dumps(rep) + "\n")
        elif cmd["cmd"] == "sites":
            out.write(json.dumps({"sites": [[*k, v[0], v[1]] for k, v in sorted(SITES.items())],
                                  "envsites": [[*k, v] for k, v in sorted(ENVSITES.items())]}) + "\n")
        elif cmd["cmd"] == "quit":
            break
        out.flush()


if __name__ == "__main__":
    main()
