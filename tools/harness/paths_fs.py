"""C19 harness: sandbox trees, snapshots, audit-hook interposition, drivers of the real path code.

Everything here runs inside worker processes (vlib.pmap).  A worker creates its own root
    <ROOT>/sb   the sandbox (cwd of the worker while it drives the implementation)
    <ROOT>/out  "secrets" that no call may read, create or change
builds a tree from a *spec* (list of (relative path, kind, payload)), and for each path string drives
the three validators and the real tools.  Observation is independent of the implementation:
  * a `sys.addaudithook` hook records every open/mkdir/rename/remove/mkstemp/... with the path handed
    to the OS and its realpath at that moment (audit events are raised by the C layer, so pathlib,
    io.open, os.open and tempfile are all seen);
  * an lstat-based snapshot (path, type, bytes / link text) of <ROOT> before and after each call.
"""
from __future__ import annotations

import asyncio
import os
import shutil
import stat
import sys
import tempfile

OCT = "===T===\nMETA:\n  TYPE::X\n  VERSION::\"1\"\n===END===\n"
LONG_OK = "L" * 252 + ".md"      # 255 bytes: longest legal name
LONG_BAD = "L" * 253 + ".md"     # 256 bytes: ENAMETOOLONG

# --------------------------------------------------------------------------------------------
# tree specs
# --------------------------------------------------------------------------------------------

def template(prefix: str, depth: int):
    e = [(prefix + "f.md", "f", OCT), (prefix + "g.oct.md", "f", OCT), (prefix + "h.txt", "f", "plain\n"),
         (prefix + "U.MD", "f", OCT),
         (prefix + "ld", "l", "{R}/out"), (prefix + "lin", "l", "d"),
         (prefix + "lf.md", "l", "{R}/out/secret.md"), (prefix + "lfi.md", "l", "f.md"),
         (prefix + "dang.md", "l", "{R}/out/missing.md"), (prefix + "dangd", "l", "missing_dir"),
         (prefix + "loop.md", "l", "loop.md"), (prefix + "up", "l", ".."),
         (prefix + "trick.md", "l", "trick.md/../f.md"), (prefix + "selfmiss.md", "l", "missing/../selfmiss.md"),
         (prefix + "d", "d", None)]
    if depth > 0:
        e += template(prefix + "d/", depth - 1)
    return e


def base_spec():
    e = [("out", "d", None), ("out/secret.md", "f", "SECRET-1\n"), ("out/secret.oct.md", "f", "SECRET-2\n"),
         ("out/f.md", "f", "SECRET-3\n"), ("out/d", "d", None), ("out/d/f.md", "f", "SECRET-4\n"),
         ("sb", "d", None),
         # neighbours whose NAME merely starts with the name of an allowed directory (a string-prefix containment test accepts them)
         ("sb-private", "d", None), ("sb-private/f.md", "f", "SECRET-5\n"), ("sbx", "d", None), ("sbx/f.md", "f", "SECRET-6\n"),
         ("sb/d-private", "d", None), ("sb/d-private/f.md", "f", OCT), ("sb/dx", "d", None), ("sb/dx/f.md", "f", OCT),
         ("sb/d/d-private", "d", None), ("sb/d/d-private/f.md", "f", OCT)]
    return e + template("sb/", 2)


LINK_TARGETS = ["d", "f.md", ".", "..", "../..", "{R}/out", "{R}/out/secret.md", "missing", "missing/x", "d/../f.md", "./d//",
                "la", "lb", "lc.md", "{R}/sb/f.md", "{R}/sb/d", "la/../f.md", "lb/f.md", "d/la", "../sb/d", "{R}/sb/../out",
                "lc.md/../f.md", "//{R}/out", "d/.", "f.md/", "f.md/x", "{R}/out/d/../secret.md"]
LINK_NAMES = ["la", "lb", "lc.md", "le.md", "lg"]


def random_spec(rng):
    """A sandbox whose symlinks have random targets (relative/absolute, with . .. // in the text,
    chains, cycles, links through links, dangling)."""
    e = [("out", "d", None), ("out/secret.md", "f", "SECRET-1\n"), ("out/d", "d", None), ("out/d/f.md", "f", "SECRET-4\n"),
         ("out/f.md", "f", "SECRET-3\n"), ("sb", "d", None)]
    for pre in ("sb/", "sb/d/"):
        e += [(pre + "f.md", "f", OCT), (pre + "d", "d", None), (pre + "h.txt", "f", "plain\n")]
        for ln in LINK_NAMES:
            if rng.random() < 0.8:
                e.append((pre + ln, "l", rng.choice(LINK_TARGETS)))
    return e


def build_tree(root: str, spec):
    for rel, kind, payload in spec:
        p = os.path.join(root, rel)
        if kind == "d":
            os.makedirs(p, exist_ok=True)
        elif kind == "f":
            with open(p, "w", encoding="utf-8") as f:
                f.write(payload)
            os.chmod(p, 0o644)
        else:
            os.symlink(payload.replace("{R}", root), p)


def wipe(root: str):
    for n in os.listdir(root):
        p = os.path.join(root, n)
        if os.path.isdir(p) and not os.path.islink(p):
            shutil.rmtree(p)
        else:
            os.unlink(p)


def snapshot(root: str):
    """{relative path: (kind, payload)} by lstat, never following links."""
    out = {}
    stack = [root]
    while stack:
        d = stack.pop()
        with os.scandir(d) as it:
            for ent in it:
                rel = os.path.relpath(ent.path, root)
                st = ent.stat(follow_symlinks=False)
                if stat.S_ISLNK(st.st_mode):
                    out[rel] = ("l", os.readlink(ent.path))
                elif stat.S_ISDIR(st.st_mode):
                    out[rel] = ("d", None)
                    stack.append(ent.path)
                else:
                    with open(ent.path, "rb") as f:
                        out[rel] = ("f", f.read())
    return out


def model_nodes(root: str, snap):
    """The model file system: [[components of the absolute path], node] with node 'd' | 'f' | {'l': text}.
    Ancestors of the root are plain directories (the harness makes sure of it with realpath)."""
    nodes = []
    parts = [c for c in root.split("/") if c]
    for i in range(1, len(parts) + 1):
        nodes.append([parts[:i], "d"])
    for rel, (kind, payload) in sorted(snap.items()):
        comps = parts + rel.split("/")
        nodes.append([comps, {"l": payload} if kind == "l" else kind])
    return nodes


# --------------------------------------------------------------------------------------------
# interposition
# --------------------------------------------------------------------------------------------

_EVENTS = []
_ON = [False]
_MUT = {"os.mkdir", "os.rename", "os.remove", "os.rmdir", "os.symlink", "os.link", "os.chmod", "os.chown", "os.truncate",
        "os.utime", "tempfile.mkstemp", "tempfile.mkdtemp", "shutil.rmtree", "shutil.move", "shutil.copyfile", "os.mkfifo", "os.mknod"}
_READ = {"os.listdir", "os.scandir"}


def _record(kind, p):
    _ON[0] = False          # no re-entrance while we look at the file system ourselves
    try:
        _EVENTS.append(_norm_event((kind, p)))
    finally:
        _ON[0] = True


def _hook(event, args):
    if not _ON[0]:
        return
    if event == "open":
        p, flags = args[0], args[2]
        if isinstance(p, int):
            return
        write = bool(flags & (os.O_WRONLY | os.O_RDWR | os.O_CREAT | os.O_TRUNC | os.O_APPEND)) if isinstance(flags, int) else True
        _record("open-w" if write else "open-r", p)
    elif event in _MUT:
        ps = [a for a in args[:2] if isinstance(a, (str, bytes, os.PathLike))]
        if event == "os.symlink":
            ps = ps[1:2]
        for p in ps[:2] if event in ("os.rename", "os.link", "shutil.move", "shutil.copyfile") else ps[:1]:
            _record(event, p)
    elif event in _READ:
        if args and isinstance(args[0], (str, bytes, os.PathLike)):
            _record(event, args[0])


_INSTALLED = [False]


def install_hook():
    if not _INSTALLED[0]:
        sys.addaudithook(_hook)
        _INSTALLED[0] = True


def _norm_event(ev):
    kind, p = ev
    try:
        p = os.fsdecode(os.fspath(p))
    except Exception:
        p = repr(p)
    try:
        a = os.path.abspath(p)
        # realpath of the parent + the name: the object the OS operation is applied to
        rp = os.path.join(os.path.realpath(os.path.dirname(a)), os.path.basename(a)) if not kind.startswith("open") else os.path.realpath(a)
    except Exception:
        a = rp = p
    return (kind, p, rp)


class Trace:
    """with Trace() as t: ...; t.events = [(kind, path as given, real path)]"""

    def __enter__(self):
        _EVENTS.clear()
        self._raw = _EVENTS
        _ON[0] = True
        self.events = []
        return self

    def __exit__(self, *a):
        _ON[0] = False
        self.events = list(_EVENTS)
        _EVENTS.clear()
        return False


# --------------------------------------------------------------------------------------------
# the independent reading of the property on the real file system
# --------------------------------------------------------------------------------------------

def lexical_components(cwd: str, p: str):
    s = p if p.startswith("/") else cwd + "/" + p
    return [c for c in s.split("/") if c not in ("", ".")]


def classify_path(cwd: str, p: str):
    """What the property says about path string p in the current (real) file system, computed with
    os.lstat/os.stat only.  Returns dict(dotdot, symlink, dangling, bad_ext, must_refuse)."""
    comps = lexical_components(cwd, p)
    raw = [c for c in p.split("/")]
    dotdot = ".." in raw
    symlink = dangling = False
    if not dotdot:
        for i in range(1, len(comps) + 1):
            pre = "/" + "/".join(comps[:i])
            try:
                is_l = stat.S_ISLNK(os.lstat(pre).st_mode)
            except (OSError, ValueError):
                is_l = False
            if is_l:
                symlink = True
                try:
                    os.stat(pre)
                except (OSError, ValueError):
                    dangling = True
    else:
        # with '..' the lexical prefixes are not the objects the OS visits; the path must be refused anyway.
        # dangling is still computed (over the prefixes the implementation walks) for the class predicate.
        for i in range(1, len(comps) + 1):
            pre = "/" + "/".join(comps[:i])
            try:
                if stat.S_ISLNK(os.lstat(pre).st_mode):
                    symlink = True
                    try:
                        os.stat(pre)
                    except (OSError, ValueError):
                        dangling = True
            except (OSError, ValueError):
                pass
    last = [c for c in raw if c not in ("", ".")]
    name = last[-1] if last else ""
    bad_ext = not (name.endswith(".md") or name.endswith(".octave"))
    return {"dotdot": dotdot, "symlink": symlink, "dangling": dangling, "bad_ext": bad_ext,
            "must_refuse": dotdot or symlink or bad_ext}


# --------------------------------------------------------------------------------------------
# drivers of the real code
# --------------------------------------------------------------------------------------------

_TOOLS = {}


def tools():
    if not _TOOLS:
        from octave_mcp.core import file_ops
        from octave_mcp.mcp.validate import ValidateTool
        from octave_mcp.mcp.write import WriteTool
        _TOOLS.update(W=WriteTool(), V=ValidateTool(), F=file_ops)
    return _TOOLS


def reason_class(msg):
    if msg is None:
        return "ok"
    m = msg.lower()
    if "traversal" in m:
        return "dotdot"
    if m.startswith("symlink"):
        return "symlink"
    if "resolution failed" in m:
        return "resolve"
    if "extension" in m:
        return "ext"
    if "invalid path" in m:
        return "invalid"
    return "other"


def run_validators(p: str):
    """decision + reason class of the three copies; an escaping exception is reported as ('raise', cls)."""
    T = tools()
    out = {}
    for key, fn in (("write", T["W"]._validate_path), ("validate", T["V"]._validate_path), ("fileops", T["F"].validate_octave_path)):
        try:
            ok, msg = fn(p)
            out[key] = [bool(ok), reason_class(msg)]
        except Exception as e:  # noqa: BLE001
            out[key] = ["raise", type(e).__name__]
    return out


def _tool_refused(r):
    return isinstance(r, dict) and r.get("status") == "error"


def _codes(r):
    errs = r.get("errors") if isinstance(r, dict) else None
    if isinstance(errs, list):
        return [e.get("code") for e in errs if isinstance(e, dict)]
    if isinstance(r, dict) and r.get("error"):
        return [str(r["error"])[:40]]
    return []


def entry_points(thorough_cli: bool):
    T = tools()
    W, V, F = T["W"], T["V"], T["F"]
    eps = [
        ("write_content", lambda p: asyncio.run(W.execute(target_path=p, content=OCT))),
        ("write_changes", lambda p: asyncio.run(W.execute(target_path=p, changes={"A": 1}))),
        ("write_normalize", lambda p: asyncio.run(W.execute(target_path=p))),
        ("validate_file", lambda p: asyncio.run(V.execute(file_path=p, schema="META"))),
        ("atomic_write", lambda p: F.atomic_write_octave(p, OCT)),
        ("cli_write", _cli_write),
    ]
    return eps


def _cli_write(p):
    from click.testing import CliRunner

    from octave_mcp.cli.main import cli
    res = CliRunner().invoke(cli, ["write", "--content", OCT, "--", p])
    if res.exception is not None and not isinstance(res.exception, SystemExit):
        raise res.exception
    return {"status": "success" if res.exit_code == 0 else "error", "error": (res.output or "")[:60]}


def inside(path: str, top: str) -> bool:
    return path == top or path.startswith(top.rstrip("/") + "/")


def judge_events(events, root: str, ro_prefixes):
    """Split events into: io on objects under <root>/sb, io under <root> but outside sb, io elsewhere that is
    not a read below a whitelisted prefix."""
    sb = root + "/sb"
    in_sb, outside, foreign = [], [], []
    for kind, p, rp in events:
        if rp.endswith(".pyc") or "/__pycache__/" in rp:
            continue          # byte-code caches of lazily imported modules
        if inside(rp, sb):
            in_sb.append([kind, p])
        elif inside(rp, root):
            outside.append([kind, p, rp])
        elif kind in ("open-r", "os.listdir", "os.scandir") and any(inside(rp, q) for q in ro_prefixes):
            continue
        else:
            foreign.append([kind, p, rp])
    return in_sb, outside, foreign


JAIL = "j1/j2/j3/j4/j5/j6/r"


def new_root(tag: str):
    """(top, root): root = top/j1/../r lies seven levels below a private temp directory, so that no
    combination of '..' segments (path depth <= 4) and '..' in link texts can leave `top`, even when the
    implementation under test (possibly a mutant) fails to refuse.  Every symlink target of the specs
    stays inside `top` as well."""
    base = os.path.realpath(tempfile.gettempdir())
    top = tempfile.mkdtemp(prefix=f"c19-{tag}-", dir=base)
    root = os.path.join(top, JAIL)
    os.makedirs(root)
    return top, root


def safe_to_drive(top: str, cwd: str, p: str) -> bool:
    """Hard safety rule of the harness: the write-capable entry points are only ever called with a path whose
    lexical normal form lies inside the private temp directory (symlinks of the tree cannot leave it either)."""
    a = os.path.normpath(p if p.startswith("/") else os.path.join(cwd, p))
    return inside(a, top) and a != top
