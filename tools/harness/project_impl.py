"""In-process drivers of the real implementation for the `project` engine (C14 eject, C15 seal):
EjectTool.execute, the `octave` CLI (in-process through click's CliRunner and as a real subprocess),
the internal converter API on AST objects, plus the back-parsers (views) of the four renderings."""
from __future__ import annotations

import asyncio
import json
import os
import re
import subprocess
import tempfile

from harness import project_docs as PD

MODES = ["canonical", "authoring", "executive", "developer"]
FORMATS = ["octave", "json", "yaml", "markdown"]
LOSSLESS = ("canonical", "authoring")


# ---------------------------------------------------------------------------------------------
# running the implementation
# ---------------------------------------------------------------------------------------------
def eject_mcp(text, mode, fmt):
    """-> {"out": str, "lossy": bool, "omitted": [...]} or {"exc": "..."} (the tool raised)."""
    from octave_mcp.mcp.eject import EjectTool
    try:
        r = asyncio.run(EjectTool().execute(content=text, schema="X", mode=mode, format=fmt))
    except Exception as e:
        return {"exc": f"{type(e).__name__}: {e}"[:300]}
    return {"out": r.get("output"), "lossy": r.get("lossy"), "omitted": r.get("fields_omitted")}


def eject_cli_inproc(path, mode, fmt):
    from click.testing import CliRunner
    from octave_mcp.cli.main import cli
    try:
        res = CliRunner().invoke(cli, ["eject", path, "--mode", mode, "--format", fmt])
    except Exception as e:      # CliRunner catches exceptions itself; belt and braces
        return {"exc": f"{type(e).__name__}: {e}"[:300]}
    if res.exit_code != 0:
        return {"exc": f"exit {res.exit_code}: {(res.output or '')[-300:]}"}
    out = res.stdout if hasattr(res, "stdout") else res.output
    return {"out": out[:-1] if out.endswith("\n") else out}


def octave_exe():
    return "/venv/bin/octave"


def run_cli(args, timeout=120, input=None):
    p = subprocess.run([octave_exe(), *args], capture_output=True, text=True, timeout=timeout, input=input, env=dict(os.environ))
    return p.returncode, p.stdout, p.stderr


def eject_cli_subprocess(path, mode, fmt):
    rc, out, err = run_cli(["eject", path, "--mode", mode, "--format", fmt])
    if rc != 0:
        return {"exc": f"exit {rc}: {err[-300:]}"}
    return {"out": out[:-1] if out.endswith("\n") else out}


def eject_api(ast_doc, mode, fmt, copy="mcp"):
    """The pipeline of EjectTool.execute / `octave eject` on an AST object (no text stage): reaches constructs the
    reader never produces (multi-pair inline maps, Comment nodes anywhere, empty nested blocks)."""
    import yaml
    from octave_mcp.core.projector import project
    if copy == "mcp":
        from octave_mcp.mcp.eject import _ast_to_dict, _ast_to_markdown
    else:
        from octave_mcp.cli.main import _ast_to_dict, _ast_to_markdown
    try:
        r = project(ast_doc, mode=mode)
        if fmt == "json":
            out = json.dumps(_ast_to_dict(r.filtered_doc), indent=2, ensure_ascii=False)
        elif fmt == "yaml":
            out = yaml.dump(_ast_to_dict(r.filtered_doc), allow_unicode=True, sort_keys=False, default_flow_style=False)
        elif fmt == "markdown":
            out = _ast_to_markdown(r.filtered_doc)
        else:
            out = r.output
    except Exception as e:
        return {"exc": f"{type(e).__name__}: {e}"[:300]}
    return {"out": out, "lossy": r.lossy if copy == "mcp" else None, "omitted": r.fields_omitted}


def py_encode(o):
    """Native Python value -> the JSON encoding the Lean driver uses for PyVal."""
    if o is None or isinstance(o, bool):
        return o
    if isinstance(o, int):
        return {"$int": str(o)}
    if isinstance(o, float):
        return {"$float": repr(o)}
    if isinstance(o, str):
        return o
    if isinstance(o, list):
        return [py_encode(x) for x in o]
    if isinstance(o, dict):
        return {"$dict": [[k, py_encode(v)] for k, v in o.items()]}
    return {"$obj": type(o).__name__}


def observables(ast_doc, mode):
    """What the correspondence compares with the Lean model for one (document, mode)."""
    from octave_mcp.cli import main as cli_main
    from octave_mcp.core.projector import project
    from octave_mcp.mcp import eject as mcp
    r = project(ast_doc, mode=mode)
    f = r.filtered_doc
    obs = {"doc": PD.ast_to_model(f), "lossy": r.lossy, "omitted": list(r.fields_omitted)}
    for label, mod in (("mcp", mcp), ("cli", cli_main)):
        d = mod._ast_to_dict(f)
        obs["dict_" + label] = py_encode(d)
        try:
            json.dumps(d)
            obs["jsonable_" + label] = True
        except TypeError:
            obs["jsonable_" + label] = False
        obs["md_" + label] = mod._ast_to_markdown(f)
    return obs


# ---------------------------------------------------------------------------------------------
# views: parse a rendering back into leaves
# ---------------------------------------------------------------------------------------------
class Unreadable(Exception):
    """The rendering cannot be read back by a standard reader of its format."""


def atoms_from_native(o, path=()):
    if isinstance(o, dict):
        if o.get("__literal_zone__") is True and set(o) == {"__literal_zone__", "content", "info_tag", "fence_marker"}:
            return [(path, ("zone", o["content"], o["info_tag"], o["fence_marker"]))]
        if not o:
            return [(path, ("emptymap",))]
        out = []
        for k, v in o.items():
            if not isinstance(k, str):
                raise Unreadable(f"non-string key {k!r}")
            out += atoms_from_native(v, path + (k,))
        return out
    if isinstance(o, list):
        if not o:
            return [(path, ("emptylist",))]
        out = []
        for i, v in enumerate(o):
            out += atoms_from_native(v, path + ("#%d" % i,))
        return out
    if o is None:
        return [(path, ("null",))]
    if isinstance(o, bool):
        return [(path, ("bool", o))]
    if isinstance(o, int):
        return [(path, ("int", str(o)))]
    if isinstance(o, float):
        return [(path, ("float", repr(o)))]
    if isinstance(o, str):
        return [(path, ("str", o))]
    raise Unreadable(f"foreign value {type(o).__name__}")


def view_json(out):
    try:
        o = json.loads(out)
    except Exception as e:
        raise Unreadable(f"json: {e}") from e
    if not isinstance(o, dict):
        raise Unreadable("json: top level is not an object")
    return atoms_from_native(o) if o else []


def view_yaml(out):
    import yaml
    try:
        o = yaml.safe_load(out)
    except Exception as e:
        raise Unreadable(f"yaml: {type(e).__name__}: {str(e)[:120]}") from e
    if o is None:
        return []
    if not isinstance(o, dict):
        raise Unreadable("yaml: top level is not a mapping")
    return atoms_from_native(o) if o else []


def view_octave(out):
    """-> model document read back from an OCTAVE rendering."""
    from octave_mcp.core.parser import parse
    try:
        d = parse(out)
        d.trailing_comments = []
        return PD.ast_to_model(d)
    except Exception as e:
        raise Unreadable(f"octave: {type(e).__name__}: {str(e)[:160]}") from e


HEAD_RE = re.compile(r"^(#{2,}) (.*)$")
BULLET_RE = re.compile(r"^- \*\*(.*?)\*\*: (.*)$", re.S)
PARA_RE = re.compile(r"^\*\*(.*?)\*\*: (.*)$", re.S)
FENCE_RE = re.compile(r"^(`{3,})")


def view_markdown(out):
    """Heading / bullet scan: [(path, text)].  A bullet belongs to the innermost heading above it (heading level
    L sets element L-2 of the heading stack); a bold paragraph is a top-level field.  A value that opens a code
    fence runs to the matching closing fence; other non-structural lines continue the previous value."""
    lines = out.split("\n")
    if not lines or not lines[0].startswith("# "):
        raise Unreadable("markdown: no title line")
    stack: list = []
    leaves: list = []
    i, n = 1, len(lines)
    pending_blank = 0
    while i < n:
        ln = lines[i]
        m = HEAD_RE.match(ln)
        if m:
            lvl = len(m.group(1))
            stack = stack[:lvl - 2] + [m.group(2)]
            i += 1
            pending_blank = 0
            continue
        mb, mp = BULLET_RE.match(ln), PARA_RE.match(ln)
        if mb or mp:
            key, text = (mb or mp).group(1), (mb or mp).group(2)
            fm = FENCE_RE.match(text)
            if fm:
                fence = fm.group(1)
                j = i + 1
                buf = [text]
                while j < n and lines[j] != fence:
                    buf.append(lines[j])
                    j += 1
                if j >= n:
                    raise Unreadable("markdown: unterminated code fence")
                buf.append(lines[j])
                text = "\n".join(buf)
                i = j + 1
            else:
                i += 1
            if mp:
                stack = []
                leaves.append([(key,), text])
            else:
                leaves.append([tuple(stack) + (key,), text])
            pending_blank = 0
            continue
        if ln == "":
            pending_blank += 1
            i += 1
            continue
        if not leaves:
            raise Unreadable(f"markdown: stray line {ln!r}")
        leaves[-1][1] += "\n" * (pending_blank + 1) + ln
        pending_blank = 0
        i += 1
    return [(p, t) for p, t in leaves]


def write_temp(text, suffix=".oct.md"):
    fd, path = tempfile.mkstemp(suffix=suffix, prefix="verif_project_")
    with os.fdopen(fd, "w", encoding="utf-8") as f:
        f.write(text)
    return path
