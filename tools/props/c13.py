"""C13 — What a compiled grammar can generate, the validator accepts.

Engine `gbnf`.  For every field whose chain is decided by CONST / ENUM / TYPE[BOOLEAN] / TYPE[NUMBER] /
DATE / ISO8601 (optionally with REQ/OPT): the compiled grammar is parsed by the independent Python
GBNF interpreter (tools/harness/gbnf_check.py), the value part of the field rule is enumerated
(exhaustively for finite languages; bounded enumeration + boundary samples otherwise), each derived
text t is written as  FIELD::t , read by the real `octave_mcp.parse`, the value is fed to the field's
real `ConstraintChain.evaluate` and the document to the real `Validator`.

Lean side (Props/C13): the language of each fragment is characterised by theorems (CONST = the
singleton, ENUM = the members, BOOLEAN = {true,false}, NUMBER ⊆ the reader's NUMBER token language,
DATE/ISO8601 witnesses); how the *reader* types a text is a parameter of those theorems and is
supplied here by the real reader.  Correspondence: Lean matcher vs Python matcher on every compiled
rule and string, Lean `compileChain`/`deciding` vs the real compile_chain, Lean NUMBER-token
recogniser vs the real token regex.
"""
import itertools
import json
import math
import re
import warnings

import vlib
from harness import gbnf_common as G
from harness.gbnf_check import Matcher, enumerate_alts, field_value_alts, parse_grammar, GbnfError

PROJECT = "gbnf"
PROPS = ["Octave.Lemmas.GenFacts", "Octave.Props.C13", "Octave.Props.C13chain"]
F = "octave_mcp/core/gbnf_compiler.py"
ANCHORS = [(F, "GBNFCompiler.compile_chain"), (F, "GBNFCompiler.compile_constraint"), (F, "GBNFCompiler._compile_const"), (F, "GBNFCompiler._compile_enum"),
           (F, "GBNFCompiler._compile_type"), (F, "GBNFCompiler._compile_date"), (F, "GBNFCompiler._compile_iso8601"), (F, "GBNFCompiler._escape_literal"),
           (F, "GBNFCompiler.compile_schema"), ("octave_mcp/core/constraints.py", "ConstConstraint"), ("octave_mcp/core/constraints.py", "EnumConstraint"),
           ("octave_mcp/core/constraints.py", "TypeConstraint"), ("octave_mcp/core/constraints.py", "DateConstraint"), ("octave_mcp/core/constraints.py", "Iso8601Constraint"),
           ("octave_mcp/core/constraints.py", "ConstraintChain.evaluate"), ("octave_mcp/core/constraints.py", "ConstraintChain.parse"),
           ("octave_mcp/core/constraints.py", "_parse_atom"), ("octave_mcp/core/lexer.py", "tokenize"), ("octave_mcp/core/parser.py", "Parser.parse_value"),
           ("octave_mcp/core/validator.py", "Validator._to_python_value"), ("octave_mcp/core/validator.py", "Validator._validate_section")]

# --------------------------------------------------------------------------------------------------
# pools
# --------------------------------------------------------------------------------------------------
# atoms as written inside CONST[...] / ENUM[...] (the reader's _parse_atom decides their type)
ATOMS = ['3.14159265', '1234567.0', '100000.5', '0.30000000000000004', '123456789.125', '2.5e-07', 'INF', 'Infinity', 'NaN', '-inf', 'ACTIVE', 'DONE', 'A', 'a_b', 'a-b', 'a.b', 'a/b', 'v1', 'TRUE', 'True', 'None', 'x9', '_x', 'REQ', 'inf', 'nan', 'truex', 'true_x', 'nullable', 'vsx',
         '42', '-7', '0', '-0', '007', '3.14', '-0.5', '1.50', '1e16', '1e5', '1e-7', '1e400', '-1e400', '12345678901234567890', '0.1', '100.0',
         'true', 'false', 'null', '"true"', '"null"', '"false"', '"42"', '"007"', '"1.50"', '"1e5"', '"5."', '".5"', '"+1"', '"-"', '"x-"', '"--x"', '""',
         '"x y"', '"x y z"', '"a  b"', '" lead"', '"trail "', '"a\\"b"', '"a\\\\b"', '"a\nb"', '"a\tb"', '"2024-01-15"', '"a::b"', '"a:b"', '"#tag"', '"§x"', '"a→b"',
         '"a,b"', '"[x]"', 'vs', '"a vs b"', '"vs.a"', '"true.x"', '"null-x"', 'é', '🙂', '"1.2.3"', '"$VAR"', '"a@b"', '"a|b"', '"a&b"', '"a+b"', '"a~b"', '"//c"',
         '"a//b"', '"---"', '"===END==="', 'A<B>', '0x10', '"a.b.c"', '"a→b→c"', '"a->b"', '"a<->b"', '"x]"', '"(x)"', '"{x}"', "\"it's\"", '"a;b"', '"a=b"', '"a%b"', '"a!"', '"a?"', '"a*"']
ENUM_SETS = [['ACTIVE', 'ACTIVATING', 'DONE'], ['A', 'B'], ['A'], ['1', '2.50', 'true'], ['a', 'ab', 'abc'], ['"x y"', 'z'], ['"a\\"b"', 'c'], ['007', '"007"'], ['true', 'false'],
             ['null', 'x'], ['"1.50"', '"1.5"'], ['"1.50"'], ['"x"', '"x "'], ['""', 'a'], ['a', '', 'b'], ['é', 'e'], ['"a,b"', 'c'], ['a-b', 'a_b', 'a.b', 'a/b']]
WRAPS = ["%s", "REQ∧%s", "%s∧REQ", "OPT∧%s", "%s∧OPT"]
FIELD_NAMES = ["F", "STATUS", "A.B"]

NUMBER_SAMPLES = ["0", "-0", "00", "007", "-007", "0.0", "-0.0", "1.50", "01.50", "1.5", "-1.5", "9" * 15, "9" * 16, "9" * 17, "9" * 18 + ".9", "1" + "0" * 308, "1" + "0" * 309,
                  "1" + "0" * 308 + ".0", "1" + "0" * 309 + ".0", "9" * 400, "-" + "9" * 400, "9" * 400 + ".5", "0." + "0" * 400 + "1", "9" * 4300, "-" + "9" * 4300, "9" * 4301, "-" + "1" * 4301,
                  "9" * 4301 + ".0", "0." + "9" * 4400, "1.", ".5", "1e5", "+1", "--1", "-", "", "1.2.3", "1 ", " 1", "١٢", "1,5", "0x1"]
DATE_SAMPLES = ["2024-01-15", "2023-02-30", "2024-02-29", "2023-02-29", "2100-02-29", "2000-02-29", "2024-00-10", "2024-13-01", "2024-01-00", "2024-01-30", "2024-01-31", "2024-01-32",
                "2024-04-30", "2024-04-31", "0000-01-01", "0001-01-01", "9999-12-31", "2024-12-31", "2024-1-15", "24-01-15", "2024-01-15 ", "2024/01/15", "20240115", ""]
TIME_SAMPLES = ["", "T10:00:00", "T00:00:00", "T23:59:59", "T24:00:00", "T23:60:00", "T23:59:60", "T10:00:00Z", "T10:00:00+05:30", "T10:00:00-00:00", "T10:00:00+24:00", "T10:00:00+23:59",
                "T10:00:00+00:60", "T10:00", "t10:00:00", "T10:00:00z", "T10:00:00+0530", " 10:00:00", "T10:00:00.5"]


def number_pattern():
    from octave_mcp.core import lexer
    for p, ty in lexer.TOKEN_PATTERNS:
        if ty == lexer.TokenType.NUMBER:
            return p
    return None


# --------------------------------------------------------------------------------------------------
# input-based class predicates of the recorded findings (d = deciding member as a real object)
# --------------------------------------------------------------------------------------------------
BARE_WORD = re.compile(r"[A-Za-z_][A-Za-z0-9_]*(?:[./-][A-Za-z0-9_]+)*\Z")
RESERVED_LEAD = re.compile(r"(?:true|false|null|vs)(?![A-Za-z0-9_])")


def bare_word(t: str) -> bool:
    """a text the reader is meant to read back as the same string when written bare"""
    return bool(BARE_WORD.match(t)) and not RESERVED_LEAD.match(t)


def canonical_number(t: str) -> bool:
    """t is exactly how Python prints the number the reader reads from it"""
    if not re.fullmatch(r"-?\d+(?:\.\d+)?(?:[eE][+-]?\d+)?", t):
        return False
    try:
        if re.fullmatch(r"-?\d+", t):
            return len(t) <= 4300 and str(int(t)) == t
        f = float(t)
        return math.isfinite(f) and repr(f) == t
    except ValueError:
        return False


DATE_SHAPE = re.compile(r"\d{4}-\d{2}-\d{2}\Z")
ISO_SHAPE = re.compile(r"\d{4}-\d{2}-\d{2}(?:T\d{2}:\d{2}:\d{2}(?:Z|[+-]\d{2}:\d{2})?)?\Z")


def kf_date_fragment(kind, dinfo, t):
    """F34: the DATE / ISO8601 fragments derive bare digit-hyphen texts of the documented shape
    YYYY-MM-DD[Thh:mm:ss[Z|±hh:mm]] (the reader splits them into numbers; calendar-impossible ones are
    derivable too).  A derivation of any *other* shape is not covered by the finding."""
    return (kind == "DATE" and bool(DATE_SHAPE.match(t))) or (kind == "ISO8601" and bool(ISO_SHAPE.match(t)))


def kf_literal_not_bare_word(kind, dinfo, t):
    """C13N2: CONST/ENUM literals are emitted as raw text, never in OCTAVE value syntax: a string
    value whose bare spelling is not a plain word (quotes, operators, blanks, digits first, reserved
    words …) — for ENUM: neither a plain word nor a canonical number — is misread or refused; likewise a
    CONST float that Python prints as inf / nan."""
    if kind == "CONST":
        # a numeric LITERAL that overflows a double (CONST[1e400]) prints as inf; the words inf / nan / Infinity are ordinary words
        numeric_src = bool(re.fullmatch(r"-?\d+(?:\.\d*)?(?:[eE][+-]?\d+)?", dinfo.get("atom_src") or ""))
        return (dinfo.get("pytype") == "str" and not bare_word(t)) or (dinfo.get("pytype") == "float-nonfinite" and numeric_src)
    if kind == "ENUM":
        return not (bare_word(t) or canonical_number(t))
    return False


def kf_number_over_int_digit_limit(kind, dinfo, t):
    """C13N3: the NUMBER fragment derives integers of more than 4300 digits, which the reader refuses
    (CPython's int/str conversion limit)."""
    return kind == "NUMBER" and bool(re.fullmatch(r"-?\d+", t)) and len(t.lstrip("-")) > 4300


def kf_number_overflows_double(kind, dinfo, t):
    """C13N4: the NUMBER fragment derives decimal numerals (with a fraction part) whose magnitude exceeds the
    largest double; the reader refuses them (E005 out of range) rather than reading inf."""
    if kind != "NUMBER" or not re.fullmatch(r"-?\d+\.\d+", t):
        return False
    try:
        return math.isinf(float(t))
    except ValueError:
        return False


CLASSES = [("F34", kf_date_fragment), ("C13N2", kf_literal_not_bare_word), ("C13N3", kf_number_over_int_digit_limit),
           ("C13N4", kf_number_overflows_double)]

# --------------------------------------------------------------------------------------------------
# worker: one case on the real code
# --------------------------------------------------------------------------------------------------

def deciding_info(chain):
    """(kind, info) of the member the *property* calls most specific, from the real chain object
    (reference priority CONST > ENUM > TYPE > DATE/ISO8601; REQ/OPT ignored)."""
    from octave_mcp.core import constraints as C
    cs = chain.constraints
    for c in cs:
        if isinstance(c, C.ConstConstraint):
            v = c.const_value
            pt = type(v).__name__
            if isinstance(v, float) and not math.isfinite(v):
                pt = "float-nonfinite"
            spelled = ("true" if v else "false") if isinstance(v, bool) else ("null" if v is None else str(v))   # documented spelling
            return "CONST", {"pytype": pt, "members": [spelled]}
    for c in cs:
        if isinstance(c, C.EnumConstraint):
            return "ENUM", {"members": list(c.allowed_values)}
    for c in cs:
        if isinstance(c, C.TypeConstraint):
            return {"BOOLEAN": "BOOLEAN", "NUMBER": "NUMBER"}.get(c.expected_type, "TYPE-OTHER"), {}
    for c in cs:
        if isinstance(c, C.DateConstraint):
            return "DATE", {}
        if isinstance(c, C.Iso8601Constraint):
            return "ISO8601", {}
    return "NONE", {}


def cls_sample_factory(digits):
    def sample(neg, ranges):
        if neg:
            return [c for c in ("z", "0", " ", "-", '"') if not any(lo <= c <= hi for lo, hi in ranges)]
        out = []
        for lo, hi in ranges:
            if lo == "0" and hi == "9":
                out += list(digits)
            else:
                out += [lo, hi] if lo != hi else [lo]
        return out
    return sample


def read_back(name, t):
    """FIELD::t through the real reader -> ('ok', python value) | ('error', msg) | ('shape', msg)"""
    from octave_mcp.core.ast_nodes import Assignment
    from octave_mcp.core.parser import parse
    from octave_mcp.core.validator import Validator
    try:
        doc = parse(f"{name}::{t}")
    except Exception as e:
        return "error", f"{type(e).__name__}: {str(e)[:120]}"
    asg = [s for s in doc.sections if isinstance(s, Assignment) and s.key == name]
    if len(asg) != 1 or len(doc.sections) != 1:
        return "shape", "document nodes: " + ",".join(type(s).__name__ + ":" + str(getattr(s, "key", None)) for s in doc.sections)[:160]
    try:
        return "ok", Validator()._to_python_value(asg[0].value)
    except Exception as e:
        return "error", f"_to_python_value {type(e).__name__}: {e}"


def full_validator(schema, name, t):
    """errors the real Validator reports for field `name` of block <schema.name> holding  name::t"""
    from octave_mcp.core.parser import parse
    from octave_mcp.core.validator import Validator
    sname = "SCHEMA_BLOCK"
    try:
        doc = parse(f"{sname}:\n  {name}::{t}\n")
    except Exception as e:
        return None, f"{type(e).__name__}"
    import copy
    sch = copy.copy(schema)
    sch.name = sname
    errs = Validator(schema=None).validate(doc, strict=False, section_schemas={sname: sch})
    return [e.code for e in errs if (e.field_path or "").endswith("." + name) or (e.field_path or "") == name], None


def eval_case(case):
    warnings.simplefilter("ignore")
    from octave_mcp.core.gbnf_compiler import GBNFCompiler
    res = {"case": case, "texts": [], "lean": []}
    name, ctext = case["field"], case["chain"]
    try:
        if case["kind"] == "api":
            schema = G.api_schema("S", [(name, ctext)])
        else:
            from octave_mcp.core.parser import parse
            from octave_mcp.core.schema_extractor import extract_schema_from_document
            schema = extract_schema_from_document(parse(G.fields_doc("S", [(name, ctext)])))
    except Exception:
        res["skip"] = "chain-or-doc-rejected-by-reader"
        return res
    fd = schema.fields.get(name)
    if fd is None or not fd.pattern or not fd.pattern.constraints or not fd.pattern.constraints.constraints:
        res["skip"] = "no-chain-extracted"
        return res
    chain = fd.pattern.constraints
    kind, dinfo = deciding_info(chain)
    # how the CONST atom was WRITTEN in the chain text (the known-finding classes are about the input, not about what the chain parser made of it)
    _m = re.search(r"CONST\[(.*?)\](?:∧|$)", ctext, re.S)
    dinfo["atom_src"] = _m.group(1) if _m else None
    res["kind"] = kind
    if kind in ("NONE", "TYPE-OTHER"):
        res["skip"] = "not-a-C13-chain"
        return res
    from octave_mcp.core import constraints as C
    if len([c for c in chain.constraints if not isinstance(c, (C.RequiredConstraint, C.OptionalConstraint))]) != 1 and not case.get("multi"):
        res["skip"] = "more-than-one-specific-member"
        return res
    if any(isinstance(c, C.RequiredConstraint) for c in chain.constraints) and \
            any(isinstance(c, C.ConstConstraint) and (c.const_value is None or c.const_value == "") for c in chain.constraints):
        res["skip"] = "unsatisfiable-chain (REQ with CONST null/empty: no value at all is accepted)"
        return res
    res["chain_enc"] = G.enc_chain(chain)
    try:
        g = GBNFCompiler().compile_schema(schema, include_envelope=False)
        res["impl_frag"] = GBNFCompiler().compile_chain(chain)
    except Exception as e:
        res["skip"] = f"compile-raised:{type(e).__name__}"
        return res
    res["grammar"] = g
    rule = G.ref_sanitize(name)
    try:
        gr = parse_grammar(g, True)
    except (GbnfError, RecursionError):
        res["skip"] = "grammar-unusable (C12)"
        return res
    alts = field_value_alts(gr, rule)
    if alts is None:
        res["skip"] = "field-rule-not-found (C12)"
        return res
    res["rule"] = rule
    m = Matcher(gr)
    wide = case.get("wide", False)
    # --- derivations -----------------------------------------------------------------------------
    finite = kind in ("CONST", "ENUM", "BOOLEAN")
    if finite:
        texts, trunc = enumerate_alts(gr, alts, 10 ** 6, cls_sample_factory("019"), limit=5000)
        res["exhaustive"] = not trunc
        expected = {"CONST": set(dinfo.get("members", [])), "ENUM": set(dinfo.get("members", [])), "BOOLEAN": {"true", "false"}}[kind]
        res["language_as_expected"] = (texts == expected)
        res["language"] = sorted(texts)[:50]
        samples = set(texts)
        negatives = {t + "x" for t in texts} | {t[:-1] for t in texts if t} | {"", "zzz"}
    else:
        digits = "019" if wide else "09"
        L = {"NUMBER": 5 if wide else 4, "DATE": 10, "ISO8601": 10}[kind]
        texts, trunc = enumerate_alts(gr, alts, L, cls_sample_factory(digits), limit=20000)
        pool = {"NUMBER": NUMBER_SAMPLES, "DATE": DATE_SAMPLES, "ISO8601": [d + tm for d in DATE_SAMPLES[:10] for tm in TIME_SAMPLES] + DATE_SAMPLES}[kind]
        if kind == "DATE" and not wide:
            texts = set(sorted(texts)[::5])
        samples = set(texts)
        negatives = set()
        for s in pool:
            (samples if m.fullmatch_alts(alts, s) else negatives).add(s)
        res["exhaustive"] = False
    res["n_derivable"] = len(samples)
    strings = sorted(samples) + sorted(negatives - samples)
    res["lean"] = [{"op": "rule_match", "text": g, "rule": rule, "strings": [s for s in strings if len(s) <= 600], "fuel": 1400}]
    res["py_match"] = [m.fullmatch_alts(alts, s) for s in strings if len(s) <= 600]      # Python matcher on every string (near-misses may be derivable)
    # --- oracle: read back, chain, validator --------------------------------------------------------
    for t in sorted(samples):
        st, val = read_back(name, t)
        rec = {"t": t if len(t) <= 80 else t[:40] + f"…({len(t)} chars)", "full": t if len(t) <= 5000 else None, "read": st}
        if st != "ok":
            rec["why"] = f"FIELD::text is not read: {val}"
            rec["ok"] = False
        else:
            rec["value"] = repr(val)[:80]
            try:
                r = chain.evaluate(val, name)
                rec["ok"] = bool(r.valid)
                if not r.valid:
                    rec["why"] = f"read as {type(val).__name__} {repr(val)[:60]}; chain rejects: " + ",".join(e.code for e in r.errors)
            except Exception as e:
                rec["ok"] = False
                rec["why"] = f"evaluate raised {type(e).__name__}: {e}"
            if rec["ok"]:
                codes, perr = full_validator(schema, name, t)
                if perr is not None:
                    rec["ok"], rec["why"] = False, f"block form not read: {perr}"
                elif codes:
                    rec["ok"], rec["why"] = False, f"chain accepts but the full validator reports {codes}"
        if kind in ("DATE", "ISO8601"):
            # what would remain of F34 if the text were read back as a string (quoting repaired)
            try:
                rec["as_string_ok"] = bool(chain.evaluate(t, name).valid)
            except Exception:
                rec["as_string_ok"] = False
        if not rec["ok"]:
            rec["classes"] = [fid for fid, pred in CLASSES if pred(kind, dinfo, t)]
        rec.pop("full", None) if rec["ok"] else None
        res["texts"].append(rec)
    return res


# --------------------------------------------------------------------------------------------------
PAIRS = [("TYPE[NUMBER]", "ENUM[1,2,3]"), ("ENUM[ON,OFF]", "CONST[ON]"), ("TYPE[BOOLEAN]", "CONST[true]"), ("TYPE[STRING]", "ENUM[A,B]"),
         ("TYPE[STRING]", "CONST[X]"), ("TYPE[NUMBER]", "CONST[42]"), ("ENUM[1,2,3]", "CONST[2]"), ("TYPE[STRING]", "ENUM[DRAFT,DRAFT_REVIEW]")]


def gen_cases(ctx):
    wide = ctx.thorough or ctx.widen > 1
    cases = []
    specific = [f"CONST[{a}]" for a in ATOMS] + ["ENUM[" + ",".join(s) + "]" for s in ENUM_SETS] + [f"ENUM[{a},zzz]" for a in ATOMS] + \
               ["TYPE[BOOLEAN]", "TYPE[NUMBER]", "DATE", "ISO8601", "TYPE(BOOLEAN)", "TYPE(NUMBER)"]
    for k, sp in enumerate(specific):
        wraps = WRAPS if (wide or sp in ("TYPE[BOOLEAN]", "TYPE[NUMBER]", "DATE", "ISO8601")) else [WRAPS[0], WRAPS[1 + k % 4]]
        for w in wraps:
            cases.append({"kind": "api", "field": FIELD_NAMES[k % 3] if w == "%s" else "F", "chain": w % sp, "wide": wide})
    # the same constraints as the *schema reader* delivers them from a FIELDS block
    for k, sp in enumerate(specific):
        if "(" in sp:
            continue
        cases.append({"kind": "doc", "field": "F", "chain": sp if k % 2 else "REQ∧" + sp, "wide": wide})
    # two value-shaping members in one chain, general-to-specific and specific-to-general: the rule must come from the
    # most specific one whatever the order (satisfiable pairs only, so every derived text must pass the whole chain)
    for gen_, spec_ in PAIRS:
        for chain in (f"{gen_}∧{spec_}", f"{spec_}∧{gen_}", f"REQ∧{gen_}∧{spec_}", f"{gen_}∧OPT∧{spec_}"):
            cases.append({"kind": "api", "field": "F", "chain": chain, "wide": wide, "multi": True})
        cases.append({"kind": "doc", "field": "F", "chain": f"{gen_}∧{spec_}", "wide": wide, "multi": True})
    # seeded: random ENUM sets / CONST atoms with random wrapper and field name
    rng = ctx.rng
    for _ in range(ctx.budget(150, 1500)):
        if rng.random() < 0.5:
            sp = "ENUM[" + ",".join(rng.sample(ATOMS, rng.randint(1, 4))) + "]"
        else:
            sp = f"CONST[{rng.choice(ATOMS)}]"
        cases.append({"kind": rng.choice(["api", "api", "doc"]), "field": rng.choice(FIELD_NAMES), "chain": rng.choice(WRAPS) % sp, "wide": wide})
    return cases


def witness_text(w, default):
    t = w.get("text", default)
    if isinstance(t, dict):
        t = t.get("prefix", "") + t["repeat"] * t["n"] + t.get("suffix", "")
    return t


# --- the chain half of `accepts` (Spec/ChainAccept.lean: readsAs + chainOk) against the real reader and the real constraint classes -------
CHAIN_TEXTS = ["true", "false", "null", "0", "7", "007", "-3", "-0", "1.5", "1.50", "1e5", "-0.0", "1E3", "0.5e-3", "1e400", "-1e999", "12345678901234567890",
               "abc", "A_b.c-d", "ACTIVE", "ACT", "AC", "DONE", "a", "x-", "true-x", "vs", "vs.a", "True", "NULL", "None", "nullx", "_", "a.b", "AB",
               '"abc"', '"a b"', '"a\\"b"', '"t\\tx"', '"x\\\\y"', '"n\\nz"', '""', '"true"', '"7"', '"1.5"', '"ACTIVE"']


def chain_accepts_corr(ctx, drv):
    """For pools of value texts x constraints: the model's `readsAs` / `chainAccepts` vs parse + Constraint.evaluate on the real code.
    `readsAs = none` stands for 'refused or outside the covered classes': compared only as 'the real code must not contradict a value'."""
    import math
    from octave_mcp.core.constraints import ConstConstraint, EnumConstraint, OptionalConstraint, RequiredConstraint, TypeConstraint
    consts = [True, False, None, 0, 1, 7, -3, 1.5, 1.0, 100000.0, 0.0005, "abc", "true", "007", "ACTIVE", "a b", "", "7", "1.5"]
    enums = [["ACTIVE", "DONE"], ["ACTIVE", "ACTIVATING"], ["AB", "AB"], ["true", "True"], ["7", "70"], ["1.5", "1.50"], ["abc"], ["1e5"], ["None", "Nope"],
             ["a b"], ["100000.0"], ["-3"], ["False"], [""], ["0.0005"]]
    kinds = ([({"k": "CONST", "ct": "bool" if isinstance(c, bool) else "none" if c is None else "int" if isinstance(c, int) else "float" if isinstance(c, float) else "str",
                "s": str(c) if not isinstance(c, float) else repr(c)}, ConstConstraint(const_value=c), c) for c in consts]
             + [({"k": "ENUM", "a": a}, EnumConstraint(allowed_values=list(a)), None) for a in enums]
             + [({"k": "TYPE", "t": t}, TypeConstraint(expected_type=t), None) for t in ("STRING", "NUMBER", "BOOLEAN", "LIST", "BOGUS")]
             + [({"k": "REQ"}, RequiredConstraint(), None), ({"k": "OPT"}, OptionalConstraint(), None)])
    reqs, meta = [], []
    for t in CHAIN_TEXTS:
        st, val = read_back("F", t)
        for (kj, cobj, cval) in kinds:
            inf, rp, eq, ieq = False, "", False, False
            # the float facts of THIS (text, constant) pair, from CPython's own floats (ChainEnv is a parameter of the spec)
            try:
                fv = float(t)
                inf = math.isinf(fv)
                rp = repr(fv)
            except ValueError:
                fv = None
            num = val if (st == "ok" and isinstance(val, (bool, int, float))) else fv
            if num is not None and cval is not None and isinstance(cval, (bool, int, float)):
                eq = ieq = bool(num == cval)
            reqs.append({"op": "chain_accepts", "kind": kj, "s": t, "inf": inf, "repr": rp, "eq": eq, "ieq": ieq})
            meta.append((t, kj, cobj, st, val))
    reps = drv.batch_par(reqs)
    n = 0
    for (t, kj, cobj, st, val), rep in zip(meta, reps):
        ctx.count("chain_accepts_cases")
        if "unsupported" in rep:
            ctx.corr_disagreements.append({"case": {"text": t, "kind": kj}, "view": "chain_accepts op", "model": rep, "impl": None})
            continue
        if rep["reads"] is None:
            ctx.count("chain_accepts_model_none")
            continue
        n += 1
        if st != "ok":
            ctx.corr_disagreements.append({"case": {"text": t, "kind": kj}, "view": "readsAs gives a value, the real reader does not", "model": rep["reads"], "impl": [st, str(val)[:80]]})
            continue
        tag = ("bool:" + str(val).lower()) if isinstance(val, bool) else "null" if val is None else ("int:%d" % val) if isinstance(val, int) else ("float:" + t) if isinstance(val, float) else ("str:" + val) if isinstance(val, str) else "other"
        if tag != rep["reads"]:
            ctx.corr_disagreements.append({"case": {"text": t, "kind": kj}, "view": "value read (Spec/ChainAccept.readsAs)", "model": rep["reads"], "impl": tag})
            continue
        real = bool(cobj.evaluate(val, "F").valid)
        if real != rep["ok"]:
            ctx.corr_disagreements.append({"case": {"text": t, "kind": kj}, "view": "Constraint.evaluate(value read).valid (Spec/ChainAccept.chainOk)", "model": rep["ok"], "impl": real})
    ctx.count("chain_accepts_compared", n)


def run(ctx: vlib.Ctx):
    ctx.rule = ("a case = (field name, chain text whose only specific member is CONST/ENUM/TYPE[BOOLEAN]/TYPE[NUMBER]/DATE/ISO8601, optionally with REQ/OPT, "
                "route api|FIELDS document); for each case every derivation of the compiled field rule's value part (exhaustive for CONST/ENUM/BOOLEAN; all strings "
                "up to a length bound over a digit sample plus boundary samples for NUMBER/DATE/ISO8601) is read back and validated; evaluations = derived texts checked; "
                "non-trivial = a derived text was read back; distinct = distinct (case, text)")
    ctx.translate(PROJECT)
    proj = ctx.lean(PROJECT, PROPS)
    # the READER side of the statement (what the reader makes of `F::<derived text>`) is proved in the text engine, over the same
    # recogniser `pyNumberFull` that `C13_number_language` concludes with: build and audit that module, and check that its copy of
    # the recogniser is textually the gbnf engine's (two lake projects cannot import each other)
    ctx.translate("text")
    ctx.lean("text", ["Octave.Props.C13reader"], extra_targets=())
    src = (vlib.LEAN / "gbnf" / "Octave" / "Spec" / "PyNumber.lean").read_text()
    cpy = (vlib.LEAN / "text" / "Octave" / "Lemmas" / "C13Reader.lean").read_text()
    a = src[src.index("def dropDigits"):src.index("end Octave.Gbnf")].strip()
    b = cpy[cpy.index("-- BEGIN COPY"):cpy.index("-- END COPY")]
    b = b[b.index("def dropDigits"):].strip()
    if a != b:
        ctx.audit_problems.append("text engine's copy of Spec/PyNumber.lean (Lemmas/C13Reader.lean, BEGIN COPY..END COPY) differs from the gbnf engine's definitions")
    changed = vlib.fingerprints_changed(ctx.prop, ANCHORS)
    if changed:
        ctx.widen = max(ctx.widen, 8)
        ctx.notes.append(f"fingerprint changed: {changed}: search widened")
    drv = proj.driver()
    findings = vlib.load_findings(ctx.prop)
    if ctx.replay:
        d = json.loads(open(ctx.replay).read())
        cases = [d["case"]["case"] if "case" in d.get("case", {}) else d["case"]] if "case" in d else []
    else:
        corpus = [json.loads(f.read_text())["case"] for f in sorted((vlib.VERIF / "corpus" / ctx.prop).glob("*.json"))]
        cases = [f["witness"]["case"] for f in findings] + corpus + gen_cases(ctx)
        ctx.extra["corpus_cases"] = len(corpus)
    n_known = 0 if ctx.replay else len(findings)
    results = vlib.pmap(eval_case, cases)

    # ---- Lean: matcher on every rule/string, chain fragment + deciding kind, NUMBER token recogniser ----
    reqs, owners = [], []
    for ri, r in enumerate(results):
        for q in r.get("lean", []):
            owners.append((ri, "match"))
            reqs.append(q)
        if "chain_enc" in r:
            owners.append((ri, "chain"))
            reqs.append({"op": "chain", "chain": r["chain_enc"]})
    npat = number_pattern()
    num_pool = sorted(set(NUMBER_SAMPLES + ["".join(p) for n in range(0, 5) for p in itertools.product("-19.eE+", repeat=n)]))
    num_pool = [s for s in num_pool if s.isascii()]
    for s in num_pool:
        owners.append((s, "pynum"))
        reqs.append({"op": "py_number", "s": s})
    from octave_mcp.core.constraints import DateConstraint
    ymd_pool = sorted(set(DATE_SAMPLES + [d + t for d in DATE_SAMPLES[:4] for t in TIME_SAMPLES[:4]] + ["2024 -01 -15", "2024-02-30", "1900-02-29", "2024-06-31", "2024-09-31",
                                          "2024-11-31", "2024-11-30", "0000-00-00", "2024-1-01", "2024-01-1", "abcd-ef-gh", "2024-01-15\n", " 2024-01-15", "2024–01–15"]
                          + ["%04d-%02d-%02d" % (y, m, d) for y in (1, 1999, 2000, 2023, 2024, 2100) for m in (0, 1, 2, 4, 12, 13) for d in (0, 1, 28, 29, 30, 31, 32)]))
    for s in ymd_pool:
        owners.append((s, "ymd"))
        reqs.append({"op": "valid_ymd", "s": s})
    replies = drv.batch_par(reqs)
    for (own, what), rep in zip(owners, replies):
        if what == "ymd":
            real = bool(DateConstraint().evaluate(own, "F").valid)
            if rep.get("m") != real:
                ctx.corr_disagreements.append({"case": {"date_text": own}, "view": "DATE constraint on a string value (Spec/Calendar.validYMD)", "model": rep.get("m"), "impl": real})
            continue
        if what == "pynum":
            real = bool(npat and re.fullmatch(npat, own))
            if rep.get("m") != real:
                ctx.corr_disagreements.append({"case": {"number_text": own}, "view": "NUMBER token regex full match", "model": rep.get("m"), "impl": real})
            continue
        r = results[own]
        if what == "match":
            if not rep.get("ok") or rep.get("m") != r["py_match"]:
                bad = [s for s, a, b in zip(r["lean"][0]["strings"], rep.get("m") or [], r["py_match"]) if a != b][:5]
                path = vlib.VERIF / "replays" / "C13-matcher-disagreement.json"
                path.parent.mkdir(exist_ok=True)
                path.write_text(json.dumps({"case": r["case"], "grammar": r["grammar"], "strings": bad, "lean": rep if not rep.get("ok") else "see strings"}, indent=1, ensure_ascii=False))
                raise vlib.Infra(f"Lean and Python GBNF matchers disagree (machinery bug), see {path}")
        else:
            impl = r["impl_frag"]
            if rep.get("frag") != impl:
                ctx.corr_disagreements.append({"case": r["case"], "view": "compile_chain fragment", "model": rep.get("frag", rep), "impl": impl})
            want = {"CONST": "CONST", "ENUM": "ENUM", "BOOLEAN": "TYPE", "NUMBER": "TYPE", "DATE": "DATE", "ISO8601": "ISO8601"}[r["kind"]]
            if rep.get("deciding") != want:
                ctx.corr_disagreements.append({"case": r["case"], "view": "deciding member of the chain", "model": rep.get("deciding"), "impl": want})

    if not ctx.replay:
        chain_accepts_corr(ctx, drv)

    # ---- oracle ---------------------------------------------------------------------------------------
    reproduced = {}
    after_quoting = {"derivable": 0, "still_rejected": 0}
    for ri, r in enumerate(results):
        case = r["case"]
        if "skip" in r:
            ctx.count("skip:" + r["skip"])
            ctx.case(case, nontrivial=False)
            continue
        ctx.count("kind:" + r["kind"])
        ctx.count("route:" + case["kind"])
        if r["kind"] in ("CONST", "ENUM", "BOOLEAN"):
            ctx.count("finite-language-exhaustive" if r.get("exhaustive") else "finite-language-truncated")
            if not r.get("language_as_expected"):
                # the Lean theorems say the language is exactly the listed texts; the real grammar disagrees
                ctx.corr_disagreements.append({"case": case, "view": "language of the compiled fragment (Lean theorem C13_*_language) vs enumeration of the real grammar",
                                               "model": "exactly the members", "impl": r.get("language")})
        if r["kind"] == "NUMBER" and npat:
            bad = [rec["t"] for rec in r["texts"] if not re.fullmatch(npat, rec.get("full_text", rec["t"])) and "…" not in rec["t"]]
            if bad:
                ctx.corr_disagreements.append({"case": case, "view": "every derivation of the NUMBER fragment fully matches the reader's NUMBER token pattern (theorem C13_number_language)",
                                               "model": "all match", "impl": bad[:5]})
        if not r["texts"]:
            ctx.case(case, nontrivial=False)
        for rec in r["texts"]:
            ctx.case({"case": case, "t": rec["t"]}, nontrivial=True)
            if "as_string_ok" in rec:
                after_quoting["derivable"] += 1
                after_quoting["still_rejected"] += (not rec["as_string_ok"])
            if rec["ok"]:
                ctx.count("accepted")
                continue
            cl = rec.get("classes") or []
            if cl:
                fid = cl[0]
                ctx.known_hits[fid] = ctx.known_hits.get(fid, 0) + 1
                ctx.count("rejected:" + fid)
                if ri < n_known and fid == findings[ri]["id"] and rec["t"][:40] == witness_text(findings[ri]["witness"], rec["t"])[:40]:
                    reproduced.setdefault(ri, f"derived text {rec['t']!r}: {rec['why']}")
            else:
                ctx.count("rejected:NEW")
                ctx.failures.append({"case": case, "derived_text": rec.get("full") or rec["t"], "why": f"grammar derives {rec['t']!r} for a {r['kind']} field but: {rec['why']}",
                                     "why_class": r["kind"] + ":" + rec["why"].split(":")[0][:40], "fragment": r.get("impl_frag"), "observed": rec.get("value")})
    for ri, f in enumerate(findings if not ctx.replay else []):
        if ri in reproduced:
            ctx.known_reproduced.append((f, reproduced[ri]))
        else:
            ctx.notes.append(f"known finding {f['id']} did not reproduce on this tree")
    ctx.extra["F34_if_quoting_were_repaired"] = after_quoting
    ctx.extra["number_token_pattern"] = npat
    ctx.extra["lean_requests"] = len(reqs)
    ctx.trusted = ["Lean 4.33.0 kernel; axioms per theorem in coverage.theorems", "tools/gen/gbnf.py (templates of gbnf_compiler.py -> Gen/Gbnf.lean)",
                   "Spec/GbnfSyntax.lean derivation semantics, cross-checked against the independent matcher tools/harness/gbnf_check.py on every compiled rule",
                   "harness tools/props/c13.py (enumeration, read-back through the real reader, real ConstraintChain.evaluate and Validator)",
                   "the OCTAVE reader is NOT modelled in this engine: its typing of a derived text is a parameter of the theorems, supplied by the real reader"]
    ctx.assumptions = ["the reader's typing of `FIELD::text` is external (owned by the text engine)", "Python str()/repr() of CONST/ENUM members are supplied by the runtime",
                       "NUMBER / DATE / ISO8601 languages are infinite or large: enumeration is bounded (digit sample, length bound) plus boundary samples"]
