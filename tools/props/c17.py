"""C17 — base_hash is a real compare-and-swap; failed and dry calls change nothing.

  translate -> lean build + audit (Props/C17: C17_step, C17_history, C17_stale_rejected, C17_dry_unchanged, C17_error_unchanged,
     C17_two_writers_negative (F27), C17_two_writers_partial (N writers, invariant proof), C17_serial_in_loop, gen_* facts)
  -> known finding F27 (two writers, overlapping [re-check, replace] windows, both succeed): replayed on the real code
  -> known finding C17N1 (WriteTool only: target absent at the entry look, created by another writer before this call's replace; the
     entry decision `file_exists` is reused for the re-check, so the file is replaced without a comparison): replayed on the real code
  -> sequential histories: every history of length <= L over {content write, changes write, normalize,
     corrections_only call, external modification} x base_hash in {none, current, stale, future} is executed on the
     real tool (trie walk, one real call per trie node) and compared, envelope by envelope and byte by byte, with
       (a) the property's register oracle (python, written from the property text, independent of write.py), and
       (b) the Lean model (driver `history`, one request per distinct (file state, step));
  -> interleavings: two writers in two threads whose file-system calls are gated by the harness scheduler; each
     schedule is executed deterministically on the real code and on the Lean model (driver `sched`); the oracle
     (at most one writer holding the same base_hash succeeds; content at install time hashes to base_hash) is
     evaluated on the real outcome, failures inside the class of F27 / C17N1 are counted as known, others reported;
     writer pairs cover every write path (WriteTool, atomic_write_octave, CLI) on an existing file AND on a path that is absent
     when the writers enter (both carrying the same base_hash); the family "one writer's whole call inside the other's, at every
     position" is always run in full
  -> one event loop: two execute() coroutines gathered in one loop never interleave (dynamic side of `awaitsInExecute = []`).
"""
from __future__ import annotations

import functools
import itertools
import json
import os
import re
import sys

import vlib

sys.path.insert(0, str(vlib.VERIF / "tools" / "harness"))
import fs_common as C  # noqa: E402
import fs_interpose as F  # noqa: E402

PROJECT = "fs"
PROPS = ["Octave.Props.C17"]
W, FO, CLI = "octave_mcp/mcp/write.py", "octave_mcp/core/file_ops.py", "octave_mcp/cli/main.py"
ANCHORS = [(W, "WriteTool.execute"), (W, "WriteTool._validate_path"), (W, "WriteTool._compute_hash"), (W, "WriteTool._apply_changes"),
           (FO, "atomic_write_octave"), (FO, "validate_octave_path"), (FO, "compute_hash"), (CLI, "write")]

NEVER = C.DOC.format(a=424242, b="a version nobody ever wrote")
GONE = C.DOC.format(a=31337, b="the version both writers had read before the file was removed")
BROKEN = "A::[1,2\n"
HASHES = ("none", "cur", "stale", "future")

# ------------------------------------------------------------------------------------------------------
# Independent reference for the pure pipeline (core parser/emitter only; nothing from write.py)
# ------------------------------------------------------------------------------------------------------


@functools.lru_cache(maxsize=None)
def ref_canon(text: str):
    return C.canonical_of(text)


@functools.lru_cache(maxsize=None)
def ref_changes(text: str, v: int):
    r = ref_canon(text)
    if r[0] == "err":
        return ("err", "E_PARSE")
    new, n = re.subn(r"(?m)^A::.*$", f"A::{v}", r[1])
    if n != 1:
        return ("err", "E_REF")   # the reference does not cover this shape: the node is skipped
    return ("ok", new)


def content_w(i):
    return C.DOC.format(a=100 + i, b="w")


def content_d(i):
    return C.DOC.format(a=500 + i, b="dry")


def content_x(i):
    return f"===DOC===\nMETA:\n  TYPE::X\nA::{900 + i}\nB->C\n===END===\n"


def pipeline(entry: str, kind: str, i: int, cur):
    """('ok', new text) | ('err', code) | ('nofile',) for the pure part of a step of kind W/D/C/N at depth i."""
    if kind in ("W", "D"):
        c = content_w(i) if kind == "W" else content_d(i)
        if entry == "atomic":
            return ("ok", c)
        return ref_canon(c)
    if cur is None:
        return ("nofile",)
    if kind == "C":
        return ref_changes(cur, 700 + i)
    r = ref_canon(cur)   # normalize
    return r


def base_text_of(bh: str, cur, init, new):
    """The text whose hash is passed as base_hash (None = no base_hash)."""
    if bh == "none":
        return None
    if bh == "cur":
        return cur if cur is not None else ""
    if bh == "stale":
        return init if (init is not None and init != cur) else NEVER
    return new if new is not None else "a future text that cannot be computed"


def reg_step(entry: str, state, step, i: int, init):
    """The register oracle, from the property text.  Returns dict(expect_status, codes, new_state, hash, base_text, new)."""
    kind, bh = step
    if kind == "X":
        return {"ext": content_x(i)}
    if kind == "XB":
        return {"ext": BROKEN}
    if kind == "XE":
        return {"ext": ""}          # truncated to zero bytes by someone else: the file EXISTS and its content hashes to sha256("")
    p = pipeline(entry, kind, i, state)
    new = p[1] if p[0] == "ok" else None
    bt = base_text_of(bh, state, init, new)
    reasons = []
    if p[0] == "nofile":
        reasons.append("E_FILE")
    cas_mismatch = bt is not None and state is not None and C.sha(state) != C.sha(bt)
    if cas_mismatch:
        reasons.append("E_HASH")
    if p[0] == "err":
        reasons.append(p[1])
    if reasons:
        return {"status": "error", "codes": reasons, "new_state": state, "hash": None, "base_text": bt, "new": new, "cas_mismatch": cas_mismatch}
    if kind == "D":
        return {"status": "success", "codes": [], "new_state": state, "hash": C.sha(new), "base_text": bt, "new": new, "cas_mismatch": False}
    return {"status": "success", "codes": [], "new_state": new, "hash": C.sha(new), "base_text": bt, "new": new, "cas_mismatch": False}


def alphabet(entry: str, with_broken: bool):
    kinds = {"tool": ("W", "C", "N", "D"), "atomic": ("W",), "cli": ("W", "C")}[entry]
    steps = [(k, h) for k in kinds for h in HASHES] + [("X", "-")]
    if with_broken:
        steps.append(("XB", "-"))
        steps.append(("XE", "-"))
    return steps


def real_args(entry, step, i, target, bt):
    kind, _bh = step
    a = {"target_path": target}
    if kind == "W":
        a["content"] = content_w(i)
    elif kind == "D":
        a["content"] = content_d(i)
        a["corrections_only"] = True
    elif kind == "C":
        a["changes"] = {"A": 700 + i}
    if bt is not None:
        a["base_hash"] = C.sha(bt)
    return a


# ------------------------------------------------------------------------------------------------------
# History trie walk (pool worker; everything in-process: the same tool instance serves the whole history)
# ------------------------------------------------------------------------------------------------------

class _Runner:
    def __init__(self, entry):
        import asyncio
        F.preload()
        self.entry = entry
        self.loop = asyncio.new_event_loop()
        from octave_mcp.mcp.write import WriteTool
        self.tool = WriteTool()

    def call(self, args):
        if self.entry == "tool":
            try:
                r = self.loop.run_until_complete(self.tool.execute(**args))
            except Exception as e:
                return {"status": "raised", "code": type(e).__name__, "hash": None}
            codes = [e.get("code") for e in r.get("errors", [])]
            return {"status": r.get("status"), "code": codes[0] if codes else None, "hash": r.get("canonical_hash") or None}
        return F.call_entry(self.entry, args)


def write_state(target, text, mode=0o644):
    if text is None:
        try:
            os.unlink(target)
        except FileNotFoundError:
            pass
    else:
        with open(target, "wb") as f:
            f.write(text.encode("utf-8"))


def read_text_state(target):
    try:
        with open(target, "rb") as f:
            return f.read().decode("utf-8")
    except FileNotFoundError:
        return None


LEAF_REPEATS = int(os.environ.get("VERIF_C17_LEAF_REPEATS", "2"))   # 0 = execute every leaf of the deepest level


def hist_worker(item):
    entry, init, prefix, max_len, with_broken = item
    sb = C.Sandbox({"content": init})
    run = _Runner(entry)
    steps = alphabet(entry, with_broken)
    out = {"n": 0, "failures": [], "obs": {}, "dist": {}, "skipped": 0}
    name = os.path.basename(sb.target)

    def count(k):
        out["dist"][k] = out["dist"].get(k, 0) + 1

    def do_step(state, step, i, hist):
        """Executes one step from file state `state`; returns the new state (None = stop this branch)."""
        exp = reg_step(entry, state, step, i, init)
        if "ext" in exp:
            write_state(sb.target, exp["ext"])
            count("step:X")
            return exp["ext"]
        if "E_REF" in exp.get("codes", []):
            out["skipped"] += 1
            return None
        args = real_args(entry, step, i, sb.target, exp["base_text"])
        res = run.call(args)
        after = read_text_state(sb.target)
        listing = sorted(os.listdir(sb.parent))
        out["n"] += 1
        count(f"step:{step[0]}:{step[1]}")
        count(f"outcome:{res['status']}" + (f":{res['code']}" if res.get("code") else ""))
        why = []
        # --- the property's oracle -------------------------------------------------------------------
        extra = [n for n in listing if n != name]
        if extra:
            why.append(("residue", f"files left beside the target: {extra}"))
        if res["status"] == "success" and exp.get("cas_mismatch"):
            why.append(("cas", "a call whose base_hash does not match the file's content succeeded"))
        if exp.get("cas_mismatch") and after != state:
            why.append(("cas", "the file changed although base_hash did not match its content"))
        if exp.get("cas_mismatch") and res["status"] == "error" and exp["codes"] == ["E_HASH"] and entry != "cli" and res.get("code") != "E_HASH":
            why.append(("cas-code", f"base_hash mismatch answered with {res.get('code')} instead of E_HASH"))
        if res["status"] != "success" and after != state:
            why.append(("error-changed", f"status={res['status']} {res.get('code')} but the file changed"))
        if step[0] == "D" and after != state:
            why.append(("dry-changed", "corrections_only call changed the file"))
        if res["status"] == "success" and step[0] != "D":
            if exp["status"] == "success":
                if after != exp["new_state"]:
                    why.append(("content", "success but the file does not hold the new canonical text"))
                if res.get("hash") != exp["hash"]:
                    why.append(("hash", "canonical_hash is not the hash of the new canonical text"))
            elif after is not None and res.get("hash") != C.sha(after):
                why.append(("hash", "canonical_hash is not the hash of the file"))
        for cls, w in why:
            out["failures"].append({"case": {"entry": entry, "init": init, "history": [list(s) for s in hist + [step]]},
                                    "why": w, "why_class": cls, "observed": res, "state_before": state, "state_after": after})
        # --- record for the correspondence with the Lean model ------------------------------------------
        key = json.dumps([state, list(step), i, init if step[1] == "stale" else None], ensure_ascii=False)
        obs = [res["status"], res.get("code"), res.get("hash") if res["status"] == "success" else None, after]
        prev = out["obs"].get(key)
        if prev is None:
            out["obs"][key] = {"obs": obs, "hist": [list(s) for s in hist + [step]]}
        elif prev["obs"] != obs:
            out["failures"].append({"case": {"entry": entry, "init": init, "history": [list(s) for s in hist + [step]],
                                             "other_history": prev["hist"]},
                                    "why": f"same file state and same call, different outcome: {prev['obs'][:3]} vs {obs[:3]} (hidden state)",
                                    "why_class": "history-dependence"})
        return after

    try:
        # replay the prefix (every worker replays its own prefix; a prefix node is counted by the leftmost worker below it)
        state = init
        hist = []
        ok = True
        for i, st in enumerate(prefix):
            st = tuple(st)
            counted = all(tuple(p) == steps[0] for p in prefix[i + 1:])
            n0, d0 = out["n"], dict(out["dist"])
            r = do_step(state, st, i, hist)
            if not counted:
                out["n"], out["dist"] = n0, d0
            hist.append(st)
            if r is None and st[0] not in ("X", "XB", "XE"):
                ok = False
                break
            state = read_text_state(sb.target)
        if ok:
            leaf_seen = {}

            def dfs(state, depth, hist):
                if depth >= max_len:
                    return
                for st in steps:
                    if LEAF_REPEATS and max_len >= 5 and depth == max_len - 1 and st[0] not in ("X", "XB", "XE"):
                        # deepest level of the long plans: every distinct (file state, call) below this worker's prefix is
                        # executed from at most LEAF_REPEATS different histories (all shallower nodes: from every history)
                        kk = (state, st)
                        if leaf_seen.get(kk, 0) >= LEAF_REPEATS:
                            out["dist"]["leaf-deduplicated"] = out["dist"].get("leaf-deduplicated", 0) + 1
                            continue
                        leaf_seen[kk] = leaf_seen.get(kk, 0) + 1
                    if read_text_state(sb.target) != state:
                        write_state(sb.target, state)
                    r = do_step(state, st, depth, hist)
                    if r is None and st[0] not in ("X", "XB", "XE") and "E_REF" in reg_step(entry, state, st, depth, init).get("codes", []):
                        continue
                    ns = read_text_state(sb.target)
                    dfs(ns, depth + 1, hist + [st])
            dfs(state, len(prefix), hist)
    finally:
        sb.cleanup()
    return out


def model_req_for_key(entry, key):
    state, step, i, init = json.loads(key)
    step = tuple(step)
    sb = C.Sandbox.__new__(C.Sandbox)
    sb.state = {"content": state, "mode": 0o644}
    exp = reg_step(entry, state, step, i, init if step[1] == "stale" else state)
    p = pipeline(entry, step[0], i, state)
    fails = None
    if p[0] == "err":
        fails = "E_PARSE" if entry == "cli" else p[1]
    mode = {"W": "content", "D": "content", "C": "changes", "N": "normalize"}[step[0]]
    call = C.model_call(sb, mode=mode, base_text=exp["base_text"], dry=step[0] == "D", path_ok=True,
                        fails_default=fails, canon_default=exp["new"] if exp["new"] is not None else "")
    return {"op": "history", "prog": C.PROG_OF_ENTRY[entry], "fs": sb.abstract_fs(), "steps": [{"call": call}], "query": sb.query()}


# ------------------------------------------------------------------------------------------------------
# Two writers
# ------------------------------------------------------------------------------------------------------

def pair_scenarios(rng):
    a = rng.randrange(1, 400)
    old = C.DOC.format(a=a, b="old")
    nc = f"===DOC===\nMETA:\n  TYPE::X\nA::{a}\nB->C\n===END===\n"
    wa, wb = C.DOC.format(a=a + 1000, b="writer A"), C.DOC.format(a=a + 2000, b="writer B")
    return {
        "P1-same-base": {"entry": "tool", "init": old, "writers": [{"kind": "W", "content": wa, "base": "cur"}, {"kind": "W", "content": wb, "base": "cur"}]},
        "P2-cas-vs-blind": {"entry": "tool", "init": old, "writers": [{"kind": "W", "content": wa, "base": "cur"}, {"kind": "W", "content": wb, "base": "none"}]},
        "P3-changes-vs-content": {"entry": "tool", "init": old, "writers": [{"kind": "C", "v": 77, "base": "cur"}, {"kind": "W", "content": wb, "base": "cur"}]},
        "P4-normalize-vs-changes": {"entry": "tool", "init": nc, "writers": [{"kind": "N", "base": "cur"}, {"kind": "C", "v": 78, "base": "cur"}]},
        "P5-atomic-same-base": {"entry": "atomic", "init": old, "writers": [{"kind": "W", "content": wa, "base": "cur"}, {"kind": "W", "content": wb, "base": "cur"}]},
        "P6-cur-vs-stale": {"entry": "tool", "init": old, "writers": [{"kind": "W", "content": wa, "base": "cur"}, {"kind": "W", "content": wb, "base": "stale"}]},
        "P7-blind-blind": {"entry": "tool", "init": old, "writers": [{"kind": "W", "content": wa, "base": "none"}, {"kind": "W", "content": wb, "base": "none"}]},
        "P8-create-create": {"entry": "tool", "init": None, "writers": [{"kind": "W", "content": wa, "base": "cur"}, {"kind": "W", "content": wb, "base": "cur"}]},
        # --- targets ABSENT when the first writer enters, both writers carry the same base_hash, every write path.
        # What base_hash means on an absent path (write.py `base_hash and file_exists`, file_ops.py `base_hash and path_obj.exists()`):
        # nothing is compared, the call is a create.  "cur" = sha256("") ; "gone" = hash of the document both writers had read
        # before it was removed (clean-up, branch switch).  As soon as one writer has installed, the path holds a text that
        # does not hash to the other's base_hash.
        "P9-absent-atomic": {"entry": "atomic", "init": None, "writers": [{"kind": "W", "content": wa, "base": "cur"}, {"kind": "W", "content": wb, "base": "cur"}]},
        "P10-absent-cli": {"entry": "cli", "init": None, "writers": [{"kind": "W", "content": wa, "base": "cur"}, {"kind": "W", "content": wb, "base": "cur"}]},
        "P11-gone-tool": {"entry": "tool", "init": None, "writers": [{"kind": "W", "content": wa, "base": "gone"}, {"kind": "W", "content": wb, "base": "gone"}]},
        "P12-gone-atomic": {"entry": "atomic", "init": None, "writers": [{"kind": "W", "content": wa, "base": "gone"}, {"kind": "W", "content": wb, "base": "gone"}]},
        "P13-gone-cli": {"entry": "cli", "init": None, "writers": [{"kind": "W", "content": wa, "base": "gone"}, {"kind": "W", "content": wb, "base": "gone"}]},
        # the CLI on an existing file (the third write path of the same-base pair P1 / P5)
        "P14-cli-same-base": {"entry": "cli", "init": old, "writers": [{"kind": "W", "content": wa, "base": "cur"}, {"kind": "W", "content": wb, "base": "cur"}]},
    }


ABSENT_PAIRS = ("P8-create-create", "P9-absent-atomic", "P10-absent-cli", "P11-gone-tool", "P12-gone-atomic", "P13-gone-cli")


def writer_pipeline(entry, w, baseline):
    if w["kind"] == "W":
        return ("ok", w["content"]) if entry == "atomic" else ref_canon(w["content"])
    if baseline is None:
        return ("nofile",)
    if w["kind"] == "C":
        return ref_changes(baseline, w["v"])
    return ref_canon(baseline)


def writer_args(entry, w, target, init):
    a = {"target_path": target}
    if w["kind"] == "W":
        a["content"] = w["content"]
    elif w["kind"] == "C":
        a["changes"] = {"A": w["v"]}
    if w["base"] == "cur":
        a["base_hash"] = C.sha(init if init is not None else "")
    elif w["base"] == "stale":
        a["base_hash"] = C.sha(NEVER)
    elif w["base"] == "gone":
        a["base_hash"] = C.sha(GONE)
    return a


def writer_base_text(w, init):
    if w["base"] == "gone":
        return GONE
    return None if w["base"] == "none" else ((init if init is not None else "") if w["base"] == "cur" else NEVER)


class _ThreadStream:
    """sys.stdout / sys.stderr stand-in that keeps what each thread prints apart (two CLI writers in two threads:
    contextlib.redirect_stdout is process-global and would mix, or leak, their output)."""

    def __init__(self):
        import threading
        self._tl = threading.local()

    def _buf(self):
        if not hasattr(self._tl, "buf"):
            self._tl.buf = []
        return self._tl.buf

    def write(self, s):
        self._buf().append(s if isinstance(s, str) else s.decode("utf-8", "replace"))
        return len(s)

    def flush(self):
        return None

    def isatty(self):
        return False

    def take(self):
        b = "".join(self._buf())
        self._tl.buf = []
        return b


def _cli_call_threads(out, err):
    """call_entry('cli', ...) with per-thread capture instead of redirect_stdout (same result view)."""
    def call(entry, args):
        from octave_mcp.cli.main import cli
        argv = ["write", args["target_path"]]
        if args.get("content") is not None:
            argv += ["--content", args["content"]]
        if args.get("changes") is not None:
            argv += ["--changes", json.dumps(args["changes"])]
        if args.get("base_hash"):
            argv += ["--base-hash", args["base_hash"]]
        out.take(), err.take()
        code = 0
        try:
            cli.main(args=argv, prog_name="octave", standalone_mode=False)
        except SystemExit as e:
            code = e.code if isinstance(e.code, int) else (0 if e.code is None else 1)
        except BaseException as e:
            if isinstance(e, KeyboardInterrupt):
                raise
            return {"status": "raised", "exc": type(e).__name__, "msg": str(e)[:200]}
        h = None
        for line in out.take().split("\n"):
            if line.startswith("canonical_hash: "):
                h = line[len("canonical_hash: "):].strip()
        return {"status": "success" if code == 0 else "error", "code": None if code == 0 else "E_EXIT", "hash": h, "msg": err.take()[:200]}
    return call


def pair_worker(item):
    pid, sc, schedule = item
    sb = C.Sandbox({"content": sc["init"]})
    try:
        args = [writer_args(sc["entry"], w, sb.target, sc["init"]) for w in sc["writers"]]
        if sc["entry"] == "cli":
            out, err = _ThreadStream(), _ThreadStream()
            saved = sys.stdout, sys.stderr
            sys.stdout, sys.stderr = out, err
            try:
                r = F.run_writers("cli", args, sb.root, sb.target, C.SRC_ROOT, schedule, call=_cli_call_threads(out, err))
            finally:
                sys.stdout, sys.stderr = saved
        else:
            r = F.run_writers(sc["entry"], args, sb.root, sb.target, C.SRC_ROOT, schedule)
        final = read_text_state(sb.target)
        tmps = C.tmp_files(sb.parent)
        return {"results": r["results"], "records": r["records"], "granted": r["granted"], "errors": r["errors"], "final": final, "tmps": tmps,
                "afs": sb.abstract_fs(), "query": sb.query(), "apaths": {k: sb.apath(k) for k in ("target", "tmp", "tmp2", "parent")}}
    finally:
        sb.cleanup()


def pair_model_req(sc, run, schedule):
    calls = []
    texts = [sc["init"]]
    # every text a writer may read at entry: the initial one and whatever the other writer installs
    for w in sc["writers"]:
        p = writer_pipeline(sc["entry"], w, sc["init"])
        if p[0] == "ok":
            texts.append(p[1])
    for wi, w in enumerate(sc["writers"]):
        ctab, ftab, default, fdef = [], [], "", None
        for t in texts:
            p = writer_pipeline(sc["entry"], w, t)
            if t is None:
                continue
            if p[0] == "ok":
                ctab.append([t, p[1]])
                ftab.append([t, None])
            elif p[0] == "err":
                ftab.append([t, "E_PARSE" if sc["entry"] == "cli" else p[1]])
        if w["kind"] == "W":
            p = writer_pipeline(sc["entry"], w, None)
            default = p[1] if p[0] == "ok" else ""
            fdef = None if p[0] == "ok" else p[1]
        sbl = type("S", (), {"apath": lambda self, k: run["apaths"][k]})()
        mode = {"W": "content", "C": "changes", "N": "normalize"}[w["kind"]]
        calls.append(C.model_call(sbl, mode=mode, base_text=writer_base_text(w, sc["init"]), dry=False, path_ok=True,
                                  fails_default=fdef, canon_default=default, fails_table=ftab, canon_table=ctab,
                                  tmp="tmp" if wi == 0 else "tmp2"))
    return {"op": "sched", "prog": C.PROG_OF_ENTRY[sc["entry"]], "calls": calls, "fs": run["afs"], "schedule": schedule, "query": run["query"]}


def windows(records, n_writers=2):
    """For every writer that reaches os.replace: (global index of the first call of its re-check, global index of its
    replace call).  The re-check is the writer's LAST look at the target after it has written its temp file: the re-read
    (open / read_text), or — on a path the re-check finds absent, where there is nothing to read — the `exists()` probe that
    found it absent.  A writer that does not look at the target again (no base_hash; or a decision taken earlier and
    reused) has the degenerate window [replace, replace]."""
    res = {}
    for w in range(n_writers):
        mine = [(gi, r) for gi, r in enumerate(records) if r["w"] == w]
        rep = next((gi for gi, r in mine if r["kind"] == "replace"), None)
        if rep is None:
            continue
        looks = [gi for gi, r in mine if r["kind"] in ("open_r", "read_text", "exists", "os_path_exists") and r["role"] == "target" and gi < rep
                 and any(r2["kind"] == "mkstemp" and g2 < gi for g2, r2 in mine)]
        res[w] = (looks[-1], rep) if looks else (rep, rep)
    return res


def overlapping_reread_replace_windows(records) -> bool:
    """Class predicate of F27: two writers whose [re-read, replace] windows overlap in the executed schedule
    (equivalently: one writer's os.replace executes between another writer's re-read and that writer's os.replace)."""
    ws = list(windows(records).values())
    return any(a[0] <= b[1] and b[0] <= a[1] for a, b in itertools.combinations(ws, 2))


def install_over_file_created_after_writetool_entry_look(sc, records) -> bool:
    """Class predicate of C17N1 (input = write path + executed schedule): a WriteTool.execute call that carries base_hash
    looked at the target ONCE, at entry (`file_exists = path_obj.exists()`), found it absent, and another writer's successful
    os.replace landed between that look and this call's own os.replace.  (WriteTool reuses the entry decision for the
    re-check before os.replace; core/file_ops.atomic_write_octave — also behind the CLI — asks the file system again and is
    NOT in this class.)"""
    if sc["entry"] != "tool":
        return False
    present = sc["init"] is not None
    entry_look = {}     # writer -> (global index, target present?) of its first look outside the validators
    reps = []           # (global index, writer) of successful replaces
    for gi, r in enumerate(records):
        if r["kind"] == "exists" and r["role"] == "target" and r["caller"] not in F.VALIDATORS and r["w"] not in entry_look:
            entry_look[r["w"]] = (gi, present, r["caller"])
        if r["kind"] == "replace" and r["ok"]:
            reps.append((gi, r["w"]))
            present = True
    for gi, w in reps:
        look = entry_look.get(w)
        if look is None or look[1] or look[2] != "execute" or writer_base_text(sc["writers"][w], sc["init"]) is None:
            continue
        if any(w2 != w and look[0] < g2 < gi for g2, w2 in reps):
            return True
    return False


def pair_oracle(sc, run):
    """(why_class, why) list from the property text, on the real outcome."""
    bad = []
    init = sc["init"]
    res = run["results"]
    # writers that hold the same base_hash for the one path (existing file: the hash of its content; absent path: any hash —
    # after the first install the path holds a text that does not hash to it, so a second success has overwritten an
    # acknowledged write)
    for base in ("cur", "gone"):
        holders = [i for i, w in enumerate(sc["writers"]) if w["base"] == base]
        succ = [i for i in holders if res[i] and res[i]["status"] == "success"]
        if len(succ) > 1:
            bad.append(("lost-update", f"writers {succ} all hold the same base_hash for "
                                       f"{'the same version' if init is not None else 'a path that was absent'} and all succeeded"))
    # content at the moment of each install must hash to the installer's base_hash (installing over NOTHING is a create:
    # the guard is documented "when file exists"; whether the file exists is a fact at the moment of the install)
    content = init
    installs = []
    for r in run["records"]:
        if r["kind"] == "replace" and r["ok"]:
            w = sc["writers"][r["w"]]
            bt = writer_base_text(w, init)
            if bt is not None and content is not None and C.sha(content) != C.sha(bt):
                bad.append(("cas-at-install", f"writer {r['w']} installed over content that does not hash to its base_hash"))
            # what it installed: the data it wrote to its temp file
            installs.append(r["w"])
            content = _text_of_install(sc, r["w"], run)
    for i, rr in enumerate(res):
        if rr is None:
            bad.append(("no-result", f"writer {i} produced no result"))
        elif rr["status"] != "success" and any(r["w"] == i and r["kind"] == "replace" and r["ok"] for r in run["records"]):
            bad.append(("error-changed", f"writer {i} answered {rr['status']} {rr.get('code')} but replaced the file"))
    if run["tmps"]:
        bad.append(("residue", f"temp files left: {run['tmps']}"))
    # what is on disk at the end is what the LAST successful install reported: a writer that answers success with hash h has installed
    # text hashing to h (and nobody else's bytes)
    if installs and run.get("final") is not None:
        last = installs[-1]
        rr = res[last]
        if rr and rr.get("status") == "success" and rr.get("hash") and C.sha(run["final"]) != rr["hash"]:
            bad.append(("installed-other-bytes", f"writer {last} replaced the file last and answered success with canonical_hash {rr['hash'][:12]}…, "
                                                  f"but the file's bytes hash to {C.sha(run['final'])[:12]}… (another writer's text was installed)"))
    return bad


def _text_of_install(sc, w, run):
    """Text a writer installed = what it would compute from the baseline it read; identified through the final hash."""
    r = run["results"][w]
    hs = [r["hash"]] if r and r.get("hash") else []
    # … or through the data the writer pushed into its temp file (an entry point that reports no hash)
    hs += [x["data_sha"] for x in run["records"] if x["w"] == w and x["kind"] == "write" and x.get("data_sha")]
    for h in hs:
        for t in _candidate_texts(sc):
            if C.sha(t) == h:
                return t
    return None


def _candidate_texts(sc):
    ts = []
    firsts = []
    for w in sc["writers"]:
        p = writer_pipeline(sc["entry"], w, sc["init"])
        if p[0] == "ok":
            firsts.append(p[1])
    for w in sc["writers"]:
        for b in [sc["init"]] + firsts:
            p = writer_pipeline(sc["entry"], w, b)
            if p[0] == "ok":
                ts.append(p[1])
    return ts


def solo_steps(entry, sc, wi):
    """Model-step names of writer wi running alone (reference)."""
    sb = C.Sandbox({"content": sc["init"]})
    try:
        a = writer_args(entry, sc["writers"][wi], sb.target, sc["init"])
        r = F.run_child(entry, a, sb.root, sb.target, C.SRC_ROOT, {})
        return [n for (n, _ok, _ks) in F.group_steps(r["records"])]
    finally:
        sb.cleanup()


def six_step_bounds(names):
    """Model-step counts of the property's six writer steps: read, compare, write temp, re-read, compare, replace."""
    n = len(names)
    reads = [i for i, x in enumerate(names) if x == "read target"]
    rep = next((i for i, x in enumerate(names) if x.startswith("replace")), None)
    if rep is None or not reads:
        return None
    mk = next((i for i, x in enumerate(names) if x.startswith("mkstemp")), None)
    first = [i for i in reads if mk is None or i < mk]
    rr = [i for i in reads if mk is not None and i > mk]
    if not first or not rr:
        return None
    b1 = first[-1] + 1
    return [b1, 0, rr[-1] - b1, 1, 0, n - rr[-1] - 1]


def schedules_for(sc_id, sc, names, rng, thorough, widen):
    nA, nB = len(names[0]), len(names[1])
    out = {}

    def add(tag, s):
        out.setdefault(tuple(s), tag)
    # one writer's WHOLE call lands inside the other's, at every position: A^i B^nB A*  and  B^j A^nA B*  (members of the
    # two-switch family; listed first and never thinned: this is where a decision taken at entry and reused later shows)
    for i in range(nA + 1):
        add("whole-inside", [0] * i + [1] * (nB + 4) + [0] * nA)    # (+4: the inner call may take more steps than alone; spare turns are skipped)
    for j in range(nB + 1):
        add("whole-inside", [1] * j + [0] * (nA + 4) + [1] * nB)
    # two-switch family at full call granularity: A^i B^j A* B*   (and with the roles swapped)
    primary = sc_id in ("P1-same-base", "P5-atomic-same-base") or thorough or widen > 1
    stepA = 1 if primary else 3
    for i in range(0, nA + 1, stepA):
        for j in range(0, nB + 1, stepA):
            add("2switch", [0] * i + [1] * j + [0] * nA + [1] * nB)
            add("2switch", [1] * j + [0] * i + [1] * nB + [0] * nA)
    # the property's granularity: all interleavings of the two six-step programs
    bA, bB = six_step_bounds(names[0]), six_step_bounds(names[1])
    if bA and bB:
        for pos in itertools.combinations(range(12), 6):
            s, ia, ib = [], 0, 0
            for t in range(12):
                if t in pos:
                    s += [0] * bA[ia]
                    ia += 1
                else:
                    s += [1] * bB[ib]
                    ib += 1
            add("sixstep", s + [0] * nA + [1] * nB)
    # seeded random schedules at full granularity
    for _ in range(2000 if thorough else (400 if widen > 1 else 60)):
        s = [0] * nA + [1] * nB
        rng.shuffle(s)
        add("random", s)
    return out


def c17n1_schedule(names):
    """A: validate, entry look (absent) | B: whole call | A: the rest."""
    a = next(i for i, x in enumerate(names[0]) if x == "exists target") + 1
    return [0] * a + [1] * (len(names[1]) + 4) + [0] * len(names[0])


def f27_schedule(names):
    """... reread_A reread_B replace_A replace_B : A up to and including its re-read, B likewise, then A, then B."""
    def upto_reread(ns):
        mk = next(i for i, x in enumerate(ns) if x.startswith("mkstemp"))
        return max(i for i, x in enumerate(ns) if x == "read target" and i > mk) + 1
    a, b = upto_reread(names[0]), upto_reread(names[1])
    return [0] * a + [1] * b + [0] * len(names[0]) + [1] * len(names[1])


# ------------------------------------------------------------------------------------------------------
def loop_worker(item):
    sc = item
    sb = C.Sandbox({"content": sc["init"]})
    try:
        args = [writer_args("tool", w, sb.target, sc["init"]) for w in sc["writers"]]
        r = F.run_in_loop(args, sb.root, sb.target, C.SRC_ROOT)
        return {"results": r["results"], "order": [x["w"] for x in r["records"]], "final": read_text_state(sb.target)}
    finally:
        sb.cleanup()


def run(ctx: vlib.Ctx):
    ctx.rule = ("histories: every sequence of length <= L over {W,C,N,D} x {none,cur,stale,future} + external modification, from the "
                "initial states {existing file, absent}; one real call per trie node (deepest level of the length-5 plans: every "
                "distinct (file state, call) below each 2-step prefix from at most VERIF_C17_LEAF_REPEATS=2 histories; 0 = all); "
                "distinct = distinct history prefix; "
                "non-trivial = the step is a tool call (not an external modification). interleavings: case = (writer pair, schedule)")
    F.preload()   # pool workers are forked from this process: they inherit the imported implementation
    C.sweep_stale()
    if ctx.replay:
        import random as _random
        try:
            ctx.seed = int(json.loads(open(ctx.replay).read()).get("seed", ctx.seed))
            ctx.rng = _random.Random(ctx.seed)   # scenarios are a function of the seed: replay with the seed of the failing run
        except (OSError, ValueError):
            raise vlib.Infra(f"cannot read replay file {ctx.replay}")
    ctx.translate(PROJECT)
    proj = ctx.lean(PROJECT, PROPS)
    if vlib.fingerprints_changed(ctx.prop, ANCHORS):
        ctx.widen = max(ctx.widen, 8)
        ctx.notes.append("fingerprint of a modelled function changed: search widened")
    try:
        drv = proj.driver()
    except vlib.Infra as e:
        drv = None
        ctx.notes.append(f"driver unavailable, correspondence skipped: {e}")
        ctx.broken.append({"file": "Driver.lean", "line": 0, "decl": "driver", "msg": str(e)[:300]})
    findings = vlib.load_findings(ctx.prop)
    pairs = pair_scenarios(ctx.rng)
    init_old = C.DOC.format(a=ctx.rng.randrange(1, 90), b="initial")

    # ---- replay of a stored case -----------------------------------------------------------------------
    replay_case = None
    if ctx.replay:
        replay_case = (json.loads(open(ctx.replay).read()).get("case") or {})

    # ---- known findings: replay the witness -------------------------------------------------------------
    names_cache = {}

    def names_of(pid):
        if pid not in names_cache:
            sc = pairs[pid]
            names_cache[pid] = [solo_steps(sc["entry"], sc, 0), solo_steps(sc["entry"], sc, 1)]
        return names_cache[pid]
    for f in findings:
        wit = f["witness"]
        if f["cls"] == "overlapping_reread_replace_windows":
            pid = wit.get("pair", "P1-same-base")
            sc = pairs[pid]
            try:
                sched = f27_schedule(names_of(pid))
            except (ValueError, StopIteration):
                ctx.notes.append(f"known finding {f['id']}: the witness schedule cannot be built (the writers no longer re-read)")
                continue
            r = pair_worker((pid, sc, sched))
            both = all(x and x["status"] == "success" for x in r["results"])
            if both and overlapping_reread_replace_windows(r["records"]):
                ctx.known_reproduced.append((f, f"schedule {wit.get('schedule')}: both writers answered success, final file is writer "
                                                f"{'B' if r['final'] and 'writer B' in r['final'] else 'A'}'s, the other update is lost"))
            else:
                ctx.notes.append(f"known finding {f['id']} no longer reproduces: results {[x and x['status'] for x in r['results']]}")
        if f["cls"] == "install_over_file_created_after_writetool_entry_look":
            pid = wit.get("pair", "P8-create-create")
            sc = pairs[pid]
            try:
                sched = c17n1_schedule(names_of(pid))
            except StopIteration:
                ctx.notes.append(f"known finding {f['id']}: the witness schedule cannot be built (no entry look)")
                continue
            r = pair_worker((pid, sc, sched))
            both = all(x and x["status"] == "success" for x in r["results"])
            if both and install_over_file_created_after_writetool_entry_look(sc, r["records"]) and not overlapping_reread_replace_windows(r["records"]):
                ctx.known_reproduced.append((f, f"schedule {wit.get('schedule')}: both writers answered success, writer A replaced the file "
                                                f"writer B had just created without comparing it with base_hash; B's acknowledged write is lost"))
            else:
                ctx.notes.append(f"known finding {f['id']} no longer reproduces: results {[x and x['status'] for x in r['results']]}")

    # ---- sequential histories ------------------------------------------------------------------------------
    wide = ctx.widen > 1
    plans = []   # (entry, init, max_len, with_broken)
    if ctx.thorough:
        plans += [("tool", init_old, 5, False), ("tool", None, 4, False), ("tool", init_old, 4, True),
                  ("atomic", init_old, 5, False), ("atomic", None, 4, False), ("cli", init_old, 3, False), ("cli", None, 3, False)]
    else:
        L = 4 if wide else 3
        plans += [("tool", init_old, L, True), ("tool", None, L, False), ("atomic", init_old, L + 1, False), ("atomic", None, L, False),
                  ("cli", init_old, 2, False), ("cli", None, 2, False)]
    items = []
    if replay_case and "history" in replay_case:
        h = [tuple(s) for s in replay_case["history"]]
        items = [(replay_case["entry"], replay_case["init"], h, len(h), True)]
    elif not replay_case:
        for (entry, init, L, wb) in plans:
            al = alphabet(entry, wb)
            plen = min(2, L - 1) if len(al) ** L > 4000 else 1
            for prefix in itertools.product(al, repeat=plen):
                items.append((entry, init, [list(s) for s in prefix], L, wb))
    # prefixes are replayed by each worker; count them once
    outs = vlib.pmap(hist_worker, items, chunksize=1)
    obs_by_entry = {}
    seen_prefix = set()
    for it, o in zip(items, outs):
        ctx.evaluations += o["n"]
        for k, v in o["dist"].items():
            ctx.count(f"{it[0]}:{k}", v)
        for fl in o["failures"]:
            ctx.failures.append(fl)
        if o["skipped"]:
            ctx.count("reference-does-not-cover", o["skipped"])
        d = obs_by_entry.setdefault(it[0], {})
        for k, v in o["obs"].items():
            if k in d and d[k]["obs"] != v["obs"]:
                ctx.failures.append({"case": {"entry": it[0], "init": it[1], "history": v["hist"], "other_history": d[k]["hist"]},
                                     "why": f"same file state and same call, different outcome: {d[k]['obs'][:3]} vs {v['obs'][:3]} (hidden state)",
                                     "why_class": "history-dependence"})
            d.setdefault(k, v)
        seen_prefix.add((it[0], it[1], json.dumps(it[2])))
    ctx.extra["history_plans"] = [{"entry": e, "init": "file" if i else "absent", "max_len": L, "alphabet": len(alphabet(e, wb))} for (e, i, L, wb) in plans]
    ctx.extra["history_tool_calls"] = ctx.evaluations
    # distinct histories: every trie node is one history (a tool call at the end of a distinct sequence of steps)
    n_hist_nodes = sum(o["n"] for o in outs)
    ctx.distinct.update(("history-node", i) for i in range(n_hist_nodes))
    # correspondence with the Lean model, one request per distinct (state, call)
    n_model = 0
    if drv is not None:
        for entry, d in obs_by_entry.items():
            keys = list(d)
            reqs = [model_req_for_key(entry, k) for k in keys]
            reps = drv.batch_par(reqs)
            for k, rep in zip(keys, reps):
                n_model += 1
                if "unsupported" in rep:
                    ctx.corr_disagreements.append({"case": {"entry": entry, "key": k[:300]}, "model": rep, "impl": None, "view": "driver"})
                    continue
                st = rep["steps"][0]
                ob = d[k]["obs"]
                mres = ("success" if st["res"] == "ok" else "error" if st["res"] == "err" else st["res"])
                mcode = st.get("code")
                mnode = st["fs"][0]
                mtext = mnode["file"] if mnode and "file" in mnode else None
                dis = []
                if mres != ob[0]:
                    dis.append(f"status model {mres} real {ob[0]}")
                if mres == "error" and ob[0] == "error" and mcode != ob[1]:
                    dis.append(f"code model {mcode} real {ob[1]}")
                if mres == "success" and ob[0] == "success" and C.sha(st.get("hash", "")) != ob[2]:
                    dis.append("canonical_hash differs")
                if mtext != ob[3]:
                    dis.append("file text after the call differs")
                if st["fs"][1] is not None:
                    dis.append("model leaves a temp file")
                if dis:
                    ctx.corr_disagreements.append({"case": {"entry": entry, "history": d[k]["hist"], "state_step": json.loads(k)[:3]},
                                                   "model": {"res": mres, "code": mcode}, "impl": ob[:3], "view": "; ".join(dis)})
    ctx.extra["distinct_state_call_pairs_checked_against_lean_model"] = n_model

    # ---- natural failures (no injected fault): a directory sits at the target path --------------------------------
    if not replay_case:
        for entry in ("tool", "atomic", "cli"):
            for bh in ("none", "cur"):
                sb = C.Sandbox({"content": None, "target_is_dir": True})
                try:
                    before = F.snapshot(sb.root)
                    a = {"target_path": sb.target, "content": content_w(0)}
                    if bh == "cur":
                        a["base_hash"] = C.sha("")
                    res = F.run_inproc(entry, a, sb.root, sb.target, C.SRC_ROOT, {})["result"]
                    after = F.snapshot(sb.root)
                    case = {"natural-failure": "target is a directory", "entry": entry, "base_hash": bh}
                    ctx.case(case)
                    ctx.count(f"natural:{entry}:{(res or {}).get('status')}:{(res or {}).get('code')}")
                    if res is None or res.get("status") == "success":
                        ctx.failures.append({"case": case, "why": "a write onto a directory answered success", "why_class": "natural-success", "observed": res})
                    elif after != before:
                        ctx.failures.append({"case": case, "why": f"status={res.get('status')} {res.get('code')} but the file system changed: "
                                             f"{sorted(set(after) ^ set(before))}", "why_class": "error-changed", "observed": res})
                finally:
                    sb.cleanup()

    # ---- two writers -------------------------------------------------------------------------------------------
    pitems = []
    if replay_case and "schedule" in replay_case:
        pid = replay_case["pair"]
        pitems = [(pid, pairs[pid], replay_case["schedule"])]
    elif not replay_case:
        for pid, sc in pairs.items():
            if not ctx.thorough and not wide and pid in ("P6-cur-vs-stale", "P7-blind-blind", "P3-changes-vs-content", "P14-cli-same-base") + ABSENT_PAIRS:
                # quick: the covering subset (the whole-call-inside family is kept in full)
                sch = schedules_for(pid, sc, names_of(pid), ctx.rng, False, 1)
                keep = {k: v for k, v in sch.items() if v == "whole-inside"}
                rest = [(k, v) for k, v in sch.items() if v != "whole-inside"]
                sch = {**keep, **dict(rest[::4])}
            else:
                sch = schedules_for(pid, sc, names_of(pid), ctx.rng, ctx.thorough, ctx.widen)
            for s, tag in sch.items():
                pitems.append((pid, sc, list(s)))
                ctx.count(f"schedules:{pid}:{tag}")
    pruns = vlib.pmap(pair_worker, pitems)
    preqs = [pair_model_req(sc, r, s) for (pid, sc, s), r in zip(pitems, pruns)]
    preps = drv.batch_par(preqs) if drv is not None else [None] * len(preqs)
    n_overlap = 0
    for (pid, sc, s), r, rep in zip(pitems, pruns, preps):
        case = {"pair": pid, "schedule": s}
        ctx.case(case)
        if r["errors"]:
            raise vlib.Infra(f"two-writer harness error ({pid}): {r['errors']}")
        st = tuple((x or {}).get("status") + ":" + str((x or {}).get("code")) for x in r["results"])
        ctx.count(f"pair-outcome:{pid}:{'/'.join(st)}")
        overlap = overlapping_reread_replace_windows(r["records"])
        n_overlap += overlap
        for cls, why in pair_oracle(sc, r):
            in_known = None
            if cls in ("lost-update", "cas-at-install") and overlap:
                in_known = next((f for f in findings if f["cls"] == "overlapping_reread_replace_windows"), None)
            if in_known is None and cls in ("lost-update", "cas-at-install") and install_over_file_created_after_writetool_entry_look(sc, r["records"]):
                in_known = next((f for f in findings if f["cls"] == "install_over_file_created_after_writetool_entry_look"), None)
            if in_known is not None:
                ctx.known_hits[in_known["id"]] = ctx.known_hits.get(in_known["id"], 0) + 1
            else:
                ctx.failures.append({"case": case, "why": why, "why_class": cls, "observed": {"results": r["results"], "granted": r["granted"],
                                     "calls": [(x["w"], x["kind"], x["role"], x["ok"]) for x in r["records"]]}})
        if rep is not None:
            if "unsupported" in rep:
                ctx.corr_disagreements.append({"case": case, "model": rep, "impl": None, "view": "driver"})
                continue
            dis = []
            for i, (mr, rr) in enumerate(zip(rep["results"], r["results"])):
                mv = ("?" if mr is None else "success" if mr["res"] == "ok" else "error" if mr["res"] == "err" else mr["res"], (mr or {}).get("code"))
                rv = (rr["status"], rr.get("code") if rr["status"] == "error" else None)
                if mv != rv:
                    dis.append(f"writer {i}: model {mv} real {rv}")
                elif mr["res"] == "ok" and C.sha(mr["hash"]) != rr.get("hash"):
                    dis.append(f"writer {i}: canonical_hash differs")
                mt = F.normalise_model_trace(rep["traces"][i])
                rt = [(n, ok) for (n, ok, _k) in F.group_steps(r["records"], i)]
                if mt != rt:
                    dis.append(f"writer {i}: call sequence differs")
            mnode = rep["fs"][0]
            mtext = mnode["file"] if mnode and "file" in mnode else None
            if mtext != r["final"]:
                dis.append("final file text differs")
            if dis:
                ctx.corr_disagreements.append({"case": case, "model": [x and (x["res"], x.get("code")) for x in rep["results"]],
                                               "impl": [(x["status"], x.get("code")) for x in r["results"]], "view": "; ".join(dis)[:500]})
    ctx.extra["schedules_with_overlapping_windows"] = n_overlap
    ctx.extra["schedules_run"] = len(pitems)

    # ---- one event loop: no interleaving ------------------------------------------------------------------------
    if not replay_case:
        for pid in ("P1-same-base", "P3-changes-vs-content", "P7-blind-blind"):
            lr = loop_worker(pairs[pid])
            ctx.case({"loop": pid})
            order = lr["order"]
            switches = sum(1 for a, b in zip(order, order[1:]) if a != b)
            ctx.count("loop:switches=" + str(switches))
            if switches > 1:
                ctx.failures.append({"case": {"loop": pid}, "why": "file-system calls of two execute() coroutines served by one event loop interleave",
                                     "why_class": "loop-interleaving", "observed": order})
            holders = [i for i, w in enumerate(pairs[pid]["writers"]) if w["base"] == "cur"]
            if pairs[pid]["init"] is not None and sum(1 for i in holders if lr["results"][i]["status"] == "success") > 1:
                ctx.failures.append({"case": {"loop": pid}, "why": "two calls with the same base_hash served by one event loop both succeeded",
                                     "why_class": "lost-update-in-loop", "observed": lr["results"]})
    if ctx.corr_disagreements:
        ctx.widen = max(ctx.widen, 8)
    ctx.extra["history_nodes"] = n_hist_nodes
    ctx.trusted = ["Lean 4.33.0 kernel; axioms per theorem in coverage.theorems",
                   "tools/gen/fs.py (Gen/WriteOps, Gen.awaitsInExecute); cross-checked: call sequences of every writer equal the model's trace",
                   "tools/harness/fs_interpose.py (interposition, deterministic scheduler gating every model step of two writer threads)",
                   "register oracle reg_step() in tools/props/c17.py (written from the property text) and the reference ref_canon/ref_changes "
                   "(core parser/emitter only)",
                   "OS semantics: rename(2) atomic; an open file keeps reading the inode it opened (DESIGN §4.5)"]
    ctx.assumptions = ["SHA-256 has no collision among the texts used (asserted by construction: distinct texts)",
                       "writers in separate processes behave as writers in separate threads at the granularity of file-system calls "
                       "(execute() has no shared in-process state that matters: checked by the history-dependence test)",
                       "a call carrying base_hash that installs over NOTHING is a create and outside the CAS clause (the guard is documented "
                       "'when file exists'); whether the file exists is a fact at the moment of the install, not at the call's entry"]
