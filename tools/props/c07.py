"""C07 — Every lenient rewrite has a receipt; canonical input has none (I4).

For every content-model document and seeded subsets of rewrite sites (all freedoms / each receipted
freedom alone): the list of rewrite receipts of parse_with_warnings must equal the rewrites the
generator injected — kind, original text, replacement, line and column, computed by the renderer's own
layout arithmetic — and the canonical text of the same document must yield none; octave_validate
.repairs and octave_write(corrections_only=true).corrections must surface them.  Correspondence: the
Lean model's receipt lists == the implementation's, in order, with positions.
"""
import asyncio
import os
import random
import re
import tempfile

import vlib
from harness import docgen as G
from harness import text as T
from harness import textcheck as TC
from props import _text as X

PROPS = ["Octave.Props.C07", "Octave.Props.C07receipts", "Octave.Props.C01flat", "Octave.Props.C03expr", "Octave.Props.C01sections", "Octave.Props.C01unified"]
def kf_strict_write_parser_rewrites(case) -> bool:
    """C07N1: entry point octave_write with lenient=false AND the input contains a parser-level rewrite
    (multi-word coalescing): strict parse() returns no warnings, so corrections cannot list it."""
    return case.get("entry") == "tools" and case.get("lenient") is False and case.get("n_parser_rewrites", 0) > 0


CLASSES = {"kf_strict_write_parser_rewrites": kf_strict_write_parser_rewrites}
RECEIPTED = [None, None, {"alias"}, {"quotes"}, {"multiword"}, {"alias", "space", "indent", "blank"}]


def key(x):
    return (x[-2], x[-1], x[0])


def eval_chunk(args):
    out = []
    for (seed, idx) in args:
        rng = random.Random(f"r{seed}:{idx}")
        d = G.gen_doc(rng)
        ctext, crec = G.render(d, G.Spelling(rng, canonical=True))
        only = RECEIPTED[idx % len(RECEIPTED)]
        ltext, lrec = G.render(d, G.Spelling(rng, p=rng.choice([0.15, 0.5, 0.9]), only=only))
        out.append({"model": d, "ctext": ctext, "crec": crec, "ltext": ltext, "lrec": lrec, "only": sorted(only) if only else "all",
                    "c": T.py_parse_warn(ctext), "l": T.py_parse_warn(ltext)})
    return out


# one minimal document per rewrite kind, with hand-computed receipts (kind, original, line, column)
SITES = [
    ("alias ->", "===D===\nK::A->B\n===END===\n", [("normalization", "->", 2, 5)]),
    ("alias +", "===D===\nK::A+B\n===END===\n", [("normalization", "+", 2, 5)]),
    ("alias ~", "===D===\nK::A~B\n===END===\n", [("normalization", "~", 2, 5)]),
    ("alias vs", "===D===\nK::A vs B\n===END===\n", [("normalization", "vs", 2, 6)]),
    ("alias <->", "===D===\nK::A<->B\n===END===\n", [("normalization", "<->", 2, 5)]),
    ("alias |", "===D===\nK::A|B\n===END===\n", [("normalization", "|", 2, 5)]),
    ("alias & in list", "===D===\nK::[A&B,C]\n===END===\n", [("normalization", "&", 2, 6)]),
    ("alias # section", "===D===\n#1::S\n  K::1\n===END===\n", [("normalization", "#", 2, 1)]),
    ("alias in block target", "===D===\nB[->#T]:\n  K::1\n===END===\n", [("normalization", "->", 2, 3), ("normalization", "#", 2, 5)]),
    ("two aliases one line", "===D===\nK::A->B+C\n===END===\n", [("normalization", "->", 2, 5), ("normalization", "+", 2, 8)]),
    ("triple quotes", '===D===\nK::"""x y"""\n===END===\n', [("normalization", '"""', 2, 4)]),
    ("empty triple quotes", '===D===\nK::""""""\n===END===\n', [("normalization", '"""', 2, 4)]),
    ("multi-line triple then rewrites on the closing line", '===D===\nP::["""first\nsecond""", A->B, """x"""]\n===END===\n',
     [("normalization", '"""', 2, 5), ("normalization", "->", 3, 13), ("normalization", '"""', 3, 18)]),
    ("multi-word", "===D===\nK::alpha beta gamma\n===END===\n", [("multi_word_coalesce", None, 2, 4)]),
    ("multi-word after alias line", "===D===\nJ::A->B\nK::alpha beta\n===END===\n", [("normalization", "->", 2, 5), ("multi_word_coalesce", None, 3, 4)]),
]


def brace_sites(ctx, findings):
    """brace-for-angle annotation repair (octave_write, lenient): ONE receipt per occurrence — also when the same annotation text
    occurs at several sites (the receipts carry no position, so equal occurrences give equal records: compare as multisets)."""
    from collections import Counter
    from octave_mcp.mcp.write import WriteTool
    rng = random.Random(f"{ctx.seed}:brace")
    names, quals = ["ATHENA", "ARES", "T_1", "a.b"], ["wisdom", "war", "x", "q_2"]
    docs = ["===D===\nA::ATHENA{wisdom}\nB::ATHENA{wisdom}\nC:\n  X::ATHENA{wisdom}\n  Y::ARES{war}\n===END===\n",
            "===D===\nA::[ATHENA{x},ATHENA{x}]\n===END===\n", "===D===\nA::ATHENA{x}\n===END===\n"]
    for _ in range(ctx.budget(40, 400)):
        lines, ind = ["===D==="], ""
        for i in range(rng.randint(1, 6)):
            if rng.random() < 0.25:
                lines.append(f"{ind}B{i}:")
                ind += "  "
            a = f"{rng.choice(names[:2] if rng.random() < 0.6 else names)}{{{rng.choice(quals[:2] if rng.random() < 0.6 else quals)}}}"
            lines.append(f"{ind}K{i}::{a}" if rng.random() < 0.7 else f"{ind}K{i}::[{a},{rng.choice(names)}{{{rng.choice(quals)}}}]")
        docs.append("\n".join(lines + ["===END==="]) + "\n")
    with tempfile.TemporaryDirectory() as td:
        for text in docs:
            case = {"text": text, "site": "brace-for-angle", "entry": "tools", "lenient": True}
            ctx.case({"text": text, "site": "brace-for-angle"})
            exp = Counter(m.group(0) for m in re.finditer(r"[A-Za-z_][A-Za-z0-9_./\-]*\{[A-Za-z_][A-Za-z0-9_./\-]*\}", text))
            try:
                w = asyncio.run(WriteTool().execute(target_path=os.path.join(td, "b.oct.md"), content=text, corrections_only=True, lenient=True))
            except BaseException as e:  # noqa: BLE001
                ctx.count("tool_raised:" + type(e).__name__)
                continue
            if w.get("status") != "success":
                ctx.count("brace:write_refused")
                continue
            got = Counter(c.get("before") for c in (w.get("corrections") or []) if isinstance(c, dict) and c.get("code") == "W_REPAIR_CANDIDATE")
            ctx.count("brace:sites", sum(exp.values()))
            if got != exp:
                X.classify(ctx, findings, CLASSES, case, f"octave_write(lenient=true) rewrote the brace annotations {dict(exp)} but reports {dict(got)}", "site-brace")


def site_matrix(ctx, findings):
    """every rewrite kind alone through all four surfaces, with exact positions."""
    from octave_mcp.mcp.validate import ValidateTool
    from octave_mcp.mcp.write import WriteTool
    with tempfile.TemporaryDirectory() as td:
        for name, text, exp in SITES:
            case = {"text": text, "site": name, "entry": "tools"}
            ctx.case({"text": text, "site": name})
            pw = T.py_parse_warn(text)
            if "err" in pw:
                X.classify(ctx, findings, CLASSES, case, f"reader rejects: {pw['err']}", "rejected")
                continue
            got = sorted(((x[0], x[1] if x[0] == "normalization" else None, x[-2], x[-1]) for x in TC.rewrite_receipts(pw)), key=lambda t: (t[2], t[3]))
            if got != sorted(exp, key=lambda t: (t[2], t[3])):
                X.classify(ctx, findings, CLASSES, case, f"parse_with_warnings receipts {got} != rewrites in the text {exp}", "site-receipts")
            n_lex = [e for e in exp if e[0] == "normalization"]
            n_par = [e for e in exp if e[0] != "normalization"]
            try:
                v = asyncio.run(ValidateTool().execute(content=text, schema="META"))
                reps = [x for x in (v.get("repairs") or []) if isinstance(x, dict)]
                for (kind, orig, ln, col) in exp:
                    hit = [x for x in reps if x.get("line") == ln and x.get("column") == col and (x.get("type") == kind or x.get("subtype") == kind)
                           and (orig is None or x.get("original") == orig)]
                    if len(hit) != 1:
                        X.classify(ctx, findings, CLASSES, case, f"octave_validate.repairs has {len(hit)} entries for the {kind} rewrite {orig!r} at {ln}:{col}", "site-validate")
                for lenient in (False, True):
                    p = os.path.join(td, "s.oct.md")
                    w = asyncio.run(WriteTool().execute(target_path=p, content=text, corrections_only=True, lenient=lenient))
                    cor = [x for x in (w.get("corrections") or []) if isinstance(x, dict)]
                    c2 = dict(case, lenient=lenient, n_parser_rewrites=len(n_par))
                    for (kind, orig, ln, col) in n_lex:
                        hit = [x for x in cor if x.get("line") == ln and x.get("column") == col and x.get("before") == orig]
                        if w.get("status") == "success" and len(hit) != 1:
                            X.classify(ctx, findings, CLASSES, c2, f"octave_write(corrections_only, lenient={lenient}).corrections has {len(hit)} entries for {orig!r} at {ln}:{col}", "site-write")
                    if lenient and w.get("status") == "success" and len(cor) < len(exp):
                        X.classify(ctx, findings, CLASSES, c2, f"octave_write(lenient=true).corrections lists {len(cor)} entries for {len(exp)} rewrites", "site-write-count")
            except BaseException as e:  # noqa: BLE001
                ctx.count("tool_raised:" + type(e).__name__)


def run(ctx: vlib.Ctx):
    ctx.rule = ("content-model documents x seeded subsets of rewrite sites (all freedoms at p in {0.15,0.5,0.9}; aliases only; quotes/triple quotes only; "
                "multi-word only; aliases+layout); expected receipts come from the renderer (positions from its own line/column arithmetic); "
                "non-trivial = at least one injected rewrite; distinct = distinct text")
    proj = X.setup(ctx, PROPS)
    findings = vlib.load_findings(ctx.prop)
    from octave_mcp.mcp.write import WriteTool as _WT
    for f in findings:
        with tempfile.TemporaryDirectory() as td0:
            w = asyncio.run(_WT().execute(target_path=os.path.join(td0, "k.oct.md"), content=f["witness"]["text"], corrections_only=True, lenient=False))
            if w.get("status") == "success" and not (w.get("corrections") or []):
                ctx.known_reproduced.append((f, "corrections == [] for a multi-word value"))
            else:
                ctx.notes.append(f"known finding {f['id']} no longer reproduces on its witness")
    n = ctx.budget(800, 8000)
    args = [(ctx.seed, i) for i in range(n)]
    res = [r for ch in vlib.pmap(eval_chunk, [args[i:i + 40] for i in range(0, len(args), 40)], chunksize=1) for r in ch]
    texts, impl = [], []
    nrec = 0
    for r in res:
        for which, text, exp in (("c", r["ctext"], r["crec"]), ("l", r["ltext"], r["lrec"])):
            case = {"text": text, "sites": r["only"], "spelling": which}
            ctx.case({"text": text}, nontrivial=bool(exp))
            pw = r[which]
            nrec += len(exp)
            if "err" in pw:
                X.classify(ctx, findings, CLASSES, case, f"reader rejects: {pw['err']}", "rejected")
            else:
                got = TC.rewrite_receipts(pw)
                if sorted(got, key=key) != sorted(exp, key=key):
                    miss = [x for x in exp if x not in got]
                    extra = [x for x in got if x not in exp]
                    why = ("canonical input yields rewrite receipts" if which == "c" and not exp else
                           "receipts differ from the injected rewrites") + f": missing {TC.short(miss, 200)} unexpected {TC.short(extra, 200)}"
                    X.classify(ctx, findings, CLASSES, case, why, "canonical-not-silent" if which == "c" else "receipt-mismatch")
                for x in exp:
                    ctx.count("injected:" + x[0] + (":" + str(x[1]) if x[0] == "normalization" else ""))
            texts.append(text); impl.append(pw)
    ctx.extra["injected_rewrites"] = nrec
    for text, pw, m in zip(texts, impl, X.lean_parse_warn(proj, texts)):
        if T.model_unsupported(m):
            ctx.count("model_unsupported")
        else:
            vm = (m.get("repairs"), m.get("warnings")) if "doc" in m else m.get("err")
            vi = (pw.get("repairs"), pw.get("warnings")) if "doc" in pw else pw.get("err")
            if vm != vi:
                X.corr(ctx, {"text": text}, "receipts (lexer repairs, parser warnings) in order with positions", vm, vi)
    # tools surface the receipts
    from octave_mcp.mcp.validate import ValidateTool
    from octave_mcp.mcp.write import WriteTool
    with tempfile.TemporaryDirectory() as td:
        for k, r in enumerate(res[: ctx.budget(80, 800)]):
            if "err" in r["l"] or not r["lrec"]:
                continue
            case = {"text": r["ltext"], "entry": "tools"}
            ctx.case({"text": r["ltext"], "entry": "tools"})
            try:
                v = asyncio.run(ValidateTool().execute(content=r["ltext"], schema="META"))
                reps = v.get("repairs") or []
                n_norm = sum(1 for x in r["lrec"] if x[0] == "normalization")
                got_norm = sum(1 for x in reps if isinstance(x, dict) and x.get("type") == "normalization")
                if got_norm != n_norm:
                    X.classify(ctx, findings, CLASSES, case, f"octave_validate.repairs has {got_norm} normalization receipts, input has {n_norm} rewrites", "validate-repairs")
                n_mw = sum(1 for x in r["lrec"] if x[0] == "multi_word_coalesce")
                got_mw = sum(1 for x in reps if isinstance(x, dict) and x.get("subtype") == "multi_word_coalesce")
                if got_mw != n_mw:
                    X.classify(ctx, findings, CLASSES, case, f"octave_validate.repairs has {got_mw} multi_word receipts, input has {n_mw}", "validate-repairs-mw")
                p = os.path.join(td, f"r{k}.oct.md")
                for lenient in (False, True):
                    w = asyncio.run(WriteTool().execute(target_path=p, content=r["ltext"], corrections_only=True, lenient=lenient))
                    cor = w.get("corrections") or []
                    if w.get("status") == "success" and len(cor) < n_norm + n_mw:
                        X.classify(ctx, findings, CLASSES, dict(case, lenient=lenient, n_parser_rewrites=n_mw),
                                   f"octave_write(corrections_only, lenient={lenient}).corrections has {len(cor)} entries for {n_norm + n_mw} rewrites", "write-corrections")
                    if os.path.exists(p):
                        X.classify(ctx, findings, CLASSES, case, "corrections_only wrote a file", "dry-run-wrote")
            except BaseException as e:  # noqa: BLE001
                ctx.count("tool_raised:" + type(e).__name__)
    site_matrix(ctx, findings)
    brace_sites(ctx, findings)
    ctx.assumptions = ["'rewrite receipts' are read as in DESIGN.md §7 C07: lexer normalization / repair_candidate records and the lenient_parse subtypes that "
                       "transform text; advisories (duplicate_key, deep_nesting, spec_violation/*) are not rewrites",
                       "proved for every input: the lexer-level bijection between normalised tokens and normalisation receipts (Props/C07receipts); exact receipts of every alias spelling of expressions (C03expr) and of # section markers (C01sections); canonical flat / block-structured text has none (C01flat, C01blocks); parser-level rewrites and the tool routes are decided by the receipt oracle and the correspondence"]
