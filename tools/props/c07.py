"""C07 — Every lenient rewrite has a receipt; canonical input has none (I4).

For every content-model document and seeded subsets of rewrite sites (all freedoms / each receipted
freedom alone): the list of rewrite receipts of parse_with_warnings must equal the rewrites the
generator injected — kind, original text, replacement, line and column, computed by the renderer's own
layout arithmetic — and the canonical text of the same document must yield none; octave_validate
.repairs and octave_write(corrections_only=true).corrections must surface them.  Correspondence: the
Lean model's receipt lists == the implementation's, in order, with positions.
"""
import asyncio
import json
import os
import random
import re
import tempfile

import vlib
from harness import docgen as G
from harness import text as T
from harness import textcheck as TC
from props import _text as X

PROPS = ["Octave.Props.C07", "Octave.Props.C07receipts", "Octave.Props.C01flat", "Octave.Props.C03expr", "Octave.Props.C01sections", "Octave.Props.C01unified", "Octave.Props.C07multiword", "Octave.Props.C07brace", "Octave.Props.C07braceall", "Octave.Props.C07mwnum", "Octave.Props.C07mwbool", "Octave.Props.C07mwfloat"]
def kf_strict_write_parser_rewrites(case) -> bool:
    """C07N1: entry point octave_write with lenient=false AND the input contains a parser-level rewrite
    (multi-word coalescing): strict parse() returns no warnings, so corrections cannot list it."""
    return case.get("entry") == "tools" and case.get("lenient") is False and case.get("n_parser_rewrites", 0) > 0


CLASSES = {"kf_strict_write_parser_rewrites": kf_strict_write_parser_rewrites}
RECEIPTED = [None, None, {"alias"}, {"quotes"}, {"multiword"}, {"alias", "space", "indent", "blank"}]


def key(x):
    return (x[-2], x[-1], x[0])


def eval_chunk(args):
    out = []
    for (seed, idx) in args:
        rng = random.Random(f"r{seed}:{idx}")
        d = G.gen_doc(rng)
        ctext, crec, cadv = G.render_full(d, G.Spelling(rng, canonical=True))
        only = RECEIPTED[idx % len(RECEIPTED)]
        ltext, lrec, ladv = G.render_full(d, G.Spelling(rng, p=rng.choice([0.15, 0.5, 0.9]), only=only))
        out.append({"model": d, "ctext": ctext, "crec": crec, "cadv": cadv, "ltext": ltext, "lrec": lrec, "ladv": ladv, "only": sorted(only) if only else "all",
                    "c": T.py_parse_warn(ctext), "l": T.py_parse_warn(ltext)})
    return out


# one minimal document per rewrite kind, with hand-computed receipts (kind, original, line, column)
SITES = [
    ("alias ->", "===D===\nK::A->B\n===END===\n", [("normalization", "->", 2, 5)]),
    ("alias +", "===D===\nK::A+B\n===END===\n", [("normalization", "+", 2, 5)]),
    ("alias ~", "===D===\nK::A~B\n===END===\n", [("normalization", "~", 2, 5)]),
    ("alias vs", "===D===\nK::A vs B\n===END===\n", [("normalization", "vs", 2, 6)]),
    ("alias <->", "===D===\nK::A<->B\n===END===\n", [("normalization", "<->", 2, 5)]),
    ("alias |", "===D===\nK::A|B\n===END===\n", [("normalization", "|", 2, 5)]),
    ("alias & in list", "===D===\nK::[A&B,C]\n===END===\n", [("normalization", "&", 2, 6)]),
    ("alias # section", "===D===\n#1::S\n  K::1\n===END===\n", [("normalization", "#", 2, 1)]),
    ("alias in block target", "===D===\nB[->#T]:\n  K::1\n===END===\n", [("normalization", "->", 2, 3), ("normalization", "#", 2, 5)]),
    ("two aliases one line", "===D===\nK::A->B+C\n===END===\n", [("normalization", "->", 2, 5), ("normalization", "+", 2, 8)]),
    ("triple quotes", '===D===\nK::"""x y"""\n===END===\n', [("normalization", '"""', 2, 4)]),
    ("empty triple quotes", '===D===\nK::""""""\n===END===\n', [("normalization", '"""', 2, 4)]),
    ("multi-line triple then rewrites on the closing line", '===D===\nP::["""first\nsecond""", A->B, """x"""]\n===END===\n',
     [("normalization", '"""', 2, 5), ("normalization", "->", 3, 13), ("normalization", '"""', 3, 18)]),
    ("multi-word", "===D===\nK::alpha beta gamma\n===END===\n", [("multi_word_coalesce", None, 2, 4)]),
    ("multi-word after alias line", "===D===\nJ::A->B\nK::alpha beta\n===END===\n", [("normalization", "->", 2, 5), ("multi_word_coalesce", None, 3, 4)]),
]


def brace_sites(ctx, findings):
    """brace-for-angle annotation repair (octave_write, lenient): ONE receipt per occurrence — also when the same annotation text
    occurs at several sites (the receipts carry no position, so equal occurrences give equal records: compare as multisets)."""
    from collections import Counter
    from octave_mcp.mcp.write import WriteTool
    rng = random.Random(f"{ctx.seed}:brace")
    names, quals = ["ATHENA", "ARES", "T_1", "a.b"], ["wisdom", "war", "x", "q_2"]
    docs = ["===D===\nA::ATHENA{wisdom}\nB::ATHENA{wisdom}\nC:\n  X::ATHENA{wisdom}\n  Y::ARES{war}\n===END===\n",
            "===D===\nA::[ATHENA{x},ATHENA{x}]\n===END===\n", "===D===\nA::ATHENA{x}\n===END===\n"]
    for _ in range(ctx.budget(40, 400)):
        lines, ind = ["===D==="], ""
        for i in range(rng.randint(1, 6)):
            if rng.random() < 0.25:
                lines.append(f"{ind}B{i}:")
                ind += "  "
            a = f"{rng.choice(names[:2] if rng.random() < 0.6 else names)}{{{rng.choice(quals[:2] if rng.random() < 0.6 else quals)}}}"
            lines.append(f"{ind}K{i}::{a}" if rng.random() < 0.7 else f"{ind}K{i}::[{a},{rng.choice(names)}{{{rng.choice(quals)}}}]")
        docs.append("\n".join(lines + ["===END==="]) + "\n")
    with tempfile.TemporaryDirectory() as td:
        for text in docs:
            case = {"text": text, "site": "brace-for-angle", "entry": "tools", "lenient": True}
            ctx.case({"text": text, "site": "brace-for-angle"})
            exp = Counter(m.group(0) for m in re.finditer(r"[A-Za-z_][A-Za-z0-9_./\-]*\{[A-Za-z_][A-Za-z0-9_./\-]*\}", text))
            try:
                w = asyncio.run(WriteTool().execute(target_path=os.path.join(td, "b.oct.md"), content=text, corrections_only=True, lenient=True))
            except BaseException as e:  # noqa: BLE001
                ctx.count("tool_raised:" + type(e).__name__)
                continue
            if w.get("status") != "success":
                ctx.count("brace:write_refused")
                continue
            got = Counter(c.get("before") for c in (w.get("corrections") or []) if isinstance(c, dict) and c.get("code") == "W_REPAIR_CANDIDATE")
            ctx.count("brace:sites", sum(exp.values()))
            if got != exp:
                X.classify(ctx, findings, CLASSES, case, f"octave_write(lenient=true) rewrote the brace annotations {dict(exp)} but reports {dict(got)}", "site-brace")


# --------------------------------------------------------------------------------------------------
# tool route (octave_write, lenient): brace look-alikes at PROTECTED sites (comment / literal zone / quoted string) are no rewrite
# sites of the lenient reader — no receipt, text untouched — whatever precedes them inside the protected region
# --------------------------------------------------------------------------------------------------
LOOKALIKES_TOOLROUTE = ["Shape{kind}", "Point{x}", "ATHENA{wisdom}", "PKG{latest}", "a.b{q_2}", "T_1{x-y}", "textbf{important}"]
# text placed BEFORE the look-alike inside the same protected region: nothing / plain text / a nested protected range (a quoted
# string, a `//`) / several of them.  Quotes are balanced everywhere.
COMMENT_PRE_TOOLROUTE = ["", "see ", 'see "geometry notes" before touching ', '"a" and "b" then ', 'x // y "z" ', "url http://h/p "]
ZONE_PRE_LINES_TOOLROUTE = [[], ["plain line"], ['name := "origin"'], ["// setup"], ['s = "a // b"', "// then"], ['"k": "v",'], ["x := 'single' // c"]]
ZONE_SAME_LINE_TOOLROUTE = ["p := ", '"p": ', 'x = "s" + ', "y // c ", 'K::"s" // c ']
STRING_PRE_TOOLROUTE = ["", "see ", 'see \\"x\\" then ', "http://h/p ", "a // b "]
REAL_BRACES_TOOLROUTE = [("ARES{war}", "ARES<war>"), ("ATHENA{wisdom}", "ATHENA<wisdom>"), ("T_1{x}", "T_1<x>"), ("Point{x}", "Point<x>")]


def kf_brace_after_unbalanced_quote(case) -> bool:
    """C07N2: octave_write(lenient=true) on text in which a `//` comment or a literal-zone line holding an ODD number of double quotes
    precedes a quoted string that holds a NAME{q} look-alike (the pre-pass pairs quotes across lines, textually)."""
    if case.get("entry") != "tools" or case.get("lenient") is not True:
        return False
    text, odd, in_zone, fence = case.get("text") or "", False, False, ""
    for line in text.split("\n"):
        s = line.strip()
        if s.startswith("```"):
            ticks = s[: len(s) - len(s.lstrip("`"))]
            if not in_zone:
                in_zone, fence = True, ticks
            elif s == fence:
                in_zone = False
            continue
        protected = line if in_zone else (line[line.index("//"):] if "//" in line and line.count('"', 0, line.index("//")) % 2 == 0 else "")
        if odd and not in_zone and re.search(r'"[^"]*[A-Za-z_][A-Za-z0-9_./\-]*\{[A-Za-z_][A-Za-z0-9_./\-]*\}', line):
            return True
        if protected.count('"') % 2 == 1:
            odd = not odd
    return False


CLASSES["kf_brace_after_unbalanced_quote"] = kf_brace_after_unbalanced_quote
# an unbalanced double quote inside a comment / zone line, then a quoted string holding the look-alike
UNBALANCED_PRE_TOOLROUTE = [("comment", ['// a 5" nail']), ("eol-comment", ['U1::1 // 5"']), ("zone", ["U2::", "```", "it's 5\" long", "```"])]


def brace_protected_sites_toolroute():
    """[(label, lines, [protected look-alike tokens], verbatim text)] — one protected region holding a brace look-alike, for every
    kind of region (own-line comment, end-of-line comment, literal zone, quoted string, string in a list after another string) and
    every kind of text preceding the look-alike inside that region.  `verbatim text` must survive in the written file as it is
    (comment text, zone content, string literal).  Zone sites: lines[0] key, lines[1] / lines[-1] fences, content in between."""
    out, las, k = [], LOOKALIKES_TOOLROUTE, 0
    for pre in COMMENT_PRE_TOOLROUTE:
        la = las[k % len(las)]; k += 1
        out.append((f"comment:{pre!r}", [f"// {pre}{la}"], [la], f"// {pre}{la}"))
        la = las[k % len(las)]; k += 1
        out.append((f"eol-comment:{pre!r}", [f"C{k}::1 // {pre}{la}"], [la], f"// {pre}{la}"))
    la = las[k % len(las)]; k += 1
    out.append(("eol-comment-after-string", [f'C{k}::"two words" // {la}'], [la], f"// {la}"))
    for pl in ZONE_PRE_LINES_TOOLROUTE:
        for sl in ZONE_SAME_LINE_TOOLROUTE[: (len(ZONE_SAME_LINE_TOOLROUTE) if pl in ([], ['name := "origin"']) else 2)]:
            la = las[k % len(las)]; k += 1
            body = pl + [f"{sl}{la}"]
            out.append((f"zone:{pl!r}:{sl!r}", [f"Z{k}::", "```go"] + body + ["```"], [la], "\n" + "\n".join(body) + "\n"))
    la, lb = las[k % len(las)], las[(k + 1) % len(las)]; k += 1
    body = ['"q" ' + la, "```", "// c", lb + ' "r" ' + la]
    out.append(("zone:two-lookalikes", [f"Z{k}::", "````"] + body + ["````"], [la, lb, la], "\n" + "\n".join(body) + "\n"))
    for pre in STRING_PRE_TOOLROUTE:
        la = las[k % len(las)]; k += 1
        out.append((f"string:{pre!r}", [f'S{k}::"{pre}{la}"'], [la], f'"{pre}{la}"'))
        la = las[k % len(las)]; k += 1
        out.append((f"string-in-list:{pre!r}", [f'S{k}::["first one","{pre}{la}"]'], [la], f'"{pre}{la}"'))
    for (kind, pl) in UNBALANCED_PRE_TOOLROUTE:
        la = las[k % len(las)]; k += 1
        out.append((f"string-after-unbalanced-quote-in-{kind}", pl + [f'S{k}::"see {la}"'], [la], f'"see {la}"'))
    return out


def brace_protected_toolroute(ctx, findings, canonical_texts=()):
    """Documents built from the protected sites above and real `NAME{q}` sites (bare values, list items).  Oracle, on octave_write(lenient=true):
    the multiset of W_REPAIR_CANDIDATE receipts (before, after) == the real sites injected — none for a canonical text, which holds protected
    sites only — and in the file actually written every protected region is still there verbatim (no rewrite without a receipt either).
    `canonical_texts`: canonical spellings of generated content-model documents (their zones, comments and strings hold brace look-alikes
    from the generator's pools): no brace-repair receipt either."""
    from collections import Counter
    from octave_mcp.core.emitter import emit
    from octave_mcp.core.parser import parse
    from octave_mcp.mcp.write import WriteTool
    rng = random.Random(f"{ctx.seed}:brace-protected")
    sites = brace_protected_sites_toolroute()
    docs = []   # (label, lines, protected tokens, verbatim texts, real sites, canonical input?)
    for n, (label, lines, prot, verb) in enumerate(sites):
        docs.append((label + ":alone", lines, prot, [verb], [], True))
        r1, r2 = REAL_BRACES_TOOLROUTE[n % 4][0], REAL_BRACES_TOOLROUTE[(n + 1) % 4][0]
        docs.append((label + ":between-real-sites", [f"R1::{r1}"] + lines + [f"R2::[{r2},ok]"], prot, [verb], [r1, r2], False))
    for i in range(ctx.budget(40, 600)):
        lines, prot, verb, real, ind = [], [], [], [], ""
        # without replacement: the keys of the sites are distinct; the unbalanced-quote sites (finding C07N2 changes how the rest of
        # the text is read) stay in their own fixed documents
        picked = rng.sample([s for s in sites if "unbalanced" not in s[0]], 5)
        for j in range(rng.randint(2, 5)):
            if rng.random() < 0.2 and len(ind) < 4:
                lines.append(f"{ind}B{j}:")
                ind += "  "
            if rng.random() < 0.3:
                r = rng.choice(REAL_BRACES_TOOLROUTE)[0]
                if rng.random() < 0.6:
                    lines.append(f"{ind}R{j}::{r}"); real += [r]
                else:
                    lines.append(f'{ind}R{j}::[{r},"two words",{r}]'); real += [r, r]
            else:
                (sl_label, sl, sp, sv) = picked[j]
                if sl_label.startswith("zone"):
                    # the key and the two fences take the indentation of the block; zone content is verbatim
                    lines += [ind + sl[0], ind + sl[1]] + sl[2:-1] + [ind + sl[-1]]
                else:
                    lines += [ind + x for x in sl]
                prot += sp
                verb.append(sv)
        docs.append((f"mix:{i}", lines, prot, verb, real, not real))
    with tempfile.TemporaryDirectory() as td:
        for f in findings:
            if f["cls"] == "kf_brace_after_unbalanced_quote":
                w = asyncio.run(WriteTool().execute(target_path=os.path.join(td, "kf.oct.md"), content=f["witness"]["text"], corrections_only=True, lenient=True))
                got = [(c.get("before"), c.get("after")) for c in (w.get("corrections") or []) if isinstance(c, dict) and c.get("code") == "W_REPAIR_CANDIDATE"]
                if got:
                    ctx.known_reproduced.append((f, f"canonical text, receipts {got}"))
                else:
                    ctx.notes.append(f"known finding {f['id']} no longer reproduces on its witness")
        for (label, lines, prot, verb, real, canon) in docs:
            text = "===D===\n" + "\n".join(lines) + "\n===END===\n"
            if canon:
                # canonical input: the canonical text of the document (a fixed point of parse -> emit)
                try:
                    text = emit(parse(text))
                    fixed = emit(parse(text)) == text
                except Exception:  # noqa: BLE001
                    fixed = False
                if not fixed or any(text.count(t) != c for t, c in Counter(prot).items()):
                    ctx.count("brace-protected:not-canonicalisable")
                    continue
            case = {"text": text, "site": "brace look-alike in a protected region", "family": label, "entry": "tools", "lenient": True}
            ctx.case({"text": text, "site": "brace-protected"}, nontrivial=True)
            ctx.count("brace-protected:" + label.split(":")[0] + (":canonical" if canon else ":with-real-sites"))
            p = os.path.join(td, "bp.oct.md")
            try:
                w = asyncio.run(WriteTool().execute(target_path=p, content=text, corrections_only=True, lenient=True))
                if w.get("status") != "success":
                    ctx.count("brace-protected:write_refused")
                    continue
                got = Counter((c.get("before"), c.get("after")) for c in (w.get("corrections") or []) if isinstance(c, dict) and c.get("code") == "W_REPAIR_CANDIDATE")
                exp = Counter((r, r.replace("{", "<").replace("}", ">")) for r in real)
                if got != exp:
                    why = ("canonical input yields brace-repair receipts" if canon else "brace-repair receipts differ from the NAME{q} sites outside comments, zones and strings")
                    X.classify(ctx, findings, CLASSES, case, f"octave_write(lenient=true): {why}: expected {dict(exp)} got {dict(got)}", "brace-protected-receipts")
                    continue
                if os.path.exists(p):
                    os.remove(p)
                w = asyncio.run(WriteTool().execute(target_path=p, content=text, lenient=True))
                if w.get("status") == "success" and os.path.exists(p):
                    written = open(p, encoding="utf-8", newline="").read()
                    missing = [v for v in verb if v not in written]
                    if missing or any(written.count(t) != c for t, c in Counter(prot).items()):
                        X.classify(ctx, findings, CLASSES, case, f"octave_write(lenient=true) rewrote text inside a protected region without a receipt: {TC.short(missing or prot, 160)}",
                                   "brace-protected-rewritten", {"written": written})
                    ctx.count("brace-protected:written-file-compared")
            except BaseException as e:  # noqa: BLE001
                ctx.count("tool_raised:" + type(e).__name__)
        brace = re.compile(r"[A-Za-z_][A-Za-z0-9_./\-]*\{[A-Za-z_][A-Za-z0-9_./\-]*\}")
        for text in canonical_texts:
            if not brace.search(text):
                continue
            case = {"text": text, "site": "brace look-alike in a protected region", "family": "generated canonical text", "entry": "tools", "lenient": True}
            ctx.case({"text": text, "site": "brace-protected"}, nontrivial=True)
            ctx.count("brace-protected:generated-canonical")
            try:
                w = asyncio.run(WriteTool().execute(target_path=os.path.join(td, "bg.oct.md"), content=text, corrections_only=True, lenient=True))
                got = [(c.get("before"), c.get("after")) for c in (w.get("corrections") or []) if isinstance(c, dict) and c.get("code") == "W_REPAIR_CANDIDATE"]
                if w.get("status") == "success" and got:
                    X.classify(ctx, findings, CLASSES, case, f"octave_write(lenient=true): canonical input yields brace-repair receipts {got[:4]}", "brace-protected-receipts")
            except BaseException as e:  # noqa: BLE001
                ctx.count("tool_raised:" + type(e).__name__)


def unfounded_advisories_tools(ctx, findings, fam):
    """fixed families with runs of empty lists / deep lists through the tools: every lenient_parse/deep_nesting record in
    octave_validate.repairs and every W_LENIENT_DEEP_NESTING entry of octave_write(lenient=true, corrections_only).corrections must sit
    on a bracket the MODEL nests that deep (none at all for the members that nest nothing)."""
    from octave_mcp.mcp.validate import ValidateTool
    from octave_mcp.mcp.write import WriteTool
    with tempfile.TemporaryDirectory() as td:
        for r in fam:
            if r["family"] not in ("empty-lists", "deep-lists"):
                continue
            for s in r["spellings"][:2]:
                text, owed = s["text"], [tuple(a[-2:]) for a in s["adv"]]
                case = {"text": text, "site": "deep_nesting advisory", "family": r["family"] + ":" + r["name"], "spelling": s["label"], "entry": "tools", "lenient": True}
                ctx.case({"text": text, "site": "deep_nesting advisory", "entry": "tools"})
                try:
                    v = asyncio.run(ValidateTool().execute(content=text, schema="META"))
                    got = [(x.get("line"), x.get("column")) for x in (v.get("repairs") or []) if isinstance(x, dict) and x.get("subtype") == "deep_nesting"]
                    bad = [g for g in got if g not in owed]
                    if bad:
                        X.classify(ctx, findings, CLASSES, case, f"octave_validate.repairs reports deep nesting at {bad}; the document nests lists that deep at {owed}", "unfounded-deep-nesting:validate")
                    w = asyncio.run(WriteTool().execute(target_path=os.path.join(td, "dn.oct.md"), content=text, corrections_only=True, lenient=True))
                    got = [(x.get("line"), x.get("column")) for x in (w.get("corrections") or []) if isinstance(x, dict) and x.get("code") == "W_LENIENT_DEEP_NESTING"]
                    bad = [g for g in got if g not in owed]
                    if w.get("status") == "success" and bad:
                        X.classify(ctx, findings, CLASSES, case, f"octave_write(lenient=true).corrections reports deep nesting at {bad}; the document nests lists that deep at {owed}", "unfounded-deep-nesting:write")
                    ctx.count("deep_nesting:tools_founded", len(got) - len(bad))
                except BaseException as e:  # noqa: BLE001
                    ctx.count("tool_raised:" + type(e).__name__)


# --- every word of a multi-word value is accounted for: in the value read, or in a receipt --------------------------------------
_NONWORD_HEAD_BRACKET = re.compile(r'::[ ]*(?:-?\d[\dA-Za-z.+\-]*|"(?:[^"\\\\]|\\\\.)*"|true|false|null)(?: +[A-Za-z_][A-Za-z0-9_.\-]*)* +[A-Za-z_][A-Za-z0-9_.\-]*\[')


def kf_adjacent_bracket_dropped(case) -> bool:
    """C07N3: a multi-word value headed by a NUMBER / STRING / BOOLEAN / NULL / VERSION token whose last word is directly followed by a
    bracket group (`K::3 mice[x]`): the group is consumed without capture and without any receipt."""
    return case.get("family") == "multiword-accounting" and _NONWORD_HEAD_BRACKET.search(case["text"]) is not None


CLASSES["kf_adjacent_bracket_dropped"] = kf_adjacent_bracket_dropped


def multiword_accounting(ctx, findings):
    """heads of every token kind x word tails with bracket groups adjacent / behind a space: each word written in the value must occur
    in the value read back or in the original of some receipt (a rewrite may respell, it may not drop text silently)."""
    heads = ["3", "-7", "2.5", "1e3", '"s"', '"a b"', "true", "false", "null", "1.2.3", "two", "Alpha_1"]
    tails = ["mice", "mice[x]", "mice[x,y]", "mice[[x]]", "mice [x]", "blind mice[zz]", "blind  mice [zz]", "mice[x] more", "a b c[q9]"]
    for f in findings:
        if f["cls"] == "kf_adjacent_bracket_dropped":
            pw = T.py_parse_warn(f["witness"]["text"])
            blob = json.dumps(pw, ensure_ascii=False)
            if "err" not in pw and f["witness"]["dropped"] not in blob:
                ctx.known_reproduced.append((f, f"{f['witness']['dropped']!r} occurs neither in the value nor in any receipt"))
            else:
                ctx.notes.append(f"known finding {f['id']} no longer reproduces on its witness")
    for h in heads:
        for t in tails:
            text = f"===D===\nK::{h} {t}\n===END===\n"
            case = {"text": text, "family": "multiword-accounting"}
            ctx.case(case)
            ctx.count("family:multiword-accounting")
            pw = T.py_parse_warn(text)
            if "err" in pw:
                continue      # a refusal drops nothing silently
            blob = json.dumps([pw["doc"], pw["repairs"], pw["warnings"]], ensure_ascii=False)
            words = [w for w in re.findall(r"[A-Za-z0-9_]+", (h.strip('"') + " " + t)) if w]
            lost = [w for w in words if w not in blob]
            if lost:
                X.classify(ctx, findings, CLASSES, case, f"parse_with_warnings: the words {lost} of the value occur neither in the value read nor in any receipt", "multiword-text-dropped")


def site_matrix(ctx, findings):
    """every rewrite kind alone through all four surfaces, with exact positions."""
    from octave_mcp.mcp.validate import ValidateTool
    from octave_mcp.mcp.write import WriteTool
    with tempfile.TemporaryDirectory() as td:
        for name, text, exp in SITES:
            case = {"text": text, "site": name, "entry": "tools"}
            ctx.case({"text": text, "site": name})
            pw = T.py_parse_warn(text)
            if "err" in pw:
                X.classify(ctx, findings, CLASSES, case, f"reader rejects: {pw['err']}", "rejected")
                continue
            got = sorted(((x[0], x[1] if x[0] == "normalization" else None, x[-2], x[-1]) for x in TC.rewrite_receipts(pw)), key=lambda t: (t[2], t[3]))
            if got != sorted(exp, key=lambda t: (t[2], t[3])):
                X.classify(ctx, findings, CLASSES, case, f"parse_with_warnings receipts {got} != rewrites in the text {exp}", "site-receipts")
            n_lex = [e for e in exp if e[0] == "normalization"]
            n_par = [e for e in exp if e[0] != "normalization"]
            try:
                v = asyncio.run(ValidateTool().execute(content=text, schema="META"))
                reps = [x for x in (v.get("repairs") or []) if isinstance(x, dict)]
                for (kind, orig, ln, col) in exp:
                    hit = [x for x in reps if x.get("line") == ln and x.get("column") == col and (x.get("type") == kind or x.get("subtype") == kind)
                           and (orig is None or x.get("original") == orig)]
                    if len(hit) != 1:
                        X.classify(ctx, findings, CLASSES, case, f"octave_validate.repairs has {len(hit)} entries for the {kind} rewrite {orig!r} at {ln}:{col}", "site-validate")
                for lenient in (False, True):
                    p = os.path.join(td, "s.oct.md")
                    w = asyncio.run(WriteTool().execute(target_path=p, content=text, corrections_only=True, lenient=lenient))
                    cor = [x for x in (w.get("corrections") or []) if isinstance(x, dict)]
                    c2 = dict(case, lenient=lenient, n_parser_rewrites=len(n_par))
                    for (kind, orig, ln, col) in n_lex:
                        hit = [x for x in cor if x.get("line") == ln and x.get("column") == col and x.get("before") == orig]
                        if w.get("status") == "success" and len(hit) != 1:
                            X.classify(ctx, findings, CLASSES, c2, f"octave_write(corrections_only, lenient={lenient}).corrections has {len(hit)} entries for {orig!r} at {ln}:{col}", "site-write")
                    if lenient and w.get("status") == "success" and len(cor) < len(exp):
                        X.classify(ctx, findings, CLASSES, c2, f"octave_write(lenient=true).corrections lists {len(cor)} entries for {len(exp)} rewrites", "site-write-count")
            except BaseException as e:  # noqa: BLE001
                ctx.count("tool_raised:" + type(e).__name__)


def run(ctx: vlib.Ctx):
    ctx.rule = ("content-model documents (seeded + fixed families: runs of 0..7 empty lists followed by a list, lists nested 3..8 deep, chained tensions, "
                "strings with layout characters at their ends) x seeded subsets of rewrite sites (all freedoms at p in {0.15,0.5,0.9}; aliases only; quotes/triple quotes only; "
                "multi-word only; aliases+layout); expected receipts come from the renderer (positions from its own line/column arithmetic); "
                "non-trivial = at least one injected rewrite; distinct = distinct text; octave_write(lenient=true) on brace look-alikes at protected sites "
                "(comment / zone / string, after nothing / plain text / a nested quoted string or //) alone (canonical) and among real NAME{q} sites")
    proj = X.setup(ctx, PROPS)
    findings = vlib.load_findings(ctx.prop)
    from octave_mcp.mcp.write import WriteTool as _WT
    for f in findings:
        if f["cls"] != "kf_strict_write_parser_rewrites":
            continue      # replayed where its class lives (brace_protected_toolroute)
        with tempfile.TemporaryDirectory() as td0:
            w = asyncio.run(_WT().execute(target_path=os.path.join(td0, "k.oct.md"), content=f["witness"]["text"], corrections_only=True, lenient=False))
            if w.get("status") == "success" and not (w.get("corrections") or []):
                ctx.known_reproduced.append((f, "corrections == [] for a multi-word value"))
            else:
                ctx.notes.append(f"known finding {f['id']} no longer reproduces on its witness")
    n = ctx.budget(800, 8000)
    args = [(ctx.seed, i) for i in range(n)]
    res = [r for ch in vlib.pmap(eval_chunk, [args[i:i + 40] for i in range(0, len(args), 40)], chunksize=1) for r in ch]
    # fixed families (docgen.family_docs): runs of literally empty lists followed by a list, genuinely deep lists (>= the documented
    # advisory depth), chained tensions, strings with layout characters at their ends - canonical, corner and seeded spellings
    fargs = TC.family_args(ctx.seed)
    fam = [r for ch in vlib.pmap(TC.family_chunk, [fargs[i:i + 8] for i in range(0, len(fargs), 8)], chunksize=1) for r in ch]
    flat = []
    for r in res:
        flat += [("c", r["ctext"], r["crec"], r["cadv"], r["c"], r["only"]), ("l", r["ltext"], r["lrec"], r["ladv"], r["l"], r["only"])]
    for r in fam:
        for s in r["spellings"]:
            flat.append(("c" if s["label"] == "canonical" else "l", s["text"], s["rec"], s["adv"], s["ev"]["pw"], "family:" + r["family"] + ":" + s["label"]))
            ctx.count("family:" + r["family"])
    texts, impl = [], []
    nrec = 0
    for (which, text, exp, adv, pw, sites) in flat:
        case = {"text": text, "sites": sites, "spelling": which}
        ctx.case({"text": text}, nontrivial=bool(exp))
        nrec += len(exp)
        if "err" in pw:
            X.classify(ctx, findings, CLASSES, case, f"reader rejects: {pw['err']}", "rejected")
        else:
            got = TC.rewrite_receipts(pw)
            if sorted(got, key=key) != sorted(exp, key=key):
                miss = [x for x in exp if x not in got]
                extra = [x for x in got if x not in exp]
                why = ("canonical input yields rewrite receipts" if which == "c" and not exp else
                       "receipts differ from the injected rewrites") + f": missing {TC.short(miss, 200)} unexpected {TC.short(extra, 200)}"
                X.classify(ctx, findings, CLASSES, case, why, "canonical-not-silent" if which == "c" else "receipt-mismatch")
            # lenient_parse/deep_nesting records are advisories, legitimate exactly where the MODEL nests a list >= the documented
            # depth (first such bracket of a line).  One that reports nesting the document does not have is a lenient-parse receipt
            # without any cause in the input (for canonical input: "no normalisation or lenient-parse receipts at all").  A MISSING
            # advisory is no concern of this property: counted only.
            gdn = TC.deep_nesting_records(pw)
            unfounded = [x for x in gdn if x not in adv]
            if unfounded:
                why = ("canonical input yields lenient_parse receipts" if which == "c" else "lenient_parse receipts that match nothing in the input") + \
                    f": deep_nesting reported {TC.short(unfounded, 200)}, the document nests lists that deep at {TC.short([x[-2:] for x in adv], 100)}"
                X.classify(ctx, findings, CLASSES, case, why, "unfounded-deep-nesting")
            ctx.count("deep_nesting:founded", len(gdn) - len(unfounded))
            ctx.count("deep_nesting:advisory_missing", len([x for x in adv if x not in gdn]))
            for x in exp:
                ctx.count("injected:" + x[0] + (":" + str(x[1]) if x[0] == "normalization" else ""))
        texts.append(text); impl.append(pw)
    ctx.extra["injected_rewrites"] = nrec
    for text, pw, m in zip(texts, impl, X.lean_parse_warn(proj, texts)):
        if T.model_unsupported(m):
            ctx.count("model_unsupported")
        else:
            vm = (m.get("repairs"), m.get("warnings")) if "doc" in m else m.get("err")
            vi = (pw.get("repairs"), pw.get("warnings")) if "doc" in pw else pw.get("err")
            if vm != vi:
                X.corr(ctx, {"text": text}, "receipts (lexer repairs, parser warnings) in order with positions", vm, vi)
    # tools surface the receipts
    from octave_mcp.mcp.validate import ValidateTool
    from octave_mcp.mcp.write import WriteTool
    with tempfile.TemporaryDirectory() as td:
        for k, r in enumerate(res[: ctx.budget(80, 800)]):
            if "err" in r["l"] or not r["lrec"]:
                continue
            case = {"text": r["ltext"], "entry": "tools"}
            ctx.case({"text": r["ltext"], "entry": "tools"})
            try:
                v = asyncio.run(ValidateTool().execute(content=r["ltext"], schema="META"))
                reps = v.get("repairs") or []
                n_norm = sum(1 for x in r["lrec"] if x[0] == "normalization")
                got_norm = sum(1 for x in reps if isinstance(x, dict) and x.get("type") == "normalization")
                if got_norm != n_norm:
                    X.classify(ctx, findings, CLASSES, case, f"octave_validate.repairs has {got_norm} normalization receipts, input has {n_norm} rewrites", "validate-repairs")
                n_mw = sum(1 for x in r["lrec"] if x[0] == "multi_word_coalesce")
                got_mw = sum(1 for x in reps if isinstance(x, dict) and x.get("subtype") == "multi_word_coalesce")
                if got_mw != n_mw:
                    X.classify(ctx, findings, CLASSES, case, f"octave_validate.repairs has {got_mw} multi_word receipts, input has {n_mw}", "validate-repairs-mw")
                p = os.path.join(td, f"r{k}.oct.md")
                for lenient in (False, True):
                    w = asyncio.run(WriteTool().execute(target_path=p, content=r["ltext"], corrections_only=True, lenient=lenient))
                    cor = w.get("corrections") or []
                    if w.get("status") == "success" and len(cor) < n_norm + n_mw:
                        X.classify(ctx, findings, CLASSES, dict(case, lenient=lenient, n_parser_rewrites=n_mw),
                                   f"octave_write(corrections_only, lenient={lenient}).corrections has {len(cor)} entries for {n_norm + n_mw} rewrites", "write-corrections")
                    if os.path.exists(p):
                        X.classify(ctx, findings, CLASSES, case, "corrections_only wrote a file", "dry-run-wrote")
            except BaseException as e:  # noqa: BLE001
                ctx.count("tool_raised:" + type(e).__name__)
    site_matrix(ctx, findings)
    multiword_accounting(ctx, findings)
    unfounded_advisories_tools(ctx, findings, fam)
    brace_sites(ctx, findings)
    brace_protected_toolroute(ctx, findings, [r["ctext"] for r in res[: ctx.budget(300, 3000)] if "err" not in r["c"]])
    ctx.assumptions = ["'rewrite receipts' are read as in DESIGN.md §7 C07: lexer normalization / repair_candidate records and the lenient_parse subtypes that "
                       "transform text; advisories (duplicate_key, deep_nesting, spec_violation/*) are not rewrites",
                       "a lenient_parse/deep_nesting record is accepted as an advisory only where the content model nests a list >= 5 deep (grammar §6) at that "
                       "line and column; one that reports nesting the document does not have counts as a receipt without a rewrite (a missing advisory is only counted)",
                       "proved for every input: the lexer-level bijection between normalised tokens and normalisation receipts (Props/C07receipts); exact receipts of every alias spelling of expressions (C03expr) and of # section markers (C01sections); canonical flat / block-structured text has none (C01flat, C01blocks); parser-level rewrites and the tool routes are decided by the receipt oracle and the correspondence"]
