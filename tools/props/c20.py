"""C20 — Any text is either read or cleanly refused; tools never raise.

Streams: exhaustive token sequences (length <=3, thorough 4) over the token alphabet, random strings over
all planes (controls, combining, astral; no surrogates), span mutations of every shipped document,
size-scaled families (long lines, many lines, deep indentation, brackets 99/100/101/150, long digit runs,
many aliases, many fences, many tabs in zones, many identifiers with aliases) at n, 2n, 4n, 8n.
Oracle: tokenize / parse / parse_with_warnings / parse_meta_only return or raise LexerError/ParserError
only; a deterministic cost (Python LINE/PY_START/PY_RESUME events via sys.monitoring) grows by <= 2.3x per
doubling (measured on 2n->4n and 4n->8n); all four tools return a json.dumps-able envelope with status or validation_status.
Correspondence: Lean lexer+parser model raises the same exception class / accepts, on the same inputs.
"""
import importlib
import json
import random
import sys

import vlib
from harness import text as T
from harness import textcheck as TC
from props import _text as X

PROPS = ["Octave.Props.C20", "Octave.Props.C20parser"]
def kf_many_duplicates_of_one_key(case) -> bool:
    """C20N1: the size-scaled family whose lines all assign the SAME key at one level (n duplicates of one key)."""
    return case.get("family") == "duplicate_keys"


CLASSES = {"kf_many_duplicates_of_one_key": kf_many_duplicates_of_one_key}


def ctl_chunk(texts):
    """real code: exception class (or none) of the four reader entry points."""
    from octave_mcp.core.lexer import LexerError, tokenize
    from octave_mcp.core.parser import ParserError, parse, parse_meta_only, parse_with_warnings
    out = []
    for x in texts:
        r = {}
        for name, fn in (("tokenize", tokenize), ("parse", parse), ("parse_with_warnings", parse_with_warnings), ("parse_meta_only", parse_meta_only)):
            try:
                fn(x)
                r[name] = None
            except (LexerError, ParserError) as e:
                r[name] = type(e).__name__
            except RecursionError:
                r[name] = "RecursionError"
            except BaseException as e:  # noqa: BLE001
                r[name] = f"FOREIGN:{type(e).__name__}: {str(e)[:60]}"
        out.append(r)
    return out


FAMILIES = {
    "long_line": lambda n: "K::" + " ".join(["word"] * n) + "\n",
    "many_lines": lambda n: "".join(f"K{i}::v{i}\n" for i in range(n)),
    "many_aliases": lambda n: "".join(f"K{i}::x->y\n" for i in range(n)),
    "many_fences_with_tabs": lambda n: "".join(f"Z{i}::\n```\n\ta\tb\n```\n" for i in range(n)),
    "long_digits": lambda n: "K::" + "7" * min(n, 4000) + "\n" + "".join(f"A{i}::1\n" for i in range(n)),
    "deep_indent": lambda n: "".join(" " * (2 * i) + f"B{i}:\n" for i in range(min(n, 90))) + "".join(f"K{i}::1\n" for i in range(n)),
    # n assignments of the SAME key at one level: every duplicate-key warning lists all earlier lines (finding C20N1)
    "duplicate_keys": lambda n: "A::1\n" * n,
    "wide_list": lambda n: "K::[" + ",".join(str(i) for i in range(n)) + "]\n",
    "many_comments": lambda n: "".join(f"// c{i}\nK{i}::1\n" for i in range(n)),
    "long_string": lambda n: 'K::"' + "ab\\\\n" * n + '"\n',
    "nested_blocks_siblings": lambda n: "".join(f"B{i}:\n  X::1\n  Y:\n    Z::[a,b,c]\n" for i in range(n)),
}


def cost_of(fn, text):
    """deterministic cost: number of Python LINE events executed inside octave_mcp while running fn(text)."""
    mon = sys.monitoring
    tool = mon.PROFILER_ID
    count = [0]

    def on_line(code, line):
        count[0] += 1
    try:
        mon.use_tool_id(tool, "verif-cost")
    except ValueError:
        return None
    try:
        ev = mon.events.LINE | mon.events.PY_RESUME | mon.events.PY_START

        def on_other(code, offset):
            count[0] += 1
        mon.register_callback(tool, mon.events.LINE, on_line)
        mon.register_callback(tool, mon.events.PY_RESUME, on_other)
        mon.register_callback(tool, mon.events.PY_START, on_other)
        mon.set_events(tool, ev)
        try:
            fn(text)
        except Exception:  # noqa: BLE001
            pass
    finally:
        mon.set_events(tool, 0)
        for e in (mon.events.LINE, mon.events.PY_RESUME, mon.events.PY_START):
            mon.register_callback(tool, e, None)
        mon.free_tool_id(tool)
    return count[0]


def scaling_chunk(names):
    from octave_mcp.core.lexer import tokenize
    from octave_mcp.core.parser import parse_with_warnings
    out = []
    for (name, base) in names:
        fam = FAMILIES[name]
        row = {"family": name, "base": base, "tokenize": [], "parse_with_warnings": []}
        for k in (1, 2, 4, 8):
            x = fam(base * k)
            row["tokenize"].append(cost_of(tokenize, x))
            row["parse_with_warnings"].append(cost_of(parse_with_warnings, x))
        out.append(row)
    return out


def bracket_cases():
    out = []
    for d in (5, 50, 99, 100, 101, 150, 400):
        out.append("K::" + "[" * d + "1" + "]" * d)
        out.append("K::" + "[" * d)
        out.append("K::[" + "a::[" * d + "1" + "]" * d + "]")
    for d in (10, 100, 300):
        out.append("".join(" " * i + f"B{i}:\n" for i in range(d)) + " " * d + "K::1\n")
        out.append("".join(" " * i + f"§{i}::S\n" for i in range(d)))
    return out


def regex_cases():
    """REGEX constraint patterns inside holographic lists that make `re.compile` raise something other than re.error
    (OverflowError, RecursionError) or work hard: the reader compiles the pattern while parsing."""
    pats = ["a{99999999999}", "a{1,99999999999}", "(" * 600 + ")" * 600, "(?:" * 400 + "a" + ")" * 400, "[" + "a" * 50000 + "]", "a{65535}{65535}",
            "(?P<n>a)(?P<n>b)", "\\", "(a*)*$", "a" * 20000]
    out = []
    for p in pats:
        q = p.replace('"', "")
        out += [f'K::["x"∧REGEX["{q}"]]\n', f'===D===\nMETA:\n  TYPE::SCHEMA\nFIELDS:\n  F::["x"∧REQ∧REGEX["{q}"]]\n===END===\n']
    return out


def tools_chunk(arg):
    """worker: the tools clause on a few contents; returns (failures, stats)."""
    import random as _r
    seed, idx, contents, share = arg
    from harness import tools_total as tt
    fails = tt.tools_total_failures(contents, _r.Random(f"{seed}:tools:{idx}"), share * len(contents))
    return fails, getattr(tt.tools_total_failures, "last_stats", {"calls": 0, "by_tool": {}})


def run(ctx: vlib.Ctx):
    ctx.rule = ("token sequences <=3 (thorough 4, sampled in quick) over the 33-symbol token alphabet at two positions; seeded random strings over all "
                "planes; span mutations of every shipped document; bracket/indent depth ladders; 10 size-scaled families at n,2n,4n,8n with a "
                "deterministic cost; all four tools x flags on a sample; non-trivial = any; distinct = distinct text")
    proj = X.setup(ctx, PROPS)
    # tools clause: guard-coverage theorems of the `tools` engine (regenerated Gen/Guards from the execute() bodies)
    ctx.translate("tools")
    ctx.lean("tools", ["Octave.Props.C20tools"], extra_targets=())
    findings = vlib.load_findings(ctx.prop)
    rng = random.Random(ctx.seed)
    wide = ctx.thorough or ctx.widen > 1
    texts = TC.token_sequences(3, rng, sample=None if wide else 6000)
    if ctx.thorough:
        texts += TC.token_sequences(4, rng, sample=200000)
    planes = [(0x20, 0x7E), (0x0, 0x1F), (0x7F, 0xFF), (0x100, 0x24F), (0x300, 0x36F), (0x2000, 0x206F), (0x2190, 0x22FF), (0x3000, 0x30FF),
              (0xE000, 0xE0FF), (0xFE00, 0xFE0F), (0x1F300, 0x1F64F), (0xE0100, 0xE01EF)]
    for _ in range(ctx.budget(2000, 40000)):
        k = rng.randint(0, 40)
        s = []
        for _ in range(k):
            if rng.random() < 0.45:
                s.append(rng.choice(TC.TOKENS + ["```", "`", '"', '"""', "\\", "{", "}", "<", ">", "%", "===", "\t", "\r", "META:", "===END===", "OCTAVE::5"]))
            else:
                lo, hi = rng.choice(planes)
                c = rng.randint(lo, hi)
                s.append(chr(c) if not (0xD800 <= c <= 0xDFFF) else "x")
        texts.append("".join(s))
    corpus = X.corpus_texts()
    texts += corpus
    for _ in range(ctx.budget(1500, 40000)):
        t = rng.choice(corpus)
        for _ in range(rng.choice([1, 1, 2, 4])):
            t = TC.mutate(t, rng)
        texts.append(t)
    texts += bracket_cases() + regex_cases()
    texts = list(dict.fromkeys(texts))
    # reader calls run under a deadline: a hang of the implementation is a violation of this property, not a timeout of the check
    chunks = [texts[i:i + 250] for i in range(0, len(texts), 250)]
    cres, unfinished = vlib.pmap_deadline(ctl_chunk, chunks, 240 if not ctx.thorough else 1800)
    hangs = 0
    for ci in unfinished:
        fixed = []
        for x in chunks[ci]:
            if hangs >= 3:
                fixed.append({"tokenize": None, "parse": None, "parse_with_warnings": None, "parse_meta_only": None})
                continue
            kind, val = vlib.run_with_timeout(ctl_chunk, [x], 10)
            if kind == "ok":
                fixed.append(val[0])
            else:
                hangs += 1
                fixed.append({"tokenize": "HANG", "parse": "HANG", "parse_with_warnings": "HANG", "parse_meta_only": "HANG"})
                ctx.failures.append({"case": {"text": x[:3000]}, "why": f"the reader did not return within 10 s on a {len(x)}-character input ({kind}): hang / super-linear blow-up",
                                     "why_class": "hang"})
        cres[ci] = fixed
    res = [r for ch in cres for r in ch]
    # correspondence (view: exception class of parse_with_warnings / parse / tokenize)
    short = [i for i, x in enumerate(texts) if len(x) < 4000]
    drv = proj.driver()
    mw = dict(zip(short, drv.batch_par([{"op": "parse_warn", "s": texts[i], "env": T.make_env(texts[i])} for i in short])))
    mt = dict(zip(short, drv.batch_par([{"op": "tokenize", "s": texts[i], "env": T.make_env(texts[i])} for i in short])))
    for i, (x, r) in enumerate(zip(texts, res)):
        case = {"text": x if len(x) < 3000 else x[:3000] + f"…(+{len(x) - 3000} chars)"}
        ctx.case({"text": x})
        for name, v in r.items():
            if v is not None and v not in ("LexerError", "ParserError", "HANG"):
                X.classify(ctx, findings, CLASSES, dict(case, entry=name), f"{name} raised {v} instead of returning or raising LexerError/ParserError", "foreign-exception:" + name)
            ctx.count(f"{name}:{'ok' if v is None else v.split(':')[0]}")
        if i in mw:
            for name, m in (("parse_with_warnings", mw[i]), ("tokenize", mt[i])):
                if T.model_unsupported(m):
                    ctx.count("model_unsupported")
                    continue
                mc = m["err"][0] if "err" in m else None
                if mc != r[name] and not (r[name] or "").startswith("FOREIGN") and r[name] not in ("RecursionError", "HANG"):
                    X.corr(ctx, dict(case, entry=name), "exception class (or none)", mc, r[name])
    # scaling on a deterministic cost
    base = 40 if not ctx.thorough else 200
    srows, sunf = vlib.pmap_deadline(scaling_chunk, [[(n, base)] for n in FAMILIES], 200 if not ctx.thorough else 1500)
    fams = list(FAMILIES)
    for ci in sunf:
        ctx.failures.append({"case": {"family": fams[ci], "text": FAMILIES[fams[ci]](3)}, "why": f"size-scaled family {fams[ci]} did not finish within the deadline: super-linear blow-up or hang",
                             "why_class": "scaling-hang:" + fams[ci]})
    rows = [r for ch in srows if ch for r in ch]
    ctx.extra["scaling_cost_line_events"] = rows
    for row in rows:
        for fn in ("tokenize", "parse_with_warnings"):
            c = row[fn]
            if None in c:
                ctx.notes.append("sys.monitoring unavailable: scaling clause not measured")
                continue
            ratios = [c[j + 1] / max(1, c[j]) for j in (1, 2)]   # 2n->4n and 4n->8n (the first step carries warm-up cost)
            ctx.count(f"scaling:{row['family']}:{fn}:max_ratio={max(ratios):.2f}")
            if max(ratios) > 2.3 and c[3] > 20000:
                X.classify(ctx, findings, CLASSES, {"family": row["family"], "entry": fn, "text": FAMILIES[row["family"]](3)},
                           f"{fn} cost grows super-linearly on family {row['family']}: line events {c} (ratios {[round(r, 2) for r in ratios]})", "scaling:" + row["family"])
    # known finding C20N1: replayed on a deterministic measure of the work done — the total number of line numbers carried by the
    # duplicate-key warnings for n, 2n, 4n duplicates of one key (exactly quadratic while the finding is open)
    for f in findings:
        if f["cls"] == "kf_many_duplicates_of_one_key":
            from octave_mcp.core.parser import parse_with_warnings
            sizes = []
            for n in (100, 200, 400):
                _d, ws = parse_with_warnings(FAMILIES["duplicate_keys"](n))
                sizes.append(sum(len(w.get("all_lines") or []) for w in ws if isinstance(w, dict) and w.get("subtype") == "duplicate_key"))
            if sizes[0] > 0 and sizes[2] / sizes[1] > 3.0 and sizes[1] / sizes[0] > 3.0:
                ctx.known_reproduced.append((f, f"line numbers carried by the warnings for 100/200/400 duplicates: {sizes}"))
            else:
                ctx.notes.append(f"known finding {f['id']} no longer reproduces on its witness ({sizes})")
    # tools never raise
    try:
        tt = importlib.import_module("harness.tools_total")
    except Exception as e:  # noqa: BLE001
        tt = None
        ctx.notes.append(f"tools_total harness not available yet ({type(e).__name__}): tool clause not exercised in this run")
    if tt is not None:
        # known findings of the tool clause: replay the recorded call
        for f in findings:
            w = f["witness"]
            if "tool" in w:
                bad = tt.replay(w)
                if bad is not None:
                    ctx.known_reproduced.append((f, bad[0]))
                else:
                    ctx.notes.append(f"known finding {f['id']} no longer reproduces on its witness")
        open_ids = {f["id"] for f in findings}
        # contents for the tool clause: raw texts, shipped documents, content-model documents (all constructs, PATTERN/REGEX keys,
        # zones, holographic-looking lists) and a pool of values that take unusual routes through warnings / repair logs
        pool = regex_cases()[:8] + ["REGEX::[alpha,beta]", "RULES::[PATTERN::[a,b]]", "PATTERN::\n```\nx\n```\n", "K::[REGEX::[\"x\"∧REQ]]", "PATTERN::[k::v]",
                "===D===\nMETA:\n  TYPE::[a,b]\n  CONTRACT::[FIELD[x]::REQ]\n===END===\n", "K::NAME{q}", "K::\"\"\"a\nb\"\"\" x", "K::1e400",
                "===D===\nMETA:\n  N:\n    A::[1,[2]]\n---\n§1::S\n  K::[\"e\"∧ENUM[a,b]→§T]\n===END===\n"]
        gen_docs = []
        for gi in range(ctx.budget(40, 600)):
            _d, ctext, _cr, ltext, _lr = TC.gen_case(ctx.seed, 100000 + gi)
            gen_docs += [ctext, ltext]
        sample = rng.sample(texts, min(len(texts), ctx.budget(40, 1500))) + corpus[:4] + pool + gen_docs
        # the tools run in worker processes under a deadline: a call that does not return is a failure of the property
        # (with the content as replay), never a stuck check
        per = 12
        tchunks = [(ctx.seed, ci, sample[i:i + per], max(1, ctx.budget(700, 20000) * per // max(1, len(sample))))
                   for ci, i in enumerate(range(0, len(sample), per))]
        tres, tunf = vlib.pmap_deadline(tools_chunk, tchunks, 300 if not ctx.thorough else 2400)
        fails, stats = [], {"calls": 0, "by_tool": {}}
        for r in tres:
            if isinstance(r, dict) and "__worker_exception__" in r:
                raise vlib.Infra(f"tools_total worker failed: {r['__worker_exception__']}")
            if r is not None:
                fails += r[0]
                stats["calls"] += r[1]["calls"]
                for k, v in r[1]["by_tool"].items():
                    stats["by_tool"][k] = stats["by_tool"].get(k, 0) + v
        for ci in tunf[:4]:
            seed, idx, contents, share = tchunks[ci]
            for content in contents:
                kind, val = vlib.run_with_timeout(tools_chunk, (seed, idx, [content], share), 20)
                if kind == "timeout":
                    ctx.failures.append({"case": {"content": content, "tools": "octave_validate / octave_write / octave_eject / octave_compile_grammar on this content"},
                                         "why": "a tool call on this content did not return within 20 s (the same calls take milliseconds on neighbouring contents)",
                                         "why_class": "tool:hang"})
                    ctx.count("tool_hang")
                    break
            else:
                ctx.notes.append(f"tool chunk {ci} missed the pool deadline but each content finished alone (load)")
        ctx.extra["tool_calls"] = stats
        for fl in fails:
            case = {"tool": fl["tool"], "args": fl["args"], "replay": fl.get("replay")}
            ctx.case(case)
            if fl.get("known") in open_ids:
                ctx.known_hits[fl["known"]] = ctx.known_hits.get(fl["known"], 0) + 1
            else:
                ctx.failures.append({"case": case, "why": fl["why"], "why_class": "tool:" + fl["why_class"]})
    ctx.assumptions = ["CPython recursion limit and memory are runtime: block nesting beyond the documented cap of 100 is outside the statement",
                       "the timing clause is judged on a deterministic cost (executed line events), wall time is not used",
                       "proved for every input: lexer closure / progress / no hang (Props/C20), parser closure and parser fuel adequacy = no hang (Props/C20parser); the timing clause has no cost model in Lean and is decided by the deterministic-cost scaling families"]
