"""C20 — Any text is either read or cleanly refused; tools never raise.

Streams: exhaustive token sequences (length <=3, thorough 4) over the token alphabet, random strings over
all planes (controls, combining, astral; no surrogates), span mutations of every shipped document,
size-scaled families (long lines, many lines, deep indentation, brackets 99/100/101/150, long digit runs,
many aliases, many fences, many tabs in zones, many identifiers with aliases) at n, 2n, 4n, 8n.
Oracle: tokenize / parse / parse_with_warnings / parse_meta_only return or raise LexerError/ParserError
only; a deterministic cost (Python LINE/PY_START/PY_RESUME events via sys.monitoring) grows by <= 2.3x per
doubling (measured on 2n->4n and 4n->8n); all four tools return a json.dumps-able envelope with status or validation_status.
Correspondence: Lean lexer+parser model raises the same exception class / accepts, on the same inputs.
"""
import importlib
import json
import random
import sys

import vlib
from harness import text as T
from harness import textcheck as TC
from props import _text as X

PROPS = ["Octave.Props.C20", "Octave.Props.C20parser"]
def kf_many_duplicates_of_one_key(case) -> bool:
    """C20N1: the size-scaled family whose lines all assign the SAME key at one level (n duplicates of one key)."""
    return case.get("family") == "duplicate_keys"


CLASSES = {"kf_many_duplicates_of_one_key": kf_many_duplicates_of_one_key}


def ctl_chunk(texts):
    """real code: exception class (or none) of the four reader entry points."""
    from octave_mcp.core.lexer import LexerError, tokenize
    from octave_mcp.core.parser import ParserError, parse, parse_meta_only, parse_with_warnings
    out = []
    for x in texts:
        r = {}
        for name, fn in (("tokenize", tokenize), ("parse", parse), ("parse_with_warnings", parse_with_warnings), ("parse_meta_only", parse_meta_only)):
            try:
                fn(x)
                r[name] = None
            except (LexerError, ParserError) as e:
                r[name] = type(e).__name__
            except RecursionError:
                r[name] = "RecursionError"
            except BaseException as e:  # noqa: BLE001
                r[name] = f"FOREIGN:{type(e).__name__}: {str(e)[:60]}"
        out.append(r)
    return out


FAMILIES = {
    "long_line": lambda n: "K::" + " ".join(["word"] * n) + "\n",
    "many_lines": lambda n: "".join(f"K{i}::v{i}\n" for i in range(n)),
    "many_aliases": lambda n: "".join(f"K{i}::x->y\n" for i in range(n)),
    "many_fences_with_tabs": lambda n: "".join(f"Z{i}::\n```\n\ta\tb\n```\n" for i in range(n)),
    "long_digits": lambda n: "K::" + "7" * min(n, 4000) + "\n" + "".join(f"A{i}::1\n" for i in range(n)),
    "deep_indent": lambda n: "".join(" " * (2 * i) + f"B{i}:\n" for i in range(min(n, 90))) + "".join(f"K{i}::1\n" for i in range(n)),
    # n assignments of the SAME key at one level: every duplicate-key warning lists all earlier lines (finding C20N1)
    "duplicate_keys": lambda n: "A::1\n" * n,
    "wide_list": lambda n: "K::[" + ",".join(str(i) for i in range(n)) + "]\n",
    "many_comments": lambda n: "".join(f"// c{i}\nK{i}::1\n" for i in range(n)),
    "long_string": lambda n: 'K::"' + "ab\\\\n" * n + '"\n',
    "nested_blocks_siblings": lambda n: "".join(f"B{i}:\n  X::1\n  Y:\n    Z::[a,b,c]\n" for i in range(n)),
}


def cost_of(fn, text):
    """deterministic cost: number of Python LINE events executed inside octave_mcp while running fn(text)."""
    mon = sys.monitoring
    tool = mon.PROFILER_ID
    count = [0]

    def on_line(code, line):
        count[0] += 1
    try:
        mon.use_tool_id(tool, "verif-cost")
    except ValueError:
        return None
    try:
        ev = mon.events.LINE | mon.events.PY_RESUME | mon.events.PY_START

        def on_other(code, offset):
            count[0] += 1
        mon.register_callback(tool, mon.events.LINE, on_line)
        mon.register_callback(tool, mon.events.PY_RESUME, on_other)
        mon.register_callback(tool, mon.events.PY_START, on_other)
        mon.set_events(tool, ev)
        try:
            fn(text)
        except Exception:  # noqa: BLE001
            pass
    finally:
        mon.set_events(tool, 0)
        for e in (mon.events.LINE, mon.events.PY_RESUME, mon.events.PY_START):
            mon.register_callback(tool, e, None)
        mon.free_tool_id(tool)
    return count[0]


def scaling_chunk(names):
    from octave_mcp.core.lexer import tokenize
    from octave_mcp.core.parser import parse_with_warnings
    out = []
    for (name, base) in names:
        fam = FAMILIES[name]
        row = {"family": name, "base": base, "tokenize": [], "parse_with_warnings": []}
        for k in (1, 2, 4, 8):
            x = fam(base * k)
            row["tokenize"].append(cost_of(tokenize, x))
            row["parse_with_warnings"].append(cost_of(parse_with_warnings, x))
        out.append(row)
    return out


def bracket_cases():
    out = []
    for d in (5, 50, 99, 100, 101, 150, 400):
        out.append("K::" + "[" * d + "1" + "]" * d)
        out.append("K::" + "[" * d)
        out.append("K::[" + "a::[" * d + "1" + "]" * d + "]")
    for d in (10, 100, 300):
        out.append("".join(" " * i + f"B{i}:\n" for i in range(d)) + " " * d + "K::1\n")
        out.append("".join(" " * i + f"§{i}::S\n" for i in range(d)))
    return out


def regex_cases():
    """REGEX constraint patterns inside holographic lists that make `re.compile` raise something other than re.error
    (OverflowError, RecursionError) or work hard: the reader compiles the pattern while parsing."""
    pats = ["a{99999999999}", "a{1,99999999999}", "(" * 600 + ")" * 600, "(?:" * 400 + "a" + ")" * 400, "[" + "a" * 50000 + "]", "a{65535}{65535}",
            "(?P<n>a)(?P<n>b)", "\\", "(a*)*$", "a" * 20000]
    out = []
    for p in pats:
        q = p.replace('"', "")
        out += [f'K::["x"∧REGEX["{q}"]]\n', f'===D===\nMETA:\n  TYPE::SCHEMA\nFIELDS:\n  F::["x"∧REQ∧REGEX["{q}"]]\n===END===\n']
    return out


# Atoms that SOME layer of the stack may take for a number although another does not.  Decimal digits of other scripts (Nd: the
# lexer's `\d`, int() and float() accept them); "other" digits (No - superscripts, subscripts, circled / parenthesised / dingbat
# digits, fractions: str.isdigit() / str.isnumeric() accept many of them, int() refuses all; the lexer reads them as identifier
# characters); letter numbers (Nl: identifier BODY characters only); numeric CJK letters (Lo); and ASCII spellings on both sides of
# the NUMBER grammar.  Each goes into every position of a holographic pattern where the reader or the schema extractor parses an atom.
NUMBERISH_ATOMS = {
    "No": ["²", "①", "¹²", "⑳", "₃", "½", "¾", "⒈", "❶", "㊿", "൰", "𐄇", "²x", "x²", "_²", "①②③", "²⁄₃", "-²", "²e²"],
    "Nd": ["٣", "١٢٣", "३", "３", "𝟑", "٣.٥", "-٣", "٣e٢", "x٣", "1٣", "٣_٣"],
    "Nl": ["Ⅷ", "xⅧ", "_Ⅷ", "〇", "x〇", "ᛮ", ".Ⅷ"],
    "Lo": ["一", "万", "零"],
    "ascii": ["1", "-5", "+5", "3.14", "1e5", "1E-3", "1_000", "_1", "e5", "1e", "inf", "nan", "-inf", "Infinity", "0x1F", "1.", ".5", "1.2.3", "--1", "1-",
              "007", "1e+", "true", "null", "a", '"q"', '"²"', "$V"],
}
HOLO_SHAPES = [
    "K::[{a}∧REQ]\n", "K::[{a}&OPT]\n", "K::[{a}∧REQ→§SELF]\n", "K::[{a}->§T]\n", "K::[{a}∧ENUM[{a},b]]\n", "K::[{a}∧CONST[{a}]]\n",
    "K::[{a}∧RANGE[{a},{a}]]\n", "K::[x∧MAX_LENGTH[{a}]∧MIN_LENGTH[{a}]]\n", "K::[[{a},a]∧OPT]\n", "K::[[{a}]∧REQ]\n", "K::[[[{a}],{a}]∧REQ]\n",
    "K::[x,[{a}∧REQ]]\n", "K::[{a}∧]\n", "K::[ {a} ∧ REQ ]\n", "B:\n  K::[{a}∧REQ]\n  L::[k::[{a}∧OPT]]\n",
    "===D===\nMETA:\n  TYPE::T\n  RANK::[{a}∧REQ]\n===END===\n", "===D===\nMETA:\n  N:\n    RANK::[[{a},a]∧OPT]\n===END===\n",
    "===D===\nMETA:\n  TYPE::SCHEMA\nFIELDS:\n  F::[{a}∧REQ]\n  G::[{a}]\n  H::[[{a}]]\n  I::{a}\n===END===\n",
    "===D===\n§1::S\n  K::[{a}∧REQ→§1]\n===END===\n",
]


def holographic_cases():
    """every number-ish atom in every atom position of a holographic pattern (body, block, inline map, META, nested META, FIELDS, section)."""
    return [sh.replace("{a}", a) for atoms in NUMBERISH_ATOMS.values() for a in atoms for sh in HOLO_SHAPES]


def holographic_tool_pool():
    """contents for the tools clause, two atoms per category: (A) a schema document whose FIELDS hold the atom in plain one-element
    lists - the reader accepts it, the atom is parsed by the schema extractor only (octave_eject(format=gbnf), octave_compile_grammar,
    validate with grammar flags); (B) envelope-less text whose FIELDS hold it in holographic patterns (parsed by the reader itself)."""
    out = []
    for atoms in NUMBERISH_ATOMS.values():
        for a in atoms[:2]:
            out.append(f"===D===\nMETA:\n  TYPE::SCHEMA\nFIELDS:\n  TIER::[{a}]\n  H::[[{a}]]\n===END===\n")
            out.append(f"FIELDS:\n  LEVEL::[{a}∧REQ]\n  OPTS::[[{a},a]∧ENUM[{a},b]]\n")
    out.append("===D===\nMETA:\n  TYPE::T\n  RANK::[₃∧REQ]\n===END===\n")
    return out


def tools_chunk(arg):
    """worker: the tools clause on a few contents; returns (failures, stats)."""
    import random as _r
    seed, idx, contents, share = arg
    from harness import tools_total as tt
    fails = tt.tools_total_failures(contents, _r.Random(f"{seed}:tools:{idx}"), share * len(contents))
    return fails, getattr(tt.tools_total_failures, "last_stats", {"calls": 0, "by_tool": {}})


# --------------------------------------------------------------------------------------------------
# tool route: deep-nesting ladders (indentation-nested blocks / nested § sections, depths around and beyond CPython's recursion
# limit) through ALL four tools — every eject format x mode, both grammar formats, validate flags, every write mode.
# The tools clause holds "whatever the content argument holds": a tool that lets RecursionError (or anything) escape fails it.
# --------------------------------------------------------------------------------------------------
LADDERS_TOOLROUTE = {
    # one space per level keeps a d-deep text at d*d/2 characters (1300 levels: 0.85 MB)
    "nested_blocks": lambda d: "===DEEP===\n" + "".join(" " * i + f"B{i}:\n" for i in range(d)) + " " * d + "K::1\n===END===\n",
    "nested_sections": lambda d: "".join(" " * i + f"§{i + 1}::S{i}\n" for i in range(d)) + " " * d + "K::1\n",
    "nested_blocks_in_sections": lambda d: "===DEEP===\n" + "".join(" " * i + (f"§{i + 1}::S{i}\n" if i % 2 == 0 else f"B{i}:\n") for i in range(d)) + " " * d + "K::1\n===END===\n",
}
LADDER_BUILDER_TOOLROUTE = {
    "nested_blocks": "'===DEEP===\\n' + ''.join(' ' * i + f'B{i}:\\n' for i in range(d)) + ' ' * d + 'K::1\\n===END===\\n'",
    "nested_sections": "''.join(' ' * i + f'§{i + 1}::S{i}\\n' for i in range(d)) + ' ' * d + 'K::1\\n'",
    "nested_blocks_in_sections": "'===DEEP===\\n' + ''.join(' ' * i + (f'§{i + 1}::S{i}\\n' if i % 2 == 0 else f'B{i}:\\n') for i in range(d)) + ' ' * d + 'K::1\\n===END===\\n'",
}
LADDER_CALL_GROUPS_TOOLROUTE = ["eject:octave", "eject:json", "eject:yaml", "eject:markdown", "eject:gbnf", "grammar+validate", "write"]


# documents whose META block holds a lexer-level error (illegal character, tab, unterminated string, unbalanced bracket / brace): every
# tool must answer with an envelope (octave_write's salvage route re-reads exactly these lines)
META_LEXER_ERRORS_TOOLROUTE = ["===S===\nMETA:\n  TYPE::X\n  OWNER::Agent (Specialist)\n---\nA::1\n===END===\n", "===S===\nMETA:\n  TYPE::X\n\tTAB::1\nA::1\n===END===\n",
                               "===S===\nMETA:\n  TYPE::\"unterminated\n  V::1\nA::1\n===END===\n", "META:\n  TAGS::[a,b\n  K::{x}\nB:\n  C::1\n"]


def ladder_depths_toolroute(thorough: bool, widen: bool = False):
    """depths per family: below, around and beyond the depth at which the reader overflows the interpreter stack (about 990 block
    levels / 495 section levels); thorough: every 50 levels up to 1600 and 3000; widened quick run: every 200 levels in addition."""
    d = {"nested_blocks": [150, 400, 800, 950, 1000, 1050, 1300], "nested_sections": [150, 350, 450, 500, 550, 1300], "nested_blocks_in_sections": [300, 700, 1300]}
    if thorough:
        d = {k: sorted(set(v + list(range(100, 1601, 50)) + [3000])) for k, v in d.items()}
    elif widen:
        d = {k: sorted(set(v + list(range(100, 1601, 200)))) for k, v in d.items()}
    return d


def ladder_calls_toolroute(group, content):
    """the calls of one group on one content ("$C" stands for the content in the recorded arguments)."""
    from harness import tools_total as tt
    if group.startswith("eject:"):
        f = group.split(":")[1]
        return [("eject", {"content": content, "schema": "META", "format": f, "mode": m}) for m in tt.EJECT_MODES]
    if group == "grammar+validate":
        return ([("grammar", {"content": content, "format": f}) for f in tt.GRAMMAR_FORMATS] + [("grammar", {"content": content})] +
                [("validate", {"content": content, "schema": "META"}), ("validate", {"content": content, "schema": "META", "fix": True, "grammar_hint": True}),
                 ("validate", {"content": content, "schema": "SKILL", "diff_only": True, "profile": "STRICT"}), ("validate", {"content": content, "schema": "NOPE", "compact": True, "debug_grammar": True})])
    small = "===A===\nK::1\n===END===\n"
    return [("write", {"target_path": "$TMP/fresh", "content": content}), ("write", {"target_path": "$TMP/fresh", "content": content, "lenient": True, "schema": "META", "grammar_hint": True}),
            ("write", {"target_path": "$TMP/fresh", "content": content, "corrections_only": True, "parse_error_policy": "salvage"}),
            ("write", {"target_path": "$TMP/existing", "_existing": content}),                                   # normalize the file in place
            ("write", {"target_path": "$TMP/existing", "_existing": content, "changes": {"ZZ": 1}}),
            ("write", {"target_path": "$TMP/existing", "_existing": content, "content": small}),                 # overwrite a deep file
            ("write", {"target_path": "$TMP/existing", "_existing": small, "content": content, "lenient": True})]


def nesting_depth_toolroute(text: str):
    """(deepest indentation nesting, deepest nesting with § section levels counted twice) of a text — iterative, from the indentation
    alone.  The second number follows the reader's recursion: a block level costs one parser frame, a section level two."""
    stack, best, best_w = [], 0, 0
    for line in text.split("\n"):
        s = line.lstrip(" ")
        if not s or not (s.startswith("§") or s.rstrip().endswith(":")):
            continue
        ind = len(line) - len(s)
        while stack and stack[-1][0] >= ind:
            stack.pop()
        stack.append((ind, 2 if s.startswith("§") else 1))
        best = max(best, len(stack))
        best_w = max(best_w, sum(x[1] for x in stack))
    return best, best_w


def kf_eject_yaml_deep_nesting(case) -> bool:
    """C20N3: octave_eject(format="yaml") on content whose blocks / sections nest 300 or more levels deep (the reader still accepts it;
    yaml.dump recurses several frames per level; first failing depth measured: 328)."""
    n = case.get("nesting") or (0, 0)
    # upper bound: beyond it the reader itself overflows the stack and eject answers with its parse-error envelope
    return case.get("tool") == "eject" and (case.get("args") or {}).get("format") == "yaml" and n[0] >= 300 and n[1] < 1000


def kf_write_over_deep_existing_file(case) -> bool:
    """C20N4: octave_write in content / normalize mode (no `changes`) onto a target that EXISTS and whose content nests so deep that the
    baseline parse of the existing file raises RecursionError (block levels + 2 x section levels >= 950; first failing measured: 987),
    which the handler around that parse (LexerError, ParserError only) does not cover."""
    a = case.get("args") or {}
    n = case.get("existing_nesting") or (0, 0)
    return case.get("tool") == "write" and "_existing" in a and "changes" not in a and n[1] >= 950


LADDER_CLASSES_TOOLROUTE = {"kf_eject_yaml_deep_nesting": kf_eject_yaml_deep_nesting, "kf_write_over_deep_existing_file": kf_write_over_deep_existing_file}
CLASSES.update(LADDER_CLASSES_TOOLROUTE)


def ladder_replay_toolroute(tool, shown, family, depth):
    """python one-liner that rebuilds the ladder text and repeats the call ($C = the text, $TMP = a fresh directory)."""
    cls = {"validate": "octave_mcp.mcp.validate.ValidateTool", "write": "octave_mcp.mcp.write.WriteTool", "eject": "octave_mcp.mcp.eject.EjectTool",
           "grammar": "octave_mcp.mcp.compile_grammar.CompileGrammarTool"}[tool]
    mod, c = cls.rsplit(".", 1)
    return (f"import asyncio, json, os, tempfile; from {mod} import {c}; C = (lambda d: {LADDER_BUILDER_TOOLROUTE[family]})({depth}); T = tempfile.mkdtemp(); "
            f"a = {shown!r}; a = {{k: (C if v == '$C' else v) for k, v in a.items()}}; e = a.pop('_existing', None); "
            f"a.update({{'target_path': os.path.join(T, 'doc.oct.md')}} if 'target_path' in a else {{}}); "
            f"e is None or open(a['target_path'], 'w', encoding='utf-8', newline='').write(e); print(json.dumps(asyncio.run({c}().execute(**a)))[:400])")


def ladder_chunk_toolroute(arg):
    """worker: (family, depth, group) -> [failure records]; every call of the group on the ladder text, judged by the tools clause."""
    from harness import tools_total as tt
    family, depth, group = arg
    content = LADDERS_TOOLROUTE[family](depth)
    small_nest = (1, 0)
    targets, out, n = tt._Targets(), [], 0
    try:
        for tool, args in ladder_calls_toolroute(group, content):
            outcome, value = tt.execute(tool, targets.materialise(args))
            n += 1
            bad = tt.judge(outcome, value)
            if bad is not None:
                shown = {k: ("$C" if v is content else v) for k, v in args.items()}
                nest = nesting_depth_toolroute(content)
                out.append({"tool": tool, "args": shown, "family": family, "depth": depth, "why_class": bad[0], "why": f"octave_{tool}: {bad[1]}",
                            "nesting": nest if args.get("content") is content else small_nest,
                            "existing_nesting": (nest if args.get("_existing") is content else small_nest) if "_existing" in args else None,
                            "content": f"$C = (lambda d: {LADDER_BUILDER_TOOLROUTE[family]})({depth})   # {len(content)} characters",
                            "replay": ladder_replay_toolroute(tool, shown, family, depth)})
    finally:
        targets.close()
    return out, n


def ladders_toolroute(ctx, findings):
    """deep-nesting ladders through every tool, in worker processes under a deadline; failures inside the two recorded classes are counted."""
    for f in findings:
        if f["cls"] in LADDER_CLASSES_TOOLROUTE:
            w = f["witness"]
            kind, val = vlib.run_with_timeout(ladder_chunk_toolroute, (w["family"], w["depth"], w["group"]), 120)
            hit = [r for r in (val[0] if kind == "ok" else []) if CLASSES[f["cls"]](r)]
            if hit:
                ctx.known_reproduced.append((f, f"{w['family']}({w['depth']}): {hit[0]['why'][:120]}"))
            else:
                ctx.notes.append(f"known finding {f['id']} no longer reproduces on its witness")
    items = [(fam, d, g) for fam, ds in ladder_depths_toolroute(ctx.thorough, ctx.widen > 1).items() for d in ds for g in LADDER_CALL_GROUPS_TOOLROUTE]
    # the heaviest items first, so that the pool drains evenly
    items.sort(key=lambda it: -it[1])
    res, unf = vlib.pmap_deadline(ladder_chunk_toolroute, items, 240 if not ctx.thorough else 2400)
    calls = 0
    for i, r in enumerate(res):
        fam, d, g = items[i]
        if i in unf:
            ctx.failures.append({"case": {"family": fam, "depth": d, "calls": g, "content": f"(lambda d: {LADDER_BUILDER_TOOLROUTE[fam]})({d})"},
                                 "why": f"the {g} calls on {fam}({d}) did not return within the deadline", "why_class": "tool:hang:ladder"})
            continue
        if isinstance(r, dict) and "__worker_exception__" in r:
            raise vlib.Infra(f"ladder worker failed: {r['__worker_exception__']}")
        fails, n = r
        calls += n
        ctx.count(f"ladder:{fam}:calls", n)
        for fl in fails:
            case = {k: fl[k] for k in ("tool", "args", "family", "depth", "content", "replay", "nesting", "existing_nesting")}
            ctx.case({k: case[k] for k in ("tool", "args", "family", "depth")})
            X.classify(ctx, findings, CLASSES, case, f"{fl['why']}  [content: {fam} nested {d} deep]", "tool:" + fl["why_class"] + ":ladder:" + fl["tool"])
    ctx.extra["ladder_tool_calls"] = calls
    ctx.evaluations += calls


def run(ctx: vlib.Ctx):
    ctx.rule = ("token sequences <=3 (thorough 4, sampled in quick) over the 38-symbol token alphabet (incl. non-ASCII digits of categories No, Nd, Nl) "
                "at two positions; seeded random strings over all planes (incl. the digit / number-form blocks); span mutations of every shipped document; "
                "bracket/indent depth ladders; every number-ish atom (Nd / No / Nl / numeric Lo characters, ASCII spellings around the NUMBER grammar) in every "
                "atom position of a holographic pattern; 10 size-scaled families at n,2n,4n,8n with a "
                "deterministic cost; all four tools x flags on a sample; deep-nesting ladders (blocks / § sections / mixed, below, around and beyond the "
                "interpreter's recursion limit) through every tool, format and mode; non-trivial = any; distinct = distinct text")
    proj = X.setup(ctx, PROPS)
    # tools clause: guard-coverage theorems of the `tools` engine (regenerated Gen/Guards from the execute() bodies)
    ctx.translate("tools")
    ctx.lean("tools", ["Octave.Props.C20tools"], extra_targets=())
    findings = vlib.load_findings(ctx.prop)
    rng = random.Random(ctx.seed)
    wide = ctx.thorough or ctx.widen > 1
    texts = TC.token_sequences(3, rng, sample=None if wide else 6000)
    if ctx.thorough:
        texts += TC.token_sequences(4, rng, sample=200000)
    planes = [(0x20, 0x7E), (0x0, 0x1F), (0x7F, 0xFF), (0x100, 0x24F), (0x300, 0x36F), (0x2000, 0x206F), (0x2190, 0x22FF), (0x3000, 0x30FF),
              (0xE000, 0xE0FF), (0xFE00, 0xFE0F), (0x1F300, 0x1F64F), (0xE0100, 0xE01EF),
              # digits and other numeric characters: Arabic-Indic / Devanagari (Nd), super- and subscripts, number forms (No, Nl),
              # enclosed alphanumerics (No), fullwidth digits (Nd), mathematical digits (Nd, astral)
              (0x660, 0x669), (0x966, 0x96F), (0x2070, 0x209C), (0x2150, 0x218B), (0x2460, 0x24FF), (0xFF10, 0xFF19), (0x1D7CE, 0x1D7FF)]
    digit_tokens = ["²", "①", "₃", "½", "Ⅷ", "٣", "[²∧", "[①∧REQ]", "∧REQ]", "&", "FIELDS:\n  "]
    for _ in range(ctx.budget(2000, 40000)):
        k = rng.randint(0, 40)
        s = []
        for _ in range(k):
            if rng.random() < 0.45:
                s.append(rng.choice(TC.TOKENS + ["```", "`", '"', '"""', "\\", "{", "}", "<", ">", "%", "===", "\t", "\r", "META:", "===END===", "OCTAVE::5"] + digit_tokens))
            else:
                lo, hi = rng.choice(planes)
                c = rng.randint(lo, hi)
                s.append(chr(c) if not (0xD800 <= c <= 0xDFFF) else "x")
        texts.append("".join(s))
    corpus = X.corpus_texts()
    texts += corpus
    for _ in range(ctx.budget(1500, 40000)):
        t = rng.choice(corpus)
        for _ in range(rng.choice([1, 1, 2, 4])):
            t = TC.mutate(t, rng)
        texts.append(t)
    texts += bracket_cases() + regex_cases() + holographic_cases()
    ctx.count("stream:holographic_numberish_atoms", len(holographic_cases()))
    texts = list(dict.fromkeys(texts))
    # reader calls run under a deadline: a hang of the implementation is a violation of this property, not a timeout of the check
    chunks = [texts[i:i + 250] for i in range(0, len(texts), 250)]
    cres, unfinished = vlib.pmap_deadline(ctl_chunk, chunks, 240 if not ctx.thorough else 1800)
    hangs = 0
    for ci in unfinished:
        fixed = []
        for x in chunks[ci]:
            if hangs >= 3:
                fixed.append({"tokenize": None, "parse": None, "parse_with_warnings": None, "parse_meta_only": None})
                continue
            kind, val = vlib.run_with_timeout(ctl_chunk, [x], 10)
            if kind == "ok":
                fixed.append(val[0])
            else:
                hangs += 1
                fixed.append({"tokenize": "HANG", "parse": "HANG", "parse_with_warnings": "HANG", "parse_meta_only": "HANG"})
                ctx.failures.append({"case": {"text": x[:3000]}, "why": f"the reader did not return within 10 s on a {len(x)}-character input ({kind}): hang / super-linear blow-up",
                                     "why_class": "hang"})
        cres[ci] = fixed
    res = [r for ch in cres for r in ch]
    # correspondence (view: exception class of parse_with_warnings / parse / tokenize)
    short = [i for i, x in enumerate(texts) if len(x) < 4000]
    drv = proj.driver()
    mw = dict(zip(short, drv.batch_par([{"op": "parse_warn", "s": texts[i], "env": T.make_env(texts[i])} for i in short])))
    mt = dict(zip(short, drv.batch_par([{"op": "tokenize", "s": texts[i], "env": T.make_env(texts[i])} for i in short])))
    for i, (x, r) in enumerate(zip(texts, res)):
        case = {"text": x if len(x) < 3000 else x[:3000] + f"…(+{len(x) - 3000} chars)"}
        ctx.case({"text": x})
        for name, v in r.items():
            if v is not None and v not in ("LexerError", "ParserError", "HANG"):
                X.classify(ctx, findings, CLASSES, dict(case, entry=name), f"{name} raised {v} instead of returning or raising LexerError/ParserError", "foreign-exception:" + name)
            ctx.count(f"{name}:{'ok' if v is None else v.split(':')[0]}")
        if i in mw:
            for name, m in (("parse_with_warnings", mw[i]), ("tokenize", mt[i])):
                if T.model_unsupported(m):
                    ctx.count("model_unsupported")
                    continue
                mc = m["err"][0] if "err" in m else None
                if mc != r[name] and not (r[name] or "").startswith("FOREIGN") and r[name] not in ("RecursionError", "HANG"):
                    X.corr(ctx, dict(case, entry=name), "exception class (or none)", mc, r[name])
    # scaling on a deterministic cost
    base = 40 if not ctx.thorough else 200
    srows, sunf = vlib.pmap_deadline(scaling_chunk, [[(n, base)] for n in FAMILIES], 200 if not ctx.thorough else 1500)
    fams = list(FAMILIES)
    for ci in sunf:
        ctx.failures.append({"case": {"family": fams[ci], "text": FAMILIES[fams[ci]](3)}, "why": f"size-scaled family {fams[ci]} did not finish within the deadline: super-linear blow-up or hang",
                             "why_class": "scaling-hang:" + fams[ci]})
    rows = [r for ch in srows if ch for r in ch]
    ctx.extra["scaling_cost_line_events"] = rows
    for row in rows:
        for fn in ("tokenize", "parse_with_warnings"):
            c = row[fn]
            if None in c:
                ctx.notes.append("sys.monitoring unavailable: scaling clause not measured")
                continue
            ratios = [c[j + 1] / max(1, c[j]) for j in (1, 2)]   # 2n->4n and 4n->8n (the first step carries warm-up cost)
            ctx.count(f"scaling:{row['family']}:{fn}:max_ratio={max(ratios):.2f}")
            if max(ratios) > 2.3 and c[3] > 20000:
                X.classify(ctx, findings, CLASSES, {"family": row["family"], "entry": fn, "text": FAMILIES[row["family"]](3)},
                           f"{fn} cost grows super-linearly on family {row['family']}: line events {c} (ratios {[round(r, 2) for r in ratios]})", "scaling:" + row["family"])
    # known finding C20N1: replayed on a deterministic measure of the work done — the total number of line numbers carried by the
    # duplicate-key warnings for n, 2n, 4n duplicates of one key (exactly quadratic while the finding is open)
    for f in findings:
        if f["cls"] == "kf_many_duplicates_of_one_key":
            from octave_mcp.core.parser import parse_with_warnings
            sizes = []
            for n in (100, 200, 400):
                _d, ws = parse_with_warnings(FAMILIES["duplicate_keys"](n))
                sizes.append(sum(len(w.get("all_lines") or []) for w in ws if isinstance(w, dict) and w.get("subtype") == "duplicate_key"))
            if sizes[0] > 0 and sizes[2] / sizes[1] > 3.0 and sizes[1] / sizes[0] > 3.0:
                ctx.known_reproduced.append((f, f"line numbers carried by the warnings for 100/200/400 duplicates: {sizes}"))
            else:
                ctx.notes.append(f"known finding {f['id']} no longer reproduces on its witness ({sizes})")
    # tools never raise
    try:
        tt = importlib.import_module("harness.tools_total")
    except Exception as e:  # noqa: BLE001
        tt = None
        ctx.notes.append(f"tools_total harness not available yet ({type(e).__name__}): tool clause not exercised in this run")
    if tt is not None:
        # known findings of the tool clause: replay the recorded call
        for f in findings:
            w = f["witness"]
            if "tool" in w:
                bad = tt.replay(w)
                if bad is not None:
                    ctx.known_reproduced.append((f, bad[0]))
                else:
                    ctx.notes.append(f"known finding {f['id']} no longer reproduces on its witness")
        open_ids = {f["id"] for f in findings}
        # contents for the tool clause: raw texts, shipped documents, content-model documents (all constructs, PATTERN/REGEX keys,
        # zones, holographic-looking lists) and a pool of values that take unusual routes through warnings / repair logs
        pool = regex_cases()[:8] + ["REGEX::[alpha,beta]", "RULES::[PATTERN::[a,b]]", "PATTERN::\n```\nx\n```\n", "K::[REGEX::[\"x\"∧REQ]]", "PATTERN::[k::v]",
                "===D===\nMETA:\n  TYPE::[a,b]\n  CONTRACT::[FIELD[x]::REQ]\n===END===\n", "K::NAME{q}", "K::\"\"\"a\nb\"\"\" x", "K::1e400",
                "===D===\nMETA:\n  N:\n    A::[1,[2]]\n---\n§1::S\n  K::[\"e\"∧ENUM[a,b]→§T]\n===END===\n"]
        gen_docs = []
        for gi in range(ctx.budget(40, 600)):
            _d, ctext, _cr, ltext, _lr = TC.gen_case(ctx.seed, 100000 + gi)
            gen_docs += [ctext, ltext]
        sample = rng.sample(texts, min(len(texts), ctx.budget(40, 1500))) + corpus[:4] + pool + holographic_tool_pool() + META_LEXER_ERRORS_TOOLROUTE + gen_docs
        # the tools run in worker processes under a deadline: a call that does not return is a failure of the property
        # (with the content as replay), never a stuck check
        per = 12
        tchunks = [(ctx.seed, ci, sample[i:i + per], max(1, ctx.budget(700, 20000) * per // max(1, len(sample))))
                   for ci, i in enumerate(range(0, len(sample), per))]
        tres, tunf = vlib.pmap_deadline(tools_chunk, tchunks, 300 if not ctx.thorough else 2400)
        fails, stats = [], {"calls": 0, "by_tool": {}}
        for r in tres:
            if isinstance(r, dict) and "__worker_exception__" in r:
                raise vlib.Infra(f"tools_total worker failed: {r['__worker_exception__']}")
            if r is not None:
                fails += r[0]
                stats["calls"] += r[1]["calls"]
                for k, v in r[1]["by_tool"].items():
                    stats["by_tool"][k] = stats["by_tool"].get(k, 0) + v
        for ci in tunf[:4]:
            seed, idx, contents, share = tchunks[ci]
            for content in contents:
                kind, val = vlib.run_with_timeout(tools_chunk, (seed, idx, [content], share), 20)
                if kind == "timeout":
                    ctx.failures.append({"case": {"content": content, "tools": "octave_validate / octave_write / octave_eject / octave_compile_grammar on this content"},
                                         "why": "a tool call on this content did not return within 20 s (the same calls take milliseconds on neighbouring contents)",
                                         "why_class": "tool:hang"})
                    ctx.count("tool_hang")
                    break
            else:
                ctx.notes.append(f"tool chunk {ci} missed the pool deadline but each content finished alone (load)")
        ctx.extra["tool_calls"] = stats
        for fl in fails:
            case = {"tool": fl["tool"], "args": fl["args"], "replay": fl.get("replay")}
            ctx.case(case)
            if fl.get("known") in open_ids:
                ctx.known_hits[fl["known"]] = ctx.known_hits.get(fl["known"], 0) + 1
            else:
                ctx.failures.append({"case": case, "why": fl["why"], "why_class": "tool:" + fl["why_class"]})
        ladders_toolroute(ctx, findings)
    ctx.assumptions = ["CPython recursion limit and memory are runtime: block nesting beyond the documented cap of 100 is outside the statement",
                       "the timing clause is judged on a deterministic cost (executed line events), wall time is not used",
                       "proved for every input: lexer closure / progress / no hang (Props/C20), parser closure and parser fuel adequacy = no hang (Props/C20parser); the timing clause has no cost model in Lean and is decided by the deterministic-cost scaling families"]
