"""C08 — Validator verdicts follow the documented constraint semantics.

TEMPLATE check (engine `constraints`): shows the protocol every property module follows.
  translate -> lean build + audit -> known findings -> correspondence (model vs impl) -> oracle on real code.
"""
import itertools
import json

import vlib

PROJECT = "constraints"
PROPS = ["Octave.Props.C08"]
ANCHORS = [("octave_mcp/core/constraints.py", "ConstraintChain.evaluate"),
           ("octave_mcp/core/constraints.py", "ConstraintChain.detect_conflicts"),
           ("octave_mcp/core/constraints.py", "RequiredConstraint"), ("octave_mcp/core/constraints.py", "ConstConstraint"),
           ("octave_mcp/core/constraints.py", "EnumConstraint")]

# ---- encoding of values / constraints for the Lean driver ------------------------------------

def enc_val(v):
    if v is None or isinstance(v, bool):
        return v
    if isinstance(v, int):
        return {"i": str(v)}
    if isinstance(v, str):
        return {"s": v}
    if isinstance(v, list):
        return {"l": [enc_val(x) for x in v]}
    raise ValueError("unsupported")


def enc_c(c):
    k = c[0]
    if k in ("REQ", "OPT"):
        return {"k": k}
    if k == "CONST":
        return {"k": k, "v": enc_val(c[1])}
    if k == "ENUM":
        return {"k": k, "a": list(c[1])}
    raise ValueError(k)


def build_impl(c):
    from octave_mcp.core import constraints as C
    k = c[0]
    if k == "REQ":
        return C.RequiredConstraint()
    if k == "OPT":
        return C.OptionalConstraint()
    if k == "CONST":
        return C.ConstConstraint(const_value=c[1])
    if k == "ENUM":
        return C.EnumConstraint(allowed_values=list(c[1]))
    raise ValueError(k)


POOL_C = [("REQ",), ("OPT",), ("CONST", "ACTIVE"), ("CONST", "DONE"), ("CONST", 1), ("CONST", True), ("CONST", None),
          ("ENUM", ("ACTIVE", "ACTIVATING", "DONE")), ("ENUM", ("A", "B")), ("ENUM", ("1", "True"))]
POOL_V = [None, "", "ACTIVE", "ACTIV", "ACT", "CTIVE", "TIV", "DONE", "ONE", "D", "A", "x", "active", " ACTIVE", 1, 0, True, False, ["A"], [], ["A", 1]]


def impl_eval(chain, value):
    """Reference: independent reading of the documented semantics (not the model, not the code)."""
    from octave_mcp.core.constraints import ConstraintChain
    ch = ConstraintChain([build_impl(c) for c in chain])
    r = ch.evaluate(value, "F")
    return [e.code for e in r.errors]


def spec_accepts(chain, value):
    """Independent oracle written from the property statement: no conflict and every member accepts."""
    def pstr(v):
        return str(v)
    has_req = any(c[0] == "REQ" for c in chain)
    has_opt = any(c[0] == "OPT" for c in chain)
    consts = [c[1] for c in chain if c[0] == "CONST"]
    enums = [c[1] for c in chain if c[0] == "ENUM"]
    if has_req and has_opt:
        return False
    if any(a != b for a, b in itertools.combinations(consts, 2)):
        return False
    if any(pstr(c) not in e for e in enums for c in consts):
        return False
    for c in chain:
        if c[0] == "REQ" and (value is None or value == ""):
            return False
        if c[0] == "CONST" and value != c[1]:
            return False
        if c[0] == "ENUM":
            s = pstr(value)
            if s not in c[1] and len([a for a in c[1] if a.startswith(s)]) != 1:
                return False
    return True


def run(ctx: vlib.Ctx):
    ctx.rule = ("all chains of length <= L over the constraint pool x the value pool (exhaustive); a case is non-trivial "
                "when the chain is non-empty; distinct = distinct (chain, value)")
    ctx.translate(PROJECT)
    proj = ctx.lean(PROJECT, PROPS)
    if vlib.fingerprints_changed(ctx.prop, ANCHORS):
        ctx.widen = max(ctx.widen, 8)
        ctx.notes.append("fingerprint of a modelled function changed: search widened")
    L = 3 if ctx.thorough or ctx.widen > 1 else 2
    cases = []
    for n in range(0, L + 1):
        for chain in itertools.product(POOL_C, repeat=n):
            for v in POOL_V:
                cases.append((chain, v))
    drv = proj.driver()
    replies = drv.batch_par([{"op": "chain_eval", "chain": [enc_c(c) for c in ch], "value": enc_val(v)} for ch, v in cases])
    for (ch, v), rep in zip(cases, replies):
        case = {"chain": [list(map(lambda x: list(x) if isinstance(x, tuple) else x, c)) for c in ch], "value": v}
        ctx.case(case, nontrivial=len(ch) > 0)
        try:
            impl = impl_eval(ch, v)
            impl_exc = None
        except Exception as e:  # the property gives evaluate no licence to raise
            impl, impl_exc = None, f"{type(e).__name__}: {e}"
        # correspondence (view: list of error codes)
        if "unsupported" in rep:
            ctx.count("model_unsupported")
        elif impl_exc is None and rep["codes"] != impl:
            ctx.corr_disagreements.append({"case": case, "model": rep["codes"], "impl": impl, "view": "error codes"})
        # oracle on the real code
        want = spec_accepts(ch, v)
        if impl_exc is not None:
            ctx.failures.append({"case": case, "why": f"evaluate raised {impl_exc}", "why_class": "raise"})
        elif (impl == []) != want:
            ctx.failures.append({"case": case, "why": f"chain verdict valid={impl == []} but documented semantics say {want}",
                                 "why_class": "verdict", "observed": impl, "required_valid": want})
        ctx.count("valid" if impl == [] else "invalid:" + ",".join(impl or ["raise"]))
    ctx.trusted = ["Lean 4.33.0 kernel; axioms per theorem in coverage.theorems", "tools/translate.py (Gen/Constraints)",
                   "correspondence: tools/props/c08.py (differential, exhaustive over pools)",
                   "modelled, not verified: constraints.py evaluate/detect_conflicts control flow"]
    ctx.assumptions = ["Python == / str() on None/bool/int/str/list as transcribed in Model/Value.lean"]
