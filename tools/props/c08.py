"""C08 — Validator verdicts follow the documented constraint semantics (engine `constraints`).

Protocol (DESIGN.md §2): translate -> lean build + audit -> fingerprints -> known findings ->
  A. primitives     : model of float()/int()/datetime.fromisoformat/date regex  vs  CPython
  B. grid           : exhaustive chains of constructed constraint objects x value pool
                      implementation vs Lean model (view: valid flag + error codes / escaping exception)
                      implementation vs the independent Python oracle, and vs the Lean `Spec.chainAccepts`
  C. parse          : exhaustive chain *texts* through ConstraintChain.parse(text).evaluate(v)
                      (parsed structure + verdicts vs model; verdicts vs oracle for texts with a documented reading)
  D. document level : generated schemas x instance blocks through Validator.validate (vs model, vs oracle)
                      and through octave_validate with the schema placed on the schema search path of a temp cwd
The oracle always runs on the real code; failures are classified by the known-finding class predicates.
"""
from __future__ import annotations

import asyncio
import itertools
import json
import math
import os
import random
import re
import shutil
import tempfile
import warnings

import vlib
from harness import constraints_lib as CL

warnings.filterwarnings("ignore", category=FutureWarning)      # re: "possible nested set" in pool patterns

PROJECT = "constraints"
PROPS = ["Octave.Props.C08", "Octave.Props.C08range"]
CON = "octave_mcp/core/constraints.py"
VAL = "octave_mcp/core/validator.py"
ANCHORS = ([(CON, q) for q in [
    "RequiredConstraint", "OptionalConstraint", "ConstConstraint", "EnumConstraint", "TypeConstraint", "RegexConstraint",
    "DirConstraint", "AppendOnlyConstraint", "RangeConstraint", "MaxLengthConstraint", "MinLengthConstraint", "DateConstraint",
    "Iso8601Constraint", "LiteralConstraint", "LangConstraint", "_parse_atom", "ConstraintChain._split_parts",
    "ConstraintChain.parse", "ConstraintChain.evaluate", "ConstraintChain.detect_conflicts", "ValidationResult", "ValidationError"]]
    + [(VAL, q) for q in ["Validator._validate_section", "Validator._validate_unknown_fields", "Validator._to_python_value",
                          "Validator.validate", "UnknownFieldPolicy", "ValidationError"]]
    + [("octave_mcp/core/ast_nodes.py", "LiteralZoneValue"), ("octave_mcp/core/holographic.py", "parse_holographic_pattern"),
       ("octave_mcp/core/schema_extractor.py", "_extract_policy"), ("octave_mcp/core/schema_extractor.py", "_extract_fields"),
       ("octave_mcp/core/schema_extractor.py", "_parse_field_assignment"), ("octave_mcp/schemas/loader.py", "load_schema_by_name"),
       ("octave_mcp/schemas/loader.py", "get_schema_search_paths")])

MAX_RECORDED = 40


class DistinctCounter:
    """Stands in for Ctx.distinct: exhaustive enumerations are distinct by construction, so they are
    counted (`bulk`) instead of hashing tens of millions of cases; sampled cases are hashed as usual."""

    def __init__(self):
        self.n = 0
        self.seen = set()

    def add(self, h):
        self.seen.add(h)

    def bulk(self, n):
        self.n += n

    def __len__(self):
        return self.n + len(self.seen)


# ================================================================================================
# shared helpers
# ================================================================================================

def impl_chain_eval(objs, v):
    """(codes, exc) of ConstraintChain(objs).evaluate(v)."""
    from octave_mcp.core.constraints import ConstraintChain
    try:
        r = ConstraintChain(objs).evaluate(v, "F")
    except Exception as e:                                   # no licence to raise
        return None, type(e).__name__
    codes = [e.code for e in r.errors]
    if r.valid != (codes == []):
        return codes + ["<valid-flag-inconsistent>"], None
    return codes, None


def cell_of(codes, exc):
    return ("!" + exc) if exc is not None else ",".join(codes)


def classify(findings, chain, v):
    """id of the open known-finding class the failing input falls in, else None."""
    for f in findings:
        pred = CL.CLASS_PREDICATES.get(f["cls"])
        if pred is not None and pred(chain, v):
            return f["id"]
    return None


_POOLS = {}


def pools(name):
    """(specs, objs) of a constraint pool / decoded values of a value pool — cached per process."""
    if name in _POOLS:
        return _POOLS[name]
    if name.startswith("C:"):
        specs = []
        for part in name[2:].split("+"):
            specs += {"core": CL.POOL_C_CORE, "more": CL.POOL_C_MORE, "thorough": CL.POOL_C_THOROUGH}[part]
        res = (specs, [CL.build_impl(c) for c in specs])
    else:
        enc = {"V": CL.POOL_V, "Vs": CL.POOL_V_SMALL, "Vt": CL.POOL_V_TINY}[name]
        res = (enc, [CL.dec_val(e) for e in enc])
    _POOLS[name] = res
    return res


def grid_env(specs, values):
    pats = [c[1] for c in specs if c[0] == "REGEX"]
    rows, ok = CL.re_tables(pats, values)
    return {"re": rows, "reok": ok, "fr": []}


# ================================================================================================
# B. grid worker
# ================================================================================================

def grid_worker(task):
    exe, cname, vname, chains, findings = task
    return grid_worker_pools(exe, cname, vname, chains, findings)


def grid_worker_pools(exe, cname, vname, chains, findings):
    specs, objs = pools(cname)
    venc, vals = pools(vname)
    drv = vlib.Driver(exe)
    req = {"op": "grid", "constraints": [CL.obj_to_driver(o) for o in objs], "values": venc,
           "chains": [list(ch) for ch in chains], "env": grid_env(specs, vals)}
    rep = drv.batch([req])[0]
    if "rows" not in rep:
        raise vlib.Infra("grid reply: " + json.dumps(rep)[:300])
    out = {"n": 0, "unsupported": 0, "dontcare": 0, "dist": {}, "disagree": [], "fail": [], "known": {}, "sample": None}
    dist = out["dist"]
    member = {}                                            # (ci, vi) -> oracle verdict of one member
    for ch, row in zip(chains, rep["rows"]):
        cells = row.split(";")
        chain_specs = [specs[i] for i in ch]
        chain_objs = [objs[i] for i in ch]
        conflict = CL.oracle_conflict(chain_specs)
        for vi, v in enumerate(vals):
            out["n"] += 1
            codes, exc = impl_chain_eval(chain_objs, v)
            icell = cell_of(codes, exc)
            key = "raise:" + exc if exc else ("valid" if not codes else "invalid:" + ",".join(sorted(set(codes))))
            dist[key] = dist.get(key, 0) + 1
            mcell = cells[vi]
            case = None
            if mcell == "?":
                out["unsupported"] += 1
                spec = None
            else:
                mres, _, sbit = mcell.rpartition("/")
                spec = sbit == "1"
                if mres != icell and len(out["disagree"]) < MAX_RECORDED:
                    case = {"kind": "chain", "chain": chain_specs, "value": venc[vi]}
                    out["disagree"].append({"case": case, "model": mres, "impl": icell, "view": "valid flag + error codes / exception"})
            # oracle (independent reference)
            if conflict:
                want = False
            else:
                want, dc = True, False
                for ci in ch:
                    k = (ci, vi)
                    if k not in member:
                        member[k] = CL.oracle_member(specs[ci], v)
                    r = member[k]
                    if r is False:
                        want = False
                        break
                    if r is None:
                        dc = True
                if want and dc:
                    want = None
            if want is None:
                out["dontcare"] += 1
            why = None
            if exc is not None:
                why = ("raise", f"evaluate raised {exc}")
            elif want is not None and (codes == []) != want:
                why = ("verdict", f"chain verdict valid={codes == []} codes={codes} but the documented semantics say valid={want}")
            elif spec is not None and (codes == []) != spec and not CL.spec_exempt(chain_specs, v):
                why = ("lean-spec", f"chain verdict valid={codes == []} codes={codes} but Lean Spec.chainAccepts says {spec}")
            if why:
                fid = classify(findings, chain_specs, v)
                if fid:
                    out["known"][fid] = out["known"].get(fid, 0) + 1
                elif len(out["fail"]) < MAX_RECORDED:
                    case = case or {"kind": "chain", "chain": chain_specs, "value": venc[vi]}
                    out["fail"].append({"case": case, "why": why[1], "why_class": why[0], "observed": icell, "required_valid": want})
        if out["sample"] is None and ch:
            out["sample"] = {"kind": "chain", "chain": chain_specs, "value": venc[len(ch) % len(venc)]}
    return out


def chunked(it, n):
    buf = []
    for x in it:
        buf.append(x)
        if len(buf) >= n:
            yield buf
            buf = []
    if buf:
        yield buf


def merge(ctx, outs, label):
    total = 0
    for o in outs:
        total += o["n"]
        for k, n in o["dist"].items():
            ctx.count(f"{label}:{k}", n)
        ctx.count(f"{label}:model_unsupported", o.get("unsupported", 0))
        ctx.count(f"{label}:oracle_dontcare", o.get("dontcare", 0))
        for d in o["disagree"]:
            if len(ctx.corr_disagreements) < MAX_RECORDED:
                ctx.corr_disagreements.append(d)
        for f in o["fail"]:
            if len(ctx.failures) < MAX_RECORDED:
                ctx.failures.append(f)
        for fid, n in o["known"].items():
            ctx.known_hits[fid] = ctx.known_hits.get(fid, 0) + n
        if o.get("sample") is not None and len(ctx.samples) < 8 and ctx.rng.random() < 0.05:
            ctx.samples.append(o["sample"])
    ctx.evaluations += total
    ctx.distinct.bulk(total)
    ctx.count(f"{label}:cases", total)
    return total


# ================================================================================================
# C. parse worker
# ================================================================================================

# documented reading of well-formed part texts: text -> portable spec | "ERR" (the documentation says: reject)
T_SPEC = {
    "REQ": ["REQ"], "OPT": ["OPT"], "DIR": ["DIR"], "APPEND_ONLY": ["APPEND_ONLY"], "DATE": ["DATE"], "ISO8601": ["ISO8601"],
    "TYPE[LITERAL]": ["LITERAL"], "LANG[python]": ["LANG", "python"], "LANG[Python]": ["LANG", "python"],
    "CONST[ACTIVE]": ["CONST", CL.S("ACTIVE")], "CONST[1]": ["CONST", CL.I(1)], "CONST[1.0]": ["CONST", CL.F(1.0)],
    "CONST[true]": ["CONST", True], "CONST[null]": ["CONST", None], 'CONST["a b"]': ["CONST", CL.S("a b")],
    "ENUM[ACTIVE,ACTIVATING,DONE]": ["ENUM", [CL.S("ACTIVE"), CL.S("ACTIVATING"), CL.S("DONE")]], "ENUM[A, B]": ["ENUM", [CL.S("A"), CL.S("B")]],
    "ENUM[1,true,null]": ["ENUM", [CL.I(1), True, None]],
    "TYPE[STRING]": ["TYPE", "STRING"], "TYPE(NUMBER)": ["TYPE", "NUMBER"], "TYPE[BOOLEAN]": ["TYPE", "BOOLEAN"], "TYPE[LIST]": ["TYPE", "LIST"],
    'REGEX["^[a-z]+$"]': ["REGEX", "^[a-z]+$"], "REGEX[^a$]": ["REGEX", "^a$"],
    "RANGE[1,5]": ["RANGE", CL.I(1), CL.I(5)], "RANGE[-1.5,2.5]": ["RANGE", CL.F(-1.5), CL.F(2.5)],
    "MAX_LENGTH[3]": ["MAX_LENGTH", 3], "MIN_LENGTH[3]": ["MIN_LENGTH", 3],
    "RANGE[5,1]": "ERR", "RANGE[1]": "ERR", "RANGE[a,5]": "ERR", "MAX_LENGTH[-1]": "ERR", "LANG[]": "ERR", "FOO": "ERR", "req": "ERR",
    "REGEX[(]": "ERR",
    "RANGE[5,5]": ["RANGE", CL.I(5), CL.I(5)], "RANGE[ 1 , 5 ]": ["RANGE", CL.I(1), CL.I(5)], "ENUM[A]": ["ENUM", [CL.S("A")]],
    "MAX_LENGTH[0]": ["MAX_LENGTH", 0], "ENUM[ A , B ]": ["ENUM", [CL.S("A"), CL.S("B")]],
    # _parse_atom docstring: "Numbers: 42, 3.14, 1e10, -5 -> int/float", quoted strings, booleans, null
    "CONST[1e5]": ["CONST", CL.F(1e5)], "CONST[1E5]": ["CONST", CL.F(1e5)], "CONST[.5]": ["CONST", CL.F(0.5)], "CONST[5.]": ["CONST", CL.F(5.0)],
    "CONST[+5]": ["CONST", CL.I(5)], "CONST[-0]": ["CONST", CL.I(0)], "CONST[ null ]": ["CONST", None], "CONST[ x ]": ["CONST", CL.S("x")],
    "CONST['q']": ["CONST", CL.S("q")], "ENUM[1e0]": ["ENUM", [CL.F(1.0)]], "ENUM[null,false]": ["ENUM", [None, False]],
    "RANGE[1.0,5]": ["RANGE", CL.F(1.0), CL.I(5)], "RANGE[-1e400,1e400]": ["RANGE", CL.F(-math.inf), CL.F(math.inf)],
    "MIN_LENGTH[+3]": ["MIN_LENGTH", 3], "MAX_LENGTH[ 3 ]": ["MAX_LENGTH", 3], "TYPE[]": ["TYPE", ""], "RANGE[1,5,9]": "ERR",
    "MAX_LENGTH[3.0]": "ERR", "MAX_LENGTH[null]": "ERR", "LANG[ ]": "ERR", "RANGE[null,5]": "ERR", 'RANGE["1",5]': "ERR",
}


def parse_worker(task):
    exe, vname, texts, findings = task          # texts: [(text, [part texts] | None)]
    venc, vals = pools(vname)
    from octave_mcp.core.constraints import ConstraintChain
    drv = vlib.Driver(exe)
    pats, fr = [], []
    for t, _ in texts:
        for p in CL.regex_candidates(t):
            if p not in pats:
                pats.append(p)
        fr += CL.float_repr_table(t)
    rows, ok = CL.re_tables(pats, vals)
    rep = drv.batch([{"op": "parse_grid", "texts": [t for t, _ in texts], "values": venc, "env": {"re": rows, "reok": ok, "fr": fr}}])[0]
    if "rows" not in rep:
        raise vlib.Infra("parse_grid reply: " + json.dumps(rep)[:300])
    out = {"n": 0, "unsupported": 0, "dontcare": 0, "dist": {}, "disagree": [], "fail": [], "known": {}, "sample": None}
    dist = out["dist"]

    def bump(k, n=1):
        dist[k] = dist.get(k, 0) + n

    for (text, parts), mrow in zip(texts, rep["rows"]):
        # documented reading, if every part has one
        want_specs = None
        if parts is not None:
            rs = [T_SPEC.get(p) for p in parts]
            if any(r == "ERR" for r in rs) and all(r is not None for r in rs):
                want_specs = "ERR"
            elif all(r is not None for r in rs):
                want_specs = rs
        try:
            chain = ConstraintChain.parse(text)
            perr = None
        except ValueError:
            chain, perr = None, "ValueError"
        except Exception as e:
            chain, perr = None, type(e).__name__
        case0 = {"kind": "parse", "text": text}
        if perr is not None:
            out["n"] += 1
            bump("parse:" + perr)
            if perr != "ValueError" and len(out["fail"]) < MAX_RECORDED:
                out["fail"].append({"case": case0, "why": f"ConstraintChain.parse raised {perr} (only ValueError is documented)", "why_class": "parse-raise"})
            if "u" in mrow:
                out["unsupported"] += 1
            elif mrow.get("p") != perr and len(out["disagree"]) < MAX_RECORDED:
                out["disagree"].append({"case": case0, "model": mrow, "impl": {"p": perr}, "view": "parse outcome"})
            if isinstance(want_specs, list) and len(out["fail"]) < MAX_RECORDED:
                out["fail"].append({"case": case0, "why": f"well-formed chain text rejected by parse ({perr})", "why_class": "parse-reject"})
            continue
        bump("parse:ok")
        if want_specs == "ERR" and len(out["fail"]) < MAX_RECORDED:
            out["fail"].append({"case": case0, "why": "chain text with an invalid member was accepted by parse", "why_class": "parse-accept"})
        try:
            impl_struct = [CL.norm_driver_c(CL.obj_to_driver(o)) for o in chain.constraints]
        except ValueError as e:
            impl_struct = ["<" + str(e) + ">"]
        mcells = None
        if "u" in mrow:
            out["unsupported"] += 1
        elif "p" in mrow:
            if len(out["disagree"]) < MAX_RECORDED:
                out["disagree"].append({"case": case0, "model": mrow, "impl": impl_struct, "view": "parse outcome"})
        else:
            mstruct = [CL.norm_driver_c(c) for c in mrow["c"]]
            if mstruct != impl_struct and len(out["disagree"]) < MAX_RECORDED:
                out["disagree"].append({"case": case0, "model": mstruct, "impl": impl_struct, "view": "parsed constraint list"})
            mcells = mrow["r"].split(";")
        if isinstance(want_specs, list):
            want_struct = [CL.norm_driver_c(CL.obj_to_driver(CL.build_impl(c))) for c in want_specs]
            if want_struct != impl_struct and len(out["fail"]) < MAX_RECORDED:
                out["fail"].append({"case": case0, "why": f"parse produced {impl_struct}, the documented reading is {want_struct}", "why_class": "parse-structure"})
        for vi, v in enumerate(vals):
            out["n"] += 1
            codes, exc = impl_chain_eval(chain.constraints, v)
            icell = cell_of(codes, exc)
            bump("raise:" + exc if exc else ("valid" if not codes else "invalid"))
            case = {"kind": "parse", "text": text, "value": venc[vi]}
            spec = None
            if mcells is not None:
                if mcells[vi] == "?":
                    out["unsupported"] += 1
                else:
                    mres, _, sbit = mcells[vi].rpartition("/")
                    spec = sbit == "1"
                    if mres != icell and len(out["disagree"]) < MAX_RECORDED:
                        out["disagree"].append({"case": case, "model": mres, "impl": icell, "view": "valid flag + error codes / exception"})
            want = CL.oracle_chain(want_specs, v) if isinstance(want_specs, list) else None
            if want is None:
                out["dontcare"] += 1
            why = None
            if exc is not None:
                why = ("raise", f"evaluate raised {exc}")
            elif want is not None and (codes == []) != want:
                why = ("verdict", f"parse(text).evaluate: valid={codes == []} codes={codes} but the documented semantics say valid={want}")
            elif spec is not None and isinstance(want_specs, list) and (codes == []) != spec and not CL.spec_exempt(want_specs, v):
                why = ("lean-spec", f"parse(text).evaluate: valid={codes == []} but Lean Spec.chainAccepts says {spec}")
            if why:
                cl_chain = want_specs if isinstance(want_specs, list) else [json.loads(json.dumps(spec_of_obj(o))) for o in chain.constraints]
                fid = classify(findings, cl_chain, v)
                if fid:
                    out["known"][fid] = out["known"].get(fid, 0) + 1
                elif len(out["fail"]) < MAX_RECORDED:
                    out["fail"].append({"case": case, "why": why[1], "why_class": why[0], "observed": icell, "required_valid": want})
        if out["sample"] is None:
            out["sample"] = {"kind": "parse", "text": text, "value": venc[0]}
    return out


def spec_of_obj(o):
    """portable spec of a real constraint object (for the class predicates)."""
    d = CL.obj_to_driver(o)
    k = d["k"]
    if k == "CONST":
        return ["CONST", d["v"]]
    if k == "ENUM":
        return ["ENUM", [CL.S(a) for a in d["a"]]]
    if k in ("TYPE",):
        return ["TYPE", d["t"]]
    if k == "REGEX":
        return ["REGEX", d["p"]]
    if k == "RANGE":
        return ["RANGE", CL.enc_val(o.min_value), CL.enc_val(o.max_value)]
    if k in ("MAX_LENGTH", "MIN_LENGTH"):
        return [k, int(d["n"])]
    if k == "LANG":
        return ["LANG", d["t"]]
    return [k]


# ================================================================================================
# D. document level
# ================================================================================================

ENUM3 = ["ENUM", [CL.S("ACTIVE"), CL.S("ACTIVATING"), CL.S("DONE")]]
DOC_CHAINS = [
    None,                                                        # field without a holographic pattern
    [["REQ"]],
    [["OPT"]],
    [["REQ"], ENUM3],
    [["OPT"], ["RANGE", CL.I(1), CL.I(5)]],
    [["REQ"], ["TYPE", "STRING"], ["MAX_LENGTH", 3]],
    [["CONST", CL.S("X")]],
    [["REQ"], ["OPT"]],                                          # declared conflict
    [["DATE"]],
    [["REQ"], ["TYPE", "LIST"], ["MIN_LENGTH", 1]],
    [["REGEX", "^\\d{3}$"]],                                     # patterns with backslash escapes, through the schema-document route too
    [["REQ"], ["REGEX", "^[a-z]+\\.[a-z]+$"]],
    [["OPT"], ["REGEX", "^\\w+$"], ["MAX_LENGTH", 4]],
]
DOC_CHAIN_TEXT = [None, "REQ", "OPT", "REQ∧ENUM[ACTIVE,ACTIVATING,DONE]", "OPT∧RANGE[1,5]", "REQ∧TYPE[STRING]∧MAX_LENGTH[3]", "CONST[X]", "REQ∧OPT",
                  "DATE", "REQ∧TYPE[LIST]∧MIN_LENGTH[1]", 'REGEX["^\\d{3}$"]', 'REQ∧REGEX["^[a-z]+\\.[a-z]+$"]', 'OPT∧REGEX["^\\w+$"]∧MAX_LENGTH[4]']
ABSENT = "<absent>"
# field states: absent | one assignment | two assignments (the last one wins)
DOC_STATES = [ABSENT, [None], [CL.S("ACTIVE")], [CL.S("ACT")], [CL.S("abcd")], [CL.I(3)], [CL.I(9)], [CL.S("X")], [CL.L(CL.S("a"))], [CL.L()],
              [CL.S("2024-02-30")], [CL.S("2024-01-15")], [CL.S("")], [CL.S("ACTIVE"), CL.I(9)], [CL.I(9), CL.S("ACTIVE")], [CL.S("nan")],
              [CL.S("123")], [CL.S("ddd")], [CL.S("a.b")], [CL.S("aXb")], [CL.S("ab_1")]]
DOC_POLICIES = ["REJECT", "WARN", "IGNORE", "BOGUS", None]
DOC_EXTRAS = [[], ["ZED"], ["ZED", "ALPHA"], ["ALPHA", "ALPHA"]]
FIELD_NAMES = ["B_FIELD", "A_FIELD", "C_FIELD"]
SECTION = "SEC"


def doc_seq(states, extras):
    """the Assignment children in document order: first extra, the fields' assignments, the other extras."""
    ex = [(k, CL.I(i + 1)) for i, k in enumerate(extras)]
    seq = ex[:1]
    for name, st in zip(FIELD_NAMES, states):
        if st != ABSENT:
            for e in st:
                seq.append((name, e))
    return seq + ex[1:]


def doc_build(chains, policy, states, extras):
    """Real objects: (Document, {section: SchemaDefinition}) and the model request."""
    from octave_mcp.core.ast_nodes import Assignment, Block, Document, ListValue
    from octave_mcp.core.constraints import ConstraintChain
    from octave_mcp.core.holographic import HolographicPattern
    from octave_mcp.core.schema_extractor import FieldDefinition, PolicyDefinition, SchemaDefinition

    def ast_val(e):
        v = CL.dec_val(e)
        if isinstance(v, list):
            return ListValue(items=[ast_val(x) if isinstance(x, dict) and "l" in x else CL.dec_val(x) for x in e["l"]])
        return v

    fields, mfields = {}, []
    for name, ch in zip(FIELD_NAMES, chains):
        if ch is None:
            fields[name] = FieldDefinition(name=name, pattern=None, raw_value="plain")
            mfields.append([name, None])
        else:
            objs = [CL.build_impl(c) for c in ch]
            fields[name] = FieldDefinition(name=name, pattern=HolographicPattern(example="x", constraints=ConstraintChain(objs), target=None))
            mfields.append([name, [CL.obj_to_driver(o) for o in objs]])
    schema = SchemaDefinition(name=SECTION, version="1.0", fields=fields)
    if policy is None:
        schema.policy = None
    else:
        schema.policy = PolicyDefinition(unknown_fields=policy)
    children, mchildren = [], []
    for k, e in doc_seq(states, extras):
        children.append(Assignment(key=k, value=ast_val(e)))
        mchildren.append([k, e])
    doc = Document(name="DOC", sections=[Block(key=SECTION, children=children)])
    pats = [c[1] for ch in chains if ch for c in ch if c[0] == "REGEX"]
    rows, ok = CL.re_tables(pats, [CL.dec_val(e) for _k, e in doc_seq(states, extras)]) if pats else ([], [])
    req = {"op": "validate_section", "key": SECTION, "children": mchildren, "policy": policy if policy is not None else "REJECT",
           "fields": mfields, "env": {"re": rows, "reok": ok, "fr": []}}
    return doc, {SECTION: schema}, req


def doc_oracle(chains, policy, states, extras, entries):
    """Independent reading of the document-level clauses. entries: [(code, path, severity)].
    Returns a list of complaints (empty = fine)."""
    bad = []

    def named(path, sev=None):
        return [e for e in entries if e[1] == path and (sev is None or e[2] == sev)]

    seq = doc_seq(states, extras)
    known = FIELD_NAMES[:len(chains)]
    for name, ch in zip(known, chains):
        path = f"{SECTION}.{name}"
        if ch is None:
            continue
        assigned = [e for (k, e) in seq if k == name]
        value = CL.dec_val(assigned[-1]) if assigned else None          # a later assignment replaces an earlier one (dict)
        if len(assigned) > 1:
            # duplicated field: the statement does not say which occurrence is validated; judge only when it does not matter
            vs = [CL.dec_val(e) for e in assigned]
            verdicts = {("none" if x is None else CL.oracle_chain(ch, x)) for x in vs}
            if len(verdicts) > 1:
                continue
        has_req = any(c[0] == "REQ" for c in ch)
        if has_req and value is None:
            if not named(path, "error"):
                bad.append(f"required field {name} is missing but no error names {path}")
            continue
        if value is None:
            if named(path):
                bad.append(f"absent optional field {name} produced {named(path)}")
            continue
        want = CL.oracle_chain(ch, value)
        if want is True and named(path, "error"):
            bad.append(f"field {name}={value!r} satisfies its chain but errors were reported: {named(path)}")
        if want is False and not named(path, "error"):
            bad.append(f"field {name}={value!r} violates its chain but no error names {path}")
    for k in {k for (k, _e) in seq}:
        if k in known:
            continue
        path = f"{SECTION}.{k}"
        if policy == "REJECT":
            if not named(path, "error"):
                bad.append(f"unknown field {k} under REJECT: no error names {path}")
        elif policy == "WARN":
            if not named(path, "warning"):
                bad.append(f"unknown field {k} under WARN: no warning names {path}")
            if named(path, "error"):
                bad.append(f"unknown field {k} under WARN produced an error: {named(path, 'error')}")
        elif policy == "IGNORE":
            if named(path):
                bad.append(f"unknown field {k} under IGNORE produced {named(path)}")
    return bad


def doc_classify(findings, chains, states, extras=()):
    seq = doc_seq(states, extras)
    for name, ch in zip(FIELD_NAMES, chains):
        assigned = [e for (k, e) in seq if k == name]
        if ch is not None and assigned:
            fid = classify(findings, ch, CL.dec_val(assigned[-1]))
            if fid:
                return fid
    return None


def doc_worker(task):
    exe, cases, findings = task
    from octave_mcp.core.validator import Validator
    drv = vlib.Driver(exe)
    built = [doc_build(*c) for c in cases]
    reps = drv.batch([b[2] for b in built])
    out = {"n": 0, "unsupported": 0, "dontcare": 0, "dist": {}, "disagree": [], "fail": [], "known": {}, "sample": None}
    dist = out["dist"]
    for c, (doc, sschemas, _req), rep in zip(cases, built, reps):
        out["n"] += 1
        chains, policy, states, extras = c
        case = {"kind": "doc", "chains": chains, "policy": policy, "states": states, "extras": extras}
        try:
            errs = Validator().validate(doc, strict=False, section_schemas=sschemas)
            entries = sorted((e.code, e.field_path, e.severity) for e in errs)
            exc = None
        except Exception as e:
            entries, exc = None, type(e).__name__
        for k in (["raise:" + exc] if exc else (["entry:" + e[0] for e in entries] or ["no-entries"])):
            dist[k] = dist.get(k, 0) + 1
        if "unsupported" in rep:
            out["unsupported"] += 1
        else:
            m = ("!" + rep["raised"]) if "raised" in rep else sorted(tuple(x) for x in rep["errors"])
            i = ("!" + exc) if exc else entries
            if m != i and len(out["disagree"]) < MAX_RECORDED:
                out["disagree"].append({"case": case, "model": m, "impl": i, "view": "sorted (code, field_path, severity)"})
        complaints = [f"Validator.validate raised {exc}"] if exc else doc_oracle(chains, policy, states, extras, entries)
        if complaints:
            fid = doc_classify(findings, chains, states, extras)
            if fid:
                out["known"][fid] = out["known"].get(fid, 0) + 1
            elif len(out["fail"]) < MAX_RECORDED:
                out["fail"].append({"case": case, "why": complaints[0], "why_class": "document:" + ("raise" if exc else complaints[0].split(":")[0][:40]),
                                    "observed": entries if entries is not None else exc})
        if out["sample"] is None:
            out["sample"] = case
    return out


# ---- tool level: octave_validate with the schema on the search path of a temp cwd -----------------

def val_text(e):
    """OCTAVE spelling of a value (None if the value has no faithful spelling we rely on)."""
    if e is None:
        return "null"
    if e is True:
        return "true"
    if e is False:
        return "false"
    if "i" in e:
        return e["i"]
    if "s" in e:
        s = e["s"]
        if re.fullmatch(r"[A-Za-z][A-Za-z_]*", s) and s not in ("true", "false", "null"):
            return s
        if '"' in s or "\\" in s or "\n" in s:
            return None
        return '"' + s + '"'
    if "l" in e:
        parts = [val_text(x) for x in e["l"]]
        return None if any(p is None for p in parts) else "[" + ",".join(parts) + "]"
    return None


def tool_worker(task):
    cases, findings, widx = task
    from octave_mcp.core.parser import parse
    from octave_mcp.core.validator import Validator
    from octave_mcp.mcp.validate import ValidateTool
    from octave_mcp.schemas.loader import load_schema_by_name
    out = {"n": 0, "unsupported": 0, "dontcare": 0, "dist": {}, "disagree": [], "fail": [], "known": {}, "sample": None}
    dist = out["dist"]

    def bump(k):
        dist[k] = dist.get(k, 0) + 1

    tmp = tempfile.mkdtemp(prefix=f"c08_{os.getpid()}_")
    old = os.getcwd()
    try:
        os.makedirs(os.path.join(tmp, "specs", "schemas"))
        os.chdir(tmp)
        schema_cache = {}
        for (cidx, policy, states, extras) in cases:
            chains = [DOC_CHAINS[i] for i in cidx]
            case = {"kind": "tool", "chain_idx": list(cidx), "policy": policy, "states": states, "extras": extras}
            skey = (tuple(cidx), policy)
            if skey not in schema_cache:
                name = f"C08W{widx}S{len(schema_cache)}"
                lines = [f"==={name}===", "META:", "  TYPE::PROTOCOL_DEFINITION", '  VERSION::"1.0"', "", "POLICY:", '  VERSION::"1.0"',
                         f"  UNKNOWN_FIELDS::{policy}", "", "FIELDS:"]
                for fname, ci in zip(FIELD_NAMES, cidx):
                    t = DOC_CHAIN_TEXT[ci]
                    lines.append(f"  {fname}::plain" if t is None else f'  {fname}::["x"∧{t}]')
                lines.append("===END===")
                with open(os.path.join(tmp, "specs", "schemas", name.lower() + ".oct.md"), "w", encoding="utf-8") as fh:
                    fh.write("\n".join(lines) + "\n")
                faithful = False
                try:
                    sd = load_schema_by_name(name)
                    got = [(k, (fd.pattern.constraints.to_string() if fd.pattern and fd.pattern.constraints else None), fd.pattern.target if fd.pattern else None)
                           for k, fd in sd.fields.items()]
                    exp = []
                    from octave_mcp.core.constraints import ConstraintChain
                    for fname, ch in zip(FIELD_NAMES, chains):
                        exp.append((fname, None if ch is None else ConstraintChain([CL.build_impl(c) for c in ch]).to_string(), None))
                    faithful = got == exp and sd.policy.unknown_fields == policy and sd.name == name
                except Exception:
                    faithful = False
                schema_cache[skey] = (name, faithful)
            name, faithful = schema_cache[skey]
            if not faithful:
                bump("tool:schema_text_not_faithful")
                # the chain the schema-document route hands to the validator is not the chain written in the schema text
                if len(out["disagree"]) < MAX_RECORDED:
                    try:
                        sd = load_schema_by_name(name)
                        got = [(k, (fd.pattern.constraints.to_string() if fd.pattern and fd.pattern.constraints else None)) for k, fd in sd.fields.items()]
                    except Exception as e:
                        got = "!" + type(e).__name__
                    out["disagree"].append({"case": case, "model": [DOC_CHAIN_TEXT[i] for i in cidx], "impl": got,
                                            "view": "constraint chains of a schema document as read by load_schema_by_name vs the chains written (ConstraintChain objects)"})
                # no `continue`: the instance is still judged, against the chains as WRITTEN (that is what the schema's author declared)
            # the instance document
            lines, ok, seq = ["===DOC===", f"{name}:"], True, doc_seq(states, extras)
            for k, e in seq:
                t = val_text(e)
                if t is None:
                    ok = False
                    break
                lines.append(f"  {k}::{t}")
            if not ok or not seq:
                bump("tool:no_faithful_spelling")
                continue
            lines.append("===END===")
            text = "\n".join(lines) + "\n"
            try:
                d = parse(text)
                blk = [s for s in d.sections if getattr(s, "key", None) == name][0]
                got = [(ch.key, CL.enc_val(Validator()._to_python_value(ch.value))) for ch in blk.children]
                if got != [(k, e) for k, e in seq]:
                    bump("tool:doc_text_not_faithful")
                    continue
            except Exception:
                bump("tool:doc_text_not_faithful")
                continue
            out["n"] += 1
            try:
                res = asyncio.run(ValidateTool().execute(content=text, schema=name))
                exc = None
            except Exception as e:
                res, exc = None, type(e).__name__
            if exc:
                bump("tool:raise:" + exc)
                fid = doc_classify(findings, chains, states, extras)
                if fid:
                    out["known"][fid] = out["known"].get(fid, 0) + 1
                elif len(out["fail"]) < MAX_RECORDED:
                    out["fail"].append({"case": case, "why": f"octave_validate raised {exc}", "why_class": "tool:raise"})
                continue
            status = res.get("validation_status")
            bump("tool:" + str(status))
            # what the tool reports about fields: validation_errors plus the field-level entries of `warnings`
            reported = [e for e in list(res.get("validation_errors", [])) + list(res.get("warnings", []))
                        if isinstance(e, dict) and "field" in e and re.fullmatch(r"[EW]\d{3}", str(e.get("code", "")))]
            ventries = sorted({(e["code"], e["field"], "warning" if e["code"].startswith("W") else "error") for e in reported})
            # tie with the Validator level (constructed objects, same schema/instance)
            doc, sschemas, _ = doc_build(chains, policy, states, extras)
            sschemas = {name: sschemas[SECTION]}
            doc.sections[0].key = name
            try:
                direct = sorted({(e.code, e.field_path, e.severity) for e in Validator().validate(doc, strict=False, section_schemas=sschemas)})
            except Exception as e:
                direct = "!" + type(e).__name__
            if direct != ventries and len(out["disagree"]) < MAX_RECORDED:
                out["disagree"].append({"case": case, "model": direct, "impl": ventries, "view": "octave_validate.validation_errors vs Validator.validate on constructed objects"})
            # oracle on what the tool reports
            rel = [(c, p.replace(name + ".", SECTION + ".", 1), s) for (c, p, s) in ventries]
            complaints = doc_oracle(chains, policy, states, extras, rel)
            has_error = any(s == "error" for (_c, _p, s) in ventries)
            if not complaints:
                if has_error and status != "INVALID":
                    complaints.append(f"errors reported but validation_status={status}")
                if not has_error and status != "VALIDATED":
                    complaints.append(f"status: no error-severity entry (only {sorted({c for c, _p, _s in ventries})}) but validation_status={status}")
            if complaints:
                fid = doc_classify(findings, chains, states, extras)
                if fid:
                    out["known"][fid] = out["known"].get(fid, 0) + 1
                elif len(out["fail"]) < MAX_RECORDED:
                    out["fail"].append({"case": case, "why": complaints[0], "why_class": "tool:" + complaints[0].split(":")[0][:40], "observed": ventries, "status": status})
            if out["sample"] is None:
                out["sample"] = case
    finally:
        os.chdir(old)
        shutil.rmtree(tmp, ignore_errors=True)
    return out



# ================================================================================================
# A. primitives: the model's Python primitives vs CPython
# ================================================================================================

NUMERAL_SEEDS = ["0", "1", "-1", "+1", "1.5", ".5", "5.", "1e5", "1E5", "1e-5", "1e+5", "1e400", "-1e400", "1e-400", "4.9e-324", "2.4e-324",
                 "2.5e-324", "2.47e-324", "1.7976931348623157e308", "1.7976931348623158e308", "1.7976931348623159e308", "0.1",
                 "0.30000000000000004", "9007199254740993", "9007199254740992.5", "9007199254740993.0", "1_0", "1__0", "_1", "1_", "1_.5",
                 "1._5", "1e_5", "1_e5", "1e1_0", "inf", "-inf", "+inf", "Infinity", "INFINITY", "infinit", "nan", "-nan", "NaN", "+NAN", "nan1",
                 "in_f", " 1 ", "\t1\n", "\x0b1\x0c", "\x1c1", "1\x1f", " 1　", "٣", "٣.٥", "１０", "1٣", "e5", "1e", "1e+", "1e5.0", "0x10", "1f",
                 "--1", "+-1", "1 0", "", "  ", ".", "-", "+", "-.", "-.5e-3", "00012", "1,5", "1.5.2", "١٢٣", "1e0000000000000000000000005",
                 "0e999999999999999999", "1e-99999999999999999999", "123456789012345678901234567890e-20", "5e-324", "3e-324",
                 "2.2250738585072014e-308", "2.2250738585072011e-308", "1.00000000000000011102230246251565404236316680908203125",
                 "1.00000000000000011102230246251565404236316680908203124", "é", "1é", "?", "1?"]
ISO_SEEDS = ["2024-01-15", "20240115", "2024-W03", "2024-W03-1", "2024W03", "2024W031", "2024-01-15T10:00:00", "2024-01-15T10:00", "2024-01-15T10",
             "2024-01-15T100000", "2024-01-15T1000", "2024-01-15T10:00:00.123456", "2024-01-15T10:00:00,123", "2024-01-15T10:00:00Z",
             "2024-01-15T10:00:00+05:00", "2024-01-15T10:00:00-05:30", "2024-01-15T10:00:00+0530", "2024-01-15T10:00:00+05",
             "2024-01-15T10:00:00+05:30:15", "2024-01-15T10:00:00+05:30:15.123456", "2024-01-15 10:00:00", "2024-01-15x10:00", "20240115T100000Z",
             "2024W031T1000", "2024-W03-1T10:00", "2024-02-29", "2023-02-29", "1900-02-29", "2000-02-29", "0001-01-01", "9999-12-31", "0000-01-01",
             "2024-12-31T23:59:59.999999+23:59", "2024-01-15T10:00:00+23:59:59.999999", "2024-01-15T10:00:00-23:59:59.999999",
             "2024-01-15T10:00:00+24:00", "2024-01-15T24:00:00", "2024-01-15T23:60:00", "2024-01-15T23:59:60", "2020-W53-7", "2021-W53-1",
             "2015-W53-4", "2016-W52-7", "9999-W52-5", "9999-W52-6", "0001-W01-1", "0000-W01-1", "2024-W01-10", "2024W01110", "2024W0112345",
             "2024-01-15T10:00:00:123", "2024-01-15T10000012", "2024-01-15T10:+05:00", "2024-01-15T10:00:00.1234567x+05:00", "2024-01-15é10:00",
             "2024-01-15日10:00", "2024-01-15😀10:00", "٢٠٢٤-٠١-١٥", "2024-01-15\n", "2024-W1", "2024-W", "2024W", "2024-01", "202401", "2024015",
             "2024-1-15", "24-01-15", "2024-01-15T", "2024-01-15TZ", "2024-01-15T+05", "2024-01-15T10Z", "2024-01-15T10+05", "2024-01-15T1030Z",
             "2024-01-15T10:30.5", "2024-01-15T10.5", "2024-01-15T10:00:00.", "2024-01-15T10:00:00.Z", "2024-01-15T10:00:00.1Z",
             "2024-01-15T10:00:00+00:00:00.5", "2024-01-15T10:00:00+00:00:00.5x", "2024-01-15T10:00:00+00:99", "2024-01-15T10:00:00+99",
             "2024-01-15T10:00:00-00", "", "a", "2024", "20240", "202401150", "2024011", "2024-W03-", "2024-W03-0", "2024-W03-8", "2024-W00", "2024-W54",
             "2024-W53", "2020-W53", "2024W0", "2024W03-1", "2024-W031", "2024-W03T10", "2024W03T10", "2024W031T10", "2024W0310", "2024W03100"]


def mutate(rng, seeds, alpha, n):
    out = []
    for _ in range(n):
        s = rng.choice(seeds)
        for _ in range(rng.choice([1, 1, 1, 2, 2, 3])):
            i = rng.randint(0, len(s))
            op = rng.random()
            if op < 0.35:
                s = s[:i] + rng.choice(alpha) + s[i:]
            elif op < 0.6 and s:
                s = s[:i] + s[i + 1:]
            elif op < 0.9 and s:
                s = s[:i] + rng.choice(alpha) + s[i + 1:]
            elif s:
                j = rng.randint(0, len(s))
                s = s[:min(i, j)] + s[max(i, j):]
        out.append(s)
    return out


def stage_primitives(ctx, drv):
    import datetime
    rng = random.Random(ctx.seed * 7919 + 1)
    n = ctx.budget(6000, 120000)
    nums = list(NUMERAL_SEEDS) + mutate(rng, NUMERAL_SEEDS, "0123456789.eE+-_ infatyINFAN\t٣ x", n)
    nums += ["".join(rng.choice("0123456789.eE+-_ inf") for _ in range(rng.randint(0, 7))) for _ in range(n // 2)]
    isos = list(ISO_SEEDS) + mutate(rng, ISO_SEEDS, "0123456789-:TWZ+., x\né", n * 2)
    for y in [1, 2, 4, 100, 400, 1900, 2000, 2023, 2024, 9999]:
        for m in range(0, 14):
            for d in [0, 1, 28, 29, 30, 31, 32]:
                isos.append("%04d-%02d-%02d" % (y, m, d))
    for y in [1, 2, 2015, 2016, 2020, 2021, 2024, 2026, 9998, 9999]:
        for w in [0, 1, 52, 53, 54]:
            for d in range(0, 9):
                isos.append("%04d-W%02d-%d" % (y, w, d))
                isos.append("%04dW%02d%d" % (y, w, d))
    isos = [s for s in isos if "\x00" not in s]
    ints = [0, 1, -1, 2 ** 53, 2 ** 53 + 1, 2 ** 53 + 2, 2 ** 53 + 3, -(2 ** 53 + 1), 2 ** 54 + 1, 2 ** 54 + 3, 10 ** 22, 10 ** 23, 2 ** 1023, 2 ** 1024 - 2 ** 970 - 1,
            2 ** 1024 - 2 ** 970, 2 ** 1024 - 2 ** 971, 2 ** 1024, -(2 ** 1024), 10 ** 308, 10 ** 309, 10 ** 400]
    ints += [rng.getrandbits(rng.randint(1, 1100)) * rng.choice([1, -1]) for _ in range(n // 4)]
    reqs = ([{"op": "float_of_str", "s": s} for s in nums] + [{"op": "int_of_str", "s": s} for s in nums]
            + [{"op": "float_of_int", "i": str(i)} for i in ints] + [{"op": "fromiso", "s": s} for s in isos] + [{"op": "date_re", "s": s} for s in isos])
    reps = drv.batch_par(reqs)
    it = iter(reps)

    def expect(fn, exc):
        try:
            return fn()
        except exc as e:
            return {"err": type(e).__name__}

    nbad = 0
    for label, items, fn in [
        ("float(str)", nums, lambda s: expect(lambda: {"v": CL.enc_num(float(s))}, ValueError)),
        ("int(str)", nums, lambda s: expect(lambda: {"v": str(int(s))}, ValueError)),
        ("float(int)", ints, lambda i: expect(lambda: {"v": CL.enc_num(float(i))}, OverflowError)),
        ("fromisoformat", isos, lambda s: expect(lambda: (datetime.datetime.fromisoformat(s), {"ok": True})[1], ValueError)),
        ("date regex", isos, lambda s: {"ok": bool(re.match(r"^\d{4}-\d{2}-\d{2}$", s))}),
    ]:
        acc = 0
        for x in items:
            r = next(it)
            e = fn(x)
            if e == {"err": "ValueError"} and label == "fromisoformat":
                e = {"ok": False}
            acc += ("v" in e) or e.get("ok") is True
            ctx.evaluations += 1
            if "unsupported" in r:
                ctx.count("prim:unsupported:" + label)
                continue
            if r != e:
                nbad += 1
                if len(ctx.corr_disagreements) < MAX_RECORDED:
                    ctx.corr_disagreements.append({"case": {"kind": "primitive", "fn": label, "arg": str(x)[:200]}, "model": r, "impl": e, "view": "CPython primitive"})
        ctx.count(f"prim:{label}:cases", len(items))
        ctx.count(f"prim:{label}:accepted", acc)
        ctx.distinct.bulk(len(set(map(str, items))))
    return nbad


# ================================================================================================
# known findings
# ================================================================================================

def replay_known(ctx, findings):
    """Replay the witness of every *open* finding (none at present: F19, C08N1 and F37 are fixed in /repo; their
    witnesses run with the corpus).  A finding whose class has no replay routine is reported in the notes."""
    for f in findings:
        ctx.notes.append(f"open finding {f['id']} (class {f['cls']}) has no replay routine in tools/props/c08.py")


# ================================================================================================
# replay of one recorded case
# ================================================================================================

def run_case(ctx, exe, findings, case, label):
    """Re-execute one recorded case (corpus vector or replay) on the current tree and on the model.
    Returns False when the case has no re-executable kind."""
    kind = case.get("kind")
    if kind == "chain":
        specs = case["chain"]
        _POOLS["Cr"] = (specs, [CL.build_impl(c) for c in specs])
        _POOLS["Vr"] = ([case["value"]], [CL.dec_val(case["value"])])
        o = grid_worker_pools(exe, "Cr", "Vr", [tuple(range(len(specs)))], findings)
    elif kind == "parse":
        vname = "Vs"
        if "value" in case:
            _POOLS["Vr"] = ([case["value"]], [CL.dec_val(case["value"])])
            vname = "Vr"
        o = parse_worker((exe, vname, [(case["text"], None)], findings))
    elif kind == "doc":
        o = doc_worker((exe, [(case["chains"], case["policy"], case["states"], case["extras"])], findings))
    elif kind == "tool":
        o = tool_worker(([(tuple(case["chain_idx"]), case["policy"], case["states"], case["extras"])], findings, 9998))
    else:
        return False
    ctx.case(case)
    ctx.count(f"{label}:cases")
    if label == "replay":
        print("replay:", json.dumps({k: o[k] for k in ("disagree", "fail", "known", "dist")}, ensure_ascii=False, default=str)[:3000])
    ctx.failures += o["fail"]
    ctx.corr_disagreements += o["disagree"]
    for fid, n in o["known"].items():
        ctx.known_hits[fid] = ctx.known_hits.get(fid, 0) + n
    return True


def run_replay(ctx, exe, findings):
    data = json.loads(open(ctx.replay).read())
    case = data.get("case") or {}
    ctx.notes.append(f"replay of {ctx.replay} kind={case.get('kind')}")
    if run_case(ctx, exe, findings, case, "replay"):
        return True
    ctx.notes.append("replay file has no re-executable case (tie-broken replay): running the full check instead")
    return False


def run_corpus(ctx, exe, findings):
    d = vlib.VERIF / "corpus" / ctx.prop
    for f in sorted(d.glob("*.json")) if d.exists() else []:
        try:
            case = json.loads(f.read_text()).get("case") or {}
        except Exception as e:
            ctx.notes.append(f"corpus file {f.name} unreadable: {e}")
            continue
        if not run_case(ctx, exe, findings, case, "corpus"):
            ctx.notes.append(f"corpus file {f.name}: no re-executable case")


# ================================================================================================
# enumeration of the explored spaces
# ================================================================================================

def chain_tasks(exe, cname, vname, lengths, findings, per_task):
    n = len(pools(cname)[0])
    it = itertools.chain.from_iterable(itertools.product(range(n), repeat=k) for k in lengths)
    for chunk in chunked(it, per_task):
        yield (exe, cname, vname, chunk, findings)


def text_cases(thorough, widen, rng):
    core, more = CL.POOL_T_CORE, CL.POOL_T_MORE
    allt = core + more
    seen, out = set(), []

    def add(parts, sep):
        text = sep.join(parts)
        if text in seen:
            return
        seen.add(text)
        out.append((text, list(parts)))

    for t in allt:
        add([t], "")
    for a in core:
        for b in core:
            for sep in CL.SEPARATORS:
                add([a, b], sep)
    for a in allt:
        for b in allt:
            for sep in ("∧", " "):
                add([a, b], sep)
    if thorough or widen > 1:
        sub = core if thorough else core[:24]
        for a in sub:
            for b in sub:
                for c in sub:
                    for sep in ("∧", " "):
                        add([a, b, c], sep)
    if thorough:
        for _ in range(40000):
            k = rng.choice([3, 4])
            add([rng.choice(allt) for _ in range(k)], rng.choice(CL.SEPARATORS))
    return out


def doc_cases(thorough, widen, rng):
    cases = []
    for ci in range(len(DOC_CHAINS)):
        for pol in DOC_POLICIES:
            for st in DOC_STATES:
                for ex in DOC_EXTRAS:
                    cases.append(([DOC_CHAINS[ci]], pol, [st], ex))
    big = thorough or widen > 1
    cidx = range(len(DOC_CHAINS)) if big else [1, 3, 4, 7, 0, 6]
    states = DOC_STATES if thorough else [DOC_STATES[i] for i in (0, 1, 2, 3, 5, 6, 13, 15)]
    for a in cidx:
        for b in cidx:
            for pol in DOC_POLICIES:
                for sa in states:
                    for sb in states:
                        for ex in DOC_EXTRAS:
                            cases.append(([DOC_CHAINS[a], DOC_CHAINS[b]], pol, [sa, sb], ex))
    for _ in range(100000 if thorough else (20000 if widen > 1 else 3000)):
        cs = [rng.choice(DOC_CHAINS) for _ in range(3)]
        ex = rng.choice(DOC_EXTRAS + [["A_FIELD_X", "B_FIELD"], ["b_field"], ["É"]])
        cases.append((cs, rng.choice(DOC_POLICIES), [rng.choice(DOC_STATES) for _ in range(3)], ex))
    return cases


def tool_cases(thorough, widen, rng):
    cases = []
    pols = ["REJECT", "WARN", "IGNORE"]
    for ci in range(len(DOC_CHAINS)):
        for pol in pols:
            for st in DOC_STATES:
                for ex in DOC_EXTRAS[:3]:
                    cases.append(((ci,), pol, [st], ex))
    n2 = 40000 if thorough else (8000 if widen > 1 else 1500)
    for _ in range(n2):
        k = rng.choice([2, 2, 3])
        cases.append((tuple(rng.randrange(len(DOC_CHAINS)) for _ in range(k)), rng.choice(pols), [rng.choice(DOC_STATES) for _ in range(k)], rng.choice(DOC_EXTRAS)))
    return cases


# ================================================================================================
def run(ctx: vlib.Ctx):
    ctx.distinct = DistinctCounter()
    ctx.rule = ("exhaustive: every chain of constructed constraints of length <= L over the constraint pool x every value of the value pool; every chain "
                "text of <= L part texts x separators x the small value pool; every generated (schema, policy, instance block); primitives: seeds + "
                "seeded mutations. A case is non-trivial when the chain/text/schema is non-empty. Exhaustive enumerations are distinct by construction "
                "(counted, not hashed); distinct = number of distinct (program, value) pairs explored.")
    ctx.translate(PROJECT)
    proj = ctx.lean(PROJECT, PROPS)
    ctx.n_facts = 0   # the gen_* table facts are theorems of Props/C08 and are counted there
    ctx.extra["gen_table_facts"] = sorted(n for (_l, k, n) in vlib.declarations(proj.module_path(PROPS[0])) if k == "theorem" and n.startswith("gen_"))
    changed = vlib.fingerprints_changed(ctx.prop, ANCHORS)
    if changed:
        ctx.widen = max(ctx.widen, 8)
        ctx.notes.append(f"fingerprint of modelled function(s) changed: {changed}: search widened")
    drv = proj.driver()
    exe = drv.exe
    findings = vlib.load_findings(ctx.prop)
    ctx.trusted = ["Lean 4.33.0 kernel; axioms per theorem in coverage.theorems", "tools/gen/constraints.py (Gen/Constraints, Gen/Validator, Gen/Unicode)",
                   "correspondence harness tools/props/c08.py + tools/harness/constraints_lib.py (differential, exhaustive over pools)",
                   "modelled, not verified: control flow of constraints.py evaluate/parse/detect_conflicts and of validator._validate_section/_validate_unknown_fields",
                   "external, supplied per case by the harness from the running CPython: re.match / re.compile verdicts, repr(float)",
                   "modelled and validated differentially against the running CPython: float(str), int(str), float(int) (round-half-even to binary64), "
                   "datetime.fromisoformat acceptance (3.12 C implementation, on UTF-8 bytes), str()/repr() of the modelled value kinds, str.strip()"]
    ctx.assumptions = ["Python == / str() / repr() on None/bool/int/float/str/list/LiteralZoneValue as transcribed in Model/Value.lean; a nan inside a list "
                       "(identity shortcut of list ==), non-ASCII text inside repr(), non-ASCII str.lower(), fromisoformat with an embedded NUL or an ISO week "
                       "date of year 0000, dict values: outside the model (driver answers `unsupported`, counted)",
                       "RANGE on an int beyond 2^53 is compared after binary64 rounding by the code; the oracle does not judge the cases where rounding changes the verdict",
                       "ISO8601: 'date or datetime' is read as 'what datetime.fromisoformat accepts after Z -> +00:00' (DESIGN C08); the oracle judges the "
                       "documented forms and the strings that cannot start an ISO date, nothing in between",
                       "ENUM with duplicated allowed values: 'unique prefix' is counted per list entry by the code; the oracle does not judge that corner",
                       "target routing (E009) is not modelled: generated schemas carry no targets"]
    if ctx.replay:
        if run_replay(ctx, exe, findings):
            return
    rng = random.Random(ctx.seed * 104729 + 17)
    ctx.extra["pool_sizes"] = {"constraints_core": len(CL.POOL_C_CORE), "constraints_more": len(CL.POOL_C_MORE), "constraints_thorough": len(CL.POOL_C_THOROUGH),
                               "values": len(CL.POOL_V), "values_small": len(CL.POOL_V_SMALL), "texts": len(CL.POOL_T_CORE) + len(CL.POOL_T_MORE)}
    # -- known findings, corpus (always first) ------------------------------------------------------
    replay_known(ctx, findings)
    run_corpus(ctx, exe, findings)
    # -- A. primitives --------------------------------------------------------------------------
    stage_primitives(ctx, drv)
    explore(ctx, exe, findings, rng, base=True, extra=ctx.widen > 1)
    if ctx.tie_broken() and not ctx.failures and not ctx.thorough and ctx.widen == 1:
        # the correspondence broke during this run and the base search found no failing input: widen now
        ctx.widen = 8
        ctx.notes.append("correspondence disagreement without a failing input: search widened")
        explore(ctx, exe, findings, rng, base=False, extra=True)


def explore(ctx, exe, findings, rng, base, extra):
    """B, C, D over the base scopes and/or the widened scopes (quick tier only; thorough always runs its full scopes)."""
    # -- B. grid ----------------------------------------------------------------------------------
    tasks = []
    if ctx.thorough:
        tasks += list(chain_tasks(exe, "C:core+more+thorough", "V", [0, 1, 2], findings, 120))
        tasks += list(chain_tasks(exe, "C:core+more", "V", [3], findings, 300))
        tasks += list(chain_tasks(exe, "C:core", "Vs", [4], findings, 2000))
        ctx.extra["grid_scope"] = "L<=2 over core+more+thorough x V; L=3 over core+more x V; L=4 over core x Vs"
    else:
        if base:
            tasks += list(chain_tasks(exe, "C:core+more", "V", [0, 1, 2], findings, 60))
            ctx.extra["grid_scope"] = "L<=2 over core+more x V"
        if extra:
            tasks += list(chain_tasks(exe, "C:core+more+thorough", "Vs", [2], findings, 200))
            tasks += list(chain_tasks(exe, "C:core", "V", [3], findings, 300))
            tasks += list(chain_tasks(exe, "C:core+more", "Vt", [3], findings, 3000))
            ctx.extra["grid_scope"] = ctx.extra.get("grid_scope", "") + "; widened: L=2 over +thorough x Vs, L=3 over core x V and core+more x Vt"
    outs = vlib.pmap(grid_worker, tasks, chunksize=1)
    merge(ctx, outs, "grid")
    # -- C. parse ---------------------------------------------------------------------------------
    texts = text_cases(ctx.thorough, 8 if extra else 1, rng)
    if not base:
        seen = {t for t, _ in text_cases(False, 1, rng)}
        texts = [x for x in texts if x[0] not in seen]
    ptasks = [(exe, "Vs", chunk, findings) for chunk in chunked(texts, 400)]
    outs = vlib.pmap(parse_worker, ptasks, chunksize=1)
    merge(ctx, outs, "parse")
    ctx.count("parse:texts", len(texts))
    # -- D. document level --------------------------------------------------------------------------
    dcases = doc_cases(ctx.thorough, 8 if extra else 1, rng)
    if not base:
        dcases = dcases[len(doc_cases(False, 1, random.Random(0))) // 2:]
    outs = vlib.pmap(doc_worker, [(exe, chunk, findings) for chunk in chunked(dcases, 1500)], chunksize=1)
    merge(ctx, outs, "doc")
    tcases = tool_cases(ctx.thorough, 8 if extra else 1, rng)
    per = max(50, len(tcases) // (vlib.NCPU * 2))
    outs = vlib.pmap(tool_worker, [(chunk, findings, i) for i, chunk in enumerate(chunked(tcases, per))], chunksize=1)
    merge(ctx, outs, "tool")
    if len(ctx.samples) < 3:
        for o in outs:
            if o.get("sample") is not None and len(ctx.samples) < 4:
                ctx.samples.append(o["sample"])
