"""C05 — Literal zones pass through every pipeline byte-for-byte.

Zone contents over the alphabet of the property (tabs, NFD sequences, backslashes, quotes, operators and
aliases, ::, ===END===, ---, shorter backtick runs), fence lengths 3..6, with/without tag, as assignment
values and as bare block children at every indent depth, several per document next to every other node
kind.  Pipelines: parse, parse_with_warnings, emit + strict re-read, octave_validate (fix on/off),
octave_write (content, normalize, changes on another key), seal_document, octave_eject canonical json.
Oracle: zone triples (content, tag, fence) equal the generator's, and all non-zone content too (a fence
never swallows or releases neighbours).  Correspondence: Lean model zones == implementation zones.
"""
import asyncio
import json
import os
import random
import tempfile

import vlib
from harness import docgen as G
from harness import text as T
from harness import textcheck as TC
from props import _text as X

PROPS = ["Octave.Props.C05", "Octave.Props.C05zones", "Octave.Props.C05roundtrip", "Octave.Props.C05tree", "Octave.Props.C05bare"]


def kf_single_empty_line_zone(case) -> bool:
    """C05N1: a zone whose content is exactly one empty line is read as an empty zone."""
    return any(z == [""] for z in case.get("zone_lines", []))


CLASSES = {"kf_single_empty_line_zone": kf_single_empty_line_zone}


def expected_zones(d):
    return TC.zones_of(G.expected_doc(d))


def model_zone_lines(d):
    out = []

    def walk(nodes):
        for n in nodes:
            if n["t"] == "bzone" or (n["t"] == "assign" and n["v"]["t"] == "zone"):
                out.append(n["v"]["lines"])
            if n["t"] in ("block", "section"):
                walk(n["ch"])
    walk(d["nodes"])
    return out


def zone_doc(rng):
    """a document dense in zones."""
    d = G.gen_doc(rng, size=3)
    extra = []
    for _ in range(rng.randint(1, 3)):
        z = G.gen_zone(rng)
        extra.append({"t": "assign", "lead": G.gen_comments(rng, 0.2), "k": rng.choice(G.KEYS), "v": z, "trail": None})
    blocks = [n for n in d["nodes"] if n["t"] == "block"]
    for e in extra:
        if blocks and rng.random() < 0.5:
            b = rng.choice(blocks)
            pos = rng.randint(0, len(b["ch"]))
            bare = rng.random() < 0.5
            # a bare zone at the indentation of an EMPTY block's header is, by Issue #259, that block's child: not generated as a sibling
            if bare and pos > 0 and b["ch"][pos - 1]["t"] == "block" and not b["ch"][pos - 1]["ch"]:
                bare = False
            b["ch"].insert(pos, {"t": "bzone", "lead": [], "v": e["v"]} if bare else e)
        else:
            d["nodes"].insert(rng.randint(0, len(d["nodes"])), e)
    return d


def offset_family():
    """texts whose zone offsets in the raw input differ from the offsets in the normalised text: decomposed (NFD) sequences, which
    NFC shortens, in front of a zone whose LAST characters are the delicate ones (tabs).  Built directly as text: the oracle looks
    at the zones only (what NFC does to text outside zones is F16's subject, not C05's).
    -> [(text, [zone contents in order])]"""
    out = []
    for k in (1, 2, 3, 5, 8, 13, 21):
        for pre in ("e\u0301", "A\u030a\u0301", "\u1100\u1161"):       # 2->1, 3->1(2), Hangul L+V -> 1
            for last in ("util.c\t48", "\t", "x\t\t", "a\tb\tc\t", "\tend"):
                for nest in (0, 2):
                    ind = " " * nest
                    head = f'===D===\nNAME::"{pre * k}"\n' + ("B:\n" if nest else "")
                    z1 = f"{ind}K::\n{ind}```\nfile\tlines\n{last}\n{ind}```\n"
                    z2 = f"{ind}L::\n{ind}````tsv\n{last}\n{ind}````\n"
                    out.append((head + z1 + f'{ind}M::"{pre}"\n' + z2 + "===END===\n", ["file\tlines\n" + last, last]))
    return out


def eval_offset_chunk(items):
    return [{"text": t, "want": w, "r": TC.eval_text(t)} for t, w in items]


def eval_chunk(args):
    out = []
    for (seed, idx) in args:
        rng = random.Random(f"z{seed}:{idx}")
        d = zone_doc(rng)
        ctext, _ = G.render(d, G.Spelling(rng, canonical=True))
        ltext, _ = G.render(d, G.Spelling(rng, p=0.4))
        out.append({"model": d, "ctext": ctext, "ltext": ltext, "c": TC.eval_text(ctext), "l": TC.eval_text(ltext)})
    return out


def zone_oracle(d, r):
    exp_doc = G.expected_doc(d)
    if "err" in r["pw"]:
        return f"reader rejects: {r['pw']['err']}", "rejected"
    got = r["pw"]["doc"]
    if TC.zones_of(got) != TC.zones_of(exp_doc):
        return f"zones read differ: {TC.short(TC.firstdiff(TC.zones_of(got), TC.zones_of(exp_doc)), 300)}", "zones-read"
    if G.strip_positions(got) != exp_doc:
        return f"a fence swallowed or released neighbouring content: {TC.short(TC.firstdiff(G.strip_positions(got), exp_doc), 300)}", "neighbours"
    if "strict_doc" not in r:
        return f"canonical text not re-readable: {r.get('strict_err') or r.get('c1_err')}", "canonical-unreadable"
    if TC.zones_of(r["strict_doc"]) != TC.zones_of(exp_doc):
        return f"zones differ after canonicalisation: {TC.short(TC.firstdiff(TC.zones_of(r['strict_doc']), TC.zones_of(exp_doc)), 300)}", "zones-canonical"
    if G.strip_positions(r["strict_doc"]) != exp_doc:
        return "neighbouring content differs after canonicalisation", "neighbours-canonical"
    return None


def tool_pipelines(ctx, findings, res):
    from octave_mcp.core.parser import parse
    from octave_mcp.core.sealer import seal_document
    from octave_mcp.core.emitter import emit
    from octave_mcp.mcp.eject import EjectTool
    from octave_mcp.mcp.validate import ValidateTool
    from octave_mcp.mcp.write import WriteTool
    with tempfile.TemporaryDirectory() as td:
        for k, r in enumerate(res):
            d, text = r["model"], r["ctext"]
            exp = TC.zones_of(G.expected_doc(d))
            case = {"text": text, "zone_lines": model_zone_lines(d)}
            if "err" in r["c"]["pw"]:
                continue

            def chk(name, canon_text, given=None):
                # `given`: the text the pipeline was fed when it is not the canonical spelling (kept in the replay)
                case = {"text": text if given is None else given, "zone_lines": model_zone_lines(d)}
                ctx.case({"text": case["text"], "pipeline": name})
                try:
                    got = TC.zones_of(T.doc_to_json(parse(canon_text)))
                except BaseException as e:  # noqa: BLE001
                    X.classify(ctx, findings, CLASSES, dict(case, pipeline=name), f"{name}: output not re-readable: {type(e).__name__}: {str(e)[:80]}", name + ":unreadable")
                    return
                if got != exp:
                    X.classify(ctx, findings, CLASSES, dict(case, pipeline=name), f"{name}: zones differ: {TC.short(TC.firstdiff(got, exp), 300)}", name + ":zones")
            try:
                for fix in (False, True):
                    v = asyncio.run(ValidateTool().execute(content=text, schema="META", fix=fix))
                    if isinstance(v.get("canonical"), str):
                        chk(f"octave_validate(fix={fix})", v["canonical"])
                p = os.path.join(td, f"z{k}.oct.md")
                w = asyncio.run(WriteTool().execute(target_path=p, content=text))
                if w.get("status") == "success":
                    chk("octave_write(content)", open(p, encoding="utf-8", newline="").read())
                    pl = os.path.join(td, f"zl{k}.oct.md")
                    lgiven = r["ltext"] if "err" not in r["l"]["pw"] else text
                    wl = asyncio.run(WriteTool().execute(target_path=pl, content=lgiven, lenient=True))
                    if wl.get("status") == "success":
                        chk("octave_write(lenient=true)", open(pl, encoding="utf-8", newline="").read(), given=lgiven)
                    w2 = asyncio.run(WriteTool().execute(target_path=p))
                    if w2.get("status") == "success":
                        chk("octave_write(normalize)", open(p, encoding="utf-8", newline="").read())
                    w3 = asyncio.run(WriteTool().execute(target_path=p, changes={"ZZ_OTHER": "v"}))
                    if w3.get("status") == "success":
                        chk("octave_write(changes)", open(p, encoding="utf-8", newline="").read())
                chk("seal_document", emit(seal_document(parse(text))))
                ej = asyncio.run(EjectTool().execute(content=text, schema="META", mode="canonical", format="octave"))
                if isinstance(ej.get("output"), str):
                    chk("octave_eject(octave)", ej["output"])
                ej = asyncio.run(EjectTool().execute(content=text, schema="META", mode="canonical", format="json"))
                if isinstance(ej.get("output"), str):
                    ctx.case({"text": text, "pipeline": "eject json"})
                    flat = json.dumps(json.loads(ej["output"]), ensure_ascii=False)
                    top_keys = [n.get("k") for n in d["nodes"]]
                    for (path, content, tag, marker) in exp:
                        # duplicate sibling keys collapse in a JSON object (C14's finding F25): unique keys only
                        if "/" not in path and top_keys.count(path) == 1 and json.dumps(content, ensure_ascii=False) not in flat:
                            X.classify(ctx, findings, CLASSES, dict(case, pipeline="eject json"), f"octave_eject(json): content of top-level zone {path} not found verbatim", "eject-json:zones")
            except BaseException as e:  # noqa: BLE001 - a raising tool is C20's business; here it is counted, not judged
                ctx.count("tool_raised:" + type(e).__name__)


def run(ctx: vlib.Ctx):
    ctx.rule = ("zone-dense content-model documents (1-4 zones each: keyed and bare, at indent depths 0-6, adjacent to every node kind; contents "
                "from the property's alphabet incl. tab, NFD, backslash, quotes, aliases, ===END===, ---, shorter fences, blank lines; fence "
                "3-6; with/without tag) in canonical and lenient spelling, through 9 pipelines; distinct = distinct text x pipeline")
    proj = X.setup(ctx, PROPS)
    findings = vlib.load_findings(ctx.prop)
    for f in findings:
        w = f["witness"]
        r = TC.eval_text(w["text"])
        z = TC.zones_of(r["pw"].get("doc", {})) if "doc" in r["pw"] else None
        if z and z[0][1] != w["content"]:
            ctx.known_reproduced.append((f, f"content read as {z[0][1]!r}"))
        else:
            ctx.notes.append(f"known finding {f['id']} no longer reproduces on its witness")
    n = ctx.budget(500, 5000)
    args = [(ctx.seed, i) for i in range(n)]
    res = [r for ch in vlib.pmap(eval_chunk, [args[i:i + 25] for i in range(0, len(args), 25)], chunksize=1) for r in ch]
    texts, impl = [], []
    nz = 0
    for r in res:
        zl = model_zone_lines(r["model"])
        nz += len(zl)
        for which, text in (("c", r["ctext"]), ("l", r["ltext"])):
            case = {"text": text, "zone_lines": zl, "spelling": which}
            ctx.case({"text": text}, nontrivial=bool(zl))
            o = zone_oracle(r["model"], r[which])
            if o:
                X.classify(ctx, findings, CLASSES, case, o[0], o[1])
            texts.append(text); impl.append(r[which]["pw"])
        for z in zl:
            ctx.count(f"zone_lines={min(len(z), 5)}")
    ctx.extra["zones_generated"] = nz
    for text, pw, m in zip(texts, impl, X.lean_parse_warn(proj, texts)):
        if T.model_unsupported(m):
            ctx.count("model_unsupported")
        else:
            zm = TC.zones_of(m["doc"]) if "doc" in m else m.get("err")
            zi = TC.zones_of(pw["doc"]) if "doc" in pw else pw.get("err")
            if zm != zi:
                X.corr(ctx, {"text": text}, "literal zones (path, content, tag, fence) / exception", zm, zi)
    # zones whose offsets shift under normalisation of the text in front of them
    fam = offset_family()
    fam_res = [r for ch in vlib.pmap(eval_offset_chunk, [fam[i:i + 30] for i in range(0, len(fam), 30)], chunksize=1) for r in ch]
    for r in fam_res:
        ctx.case({"text": r["text"]}, nontrivial=True)
        ctx.count("offset_family")
        pw = r["r"]["pw"]
        why = None
        if "err" in pw:
            why, cls = f"reader rejects a document whose zones hold tabs (decomposed text in front of the zone): {pw['err']}", "offset-rejected"
        elif [z[1] for z in TC.zones_of(pw["doc"])] != r["want"]:
            why, cls = f"zones read differ: {TC.short([z[1] for z in TC.zones_of(pw['doc'])], 200)} wanted {TC.short(r['want'], 200)}", "offset-zones-read"
        elif "strict_doc" not in r["r"]:
            why, cls = f"canonical text not re-readable: {r['r'].get('strict_err') or r['r'].get('c1_err')}", "offset-canonical-unreadable"
        elif [z[1] for z in TC.zones_of(r["r"]["strict_doc"])] != r["want"]:
            why, cls = "zones differ after canonicalisation", "offset-zones-canonical"
        if why:
            X.classify(ctx, findings, CLASSES, {"text": r["text"], "zone_contents": r["want"]}, why, cls)
    fam_texts = [r["text"] for r in fam_res]
    for text, r, m in zip(fam_texts, fam_res, X.lean_parse_warn(proj, fam_texts)):
        if not T.model_unsupported(m):
            zm = TC.zones_of(m["doc"]) if "doc" in m else m.get("err")
            zi = TC.zones_of(r["r"]["pw"]["doc"]) if "doc" in r["r"]["pw"] else r["r"]["pw"].get("err")
            if zm != zi:
                X.corr(ctx, {"text": text}, "literal zones (path, content, tag, fence) / exception", zm, zi)
    tool_pipelines(ctx, findings, res[: ctx.budget(120, 1200)])
    ctx.assumptions = ["file-based pipelines are driven with newline='' so that no universal-newline translation is involved (F18 candidate, outside the listed alphabet)",
                       "proved: normaliser/emitter zone lemmas (Props/C05) and the lexer-level whole-text theorem for every content, marker and tag (C05zones: tokens carry the content verbatim; finding C05N1 located in the lexer), the document round trip with the exact C05N1 guard and untouched neighbours (C05roundtrip); zones after other lines / inside blocks at text level (unless C05tree is listed under coverage.theorems), zones in lists / META and the tool routes are decided by the zone oracle and the correspondence"]
