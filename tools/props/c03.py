"""C03 — All lenient spellings converge on one canonical text in strict profile.

For every content-model document: emit(parse(lenient spelling)) == emit(parse(canonical spelling))
byte for byte, for several independent lenient spellings per document (each site toggled by its own
PRNG draw; single-freedom spellings cover each freedom alone), and every canonical output passes an
independently written line-level strict-profile recogniser; same through octave_write(lenient=true).
Correspondence: Lean reader+emitter model canonical text == implementation canonical text.
"""
import asyncio
import os
import random
import tempfile

import vlib
from harness import docgen as G
from harness import strictprofile as SP
from harness import text as T
from harness import textcheck as TC
from props import _text as X

PROPS = ["Octave.Props.C03", "Octave.Props.C03flat", "Octave.Props.C03expr", "Octave.Props.C01blocks", "Octave.Props.C01sections", "Octave.Props.C01lists", "Octave.Props.C01unified"]
FREEDOMS = ["alias", "space", "indent", "blank", "trailing_space", "layout", "quotes", "multiword", "constructor", "end"]
CLASSES = {}


def spell_chunk(args):
    """[(seed, idx)] -> per document: canonical text + several lenient spellings, evaluated on the real code."""
    out = []
    for (seed, idx, nsp) in args:
        rng = random.Random(f"{seed}:{idx}")
        d = G.gen_doc(rng)
        ctext, _ = G.render(d, G.Spelling(rng, canonical=True))
        sp = []
        for j in range(nsp):
            if j == 2:
                # the far corner: every site of every documented freedom takes a non-canonical option
                t, _ = G.render(d, G.Spelling(rng, only=set(FREEDOMS) | {"body_indent"}, extreme=True))
                sp.append(("extreme", t, TC.eval_text(t)))
                continue
            if j < 2:
                # every freedom C03 documents, independently per site — and nothing else (omitting the envelope line of a
                # document named INFERRED is a reader feature, not one of C03's freedoms)
                only = set(FREEDOMS) | {"body_indent"}
                p = [0.35, 0.8][j]
            else:
                only = {FREEDOMS[(idx + j) % len(FREEDOMS)]}
                p = 0.9
            t, _ = G.render(d, G.Spelling(rng, p=p, only=only))
            sp.append((sorted(only) if len(only) == 1 else "all", t, TC.eval_text(t)))
        out.append({"model": d, "ctext": ctext, "c": TC.eval_text(ctext), "spellings": sp})
    return out


def run(ctx: vlib.Ctx):
    ctx.rule = ("content-model documents; per document the canonical spelling and 4 (thorough 8) lenient spellings: two with every freedom "
                "toggled independently per site (p=0.35 / 0.8), the others exercising one freedom alone (alias, space, indent, blank, "
                "trailing_space, layout, quotes, multiword, constructor, end) in rotation; distinct = distinct lenient text")
    proj = X.setup(ctx, PROPS)
    findings = vlib.load_findings(ctx.prop)
    nsp = 8 if ctx.thorough else 4
    n = ctx.budget(500, 4000)
    args = [(ctx.seed, i, nsp) for i in range(n)]
    res = [r for ch in vlib.pmap(spell_chunk, [args[i:i + 25] for i in range(0, len(args), 25)], chunksize=1) for r in ch]
    texts, impl_c1 = [], []
    for r in res:
        c0 = r["c"].get("c1")
        if c0 is None:
            X.classify(ctx, findings, CLASSES, {"text": r["ctext"], "model": r["model"]}, f"canonical spelling not canonicalisable: {TC.short(r['c'])}", "canonical-spelling-rejected")
            continue
        prof = SP.check(c0)
        if prof:
            X.classify(ctx, findings, CLASSES, {"text": r["ctext"], "model": r["model"]}, f"canonical text is outside the strict profile: {prof[:3]}", "strict-profile", {"canonical": c0})
        texts.append(r["ctext"]); impl_c1.append(c0)
        for (which, t, ev) in r["spellings"]:
            case = {"text": t, "canonical_spelling": r["ctext"], "freedoms": which}
            ctx.case({"text": t}, nontrivial=t != r["ctext"])
            ctx.count("freedom:" + (which if isinstance(which, str) else which[0]))
            c1 = ev.get("c1")
            if c1 is None:
                X.classify(ctx, findings, CLASSES, case, f"lenient spelling not canonicalisable: {TC.short(ev.get('pw', ev))}", "lenient-rejected")
            elif c1 != c0:
                X.classify(ctx, findings, CLASSES, case, "lenient and canonical spelling canonicalise to different bytes", "no-convergence",
                           {"from_lenient": c1, "from_canonical": c0})
            texts.append(t); impl_c1.append(c1)
    # correspondence: canonical text (model vs implementation)
    for t, c1, m in zip(texts, impl_c1, X.lean_canon(proj, texts)):
        if T.model_unsupported(m):
            ctx.count("model_unsupported")
        elif c1 is not None and m.get("text") != c1:
            X.corr(ctx, {"text": t}, "canonical text", m, c1)
    # octave_write(lenient=true): file bytes for a lenient spelling == file bytes for the canonical spelling
    from octave_mcp.mcp.write import WriteTool
    with tempfile.TemporaryDirectory() as td:
        for k, r in enumerate(res[: ctx.budget(80, 800)]):
            if r["c"].get("c1") is None:
                continue
            try:
                p0, p1 = os.path.join(td, f"a{k}.oct.md"), os.path.join(td, f"b{k}.oct.md")
                w0 = asyncio.run(WriteTool().execute(target_path=p0, content=r["ctext"], lenient=True))
                w1 = asyncio.run(WriteTool().execute(target_path=p1, content=r["spellings"][0][1], lenient=True))
                case = {"text": r["spellings"][0][1], "canonical_spelling": r["ctext"], "entry": "octave_write(lenient=true)"}
                ctx.case({"text": case["text"], "entry": "octave_write"})
                if w0.get("status") == "success" and w1.get("status") == "success":
                    b0, b1 = open(p0, "rb").read(), open(p1, "rb").read()
                    if b0 != b1:
                        X.classify(ctx, findings, CLASSES, case, "octave_write(lenient=true) writes different bytes for two spellings of one document", "write-no-convergence")
                    prof = SP.check(b1.decode("utf-8"))
                    if prof:
                        X.classify(ctx, findings, CLASSES, case, f"file written by octave_write is outside the strict profile: {prof[:3]}", "write-strict-profile")
                elif w0.get("status") != w1.get("status"):
                    X.classify(ctx, findings, CLASSES, case, f"octave_write accepts one spelling and refuses the other: {TC.short(w0.get('errors'))} / {TC.short(w1.get('errors'))}", "write-accept-differs")
            except BaseException as e:  # noqa: BLE001
                X.classify(ctx, findings, CLASSES, {"text": r["ctext"]}, f"octave_write raised {type(e).__name__}: {str(e)[:80]}", "write-raises")
    ctx.assumptions = ["the strict-profile recogniser tools/harness/strictprofile.py is written from the property statement (independent of the emitter)",
                       "proved: emitter-side facts (Props/C03), two spaces per level for block trees (C01blocks), convergence of every whitespace / quote / triple-quote / omitted-END spelling of flat documents (C03flat); of every ASCII-alias spelling of expressions (C03expr), of list layouts (C01lists), of # section markers (C01sections); spellings inside nested documents are decided by the convergence search"]
