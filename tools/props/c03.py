"""C03 — All lenient spellings converge on one canonical text in strict profile.

For every content-model document: emit(parse(lenient spelling)) == emit(parse(canonical spelling))
byte for byte, for several independent lenient spellings per document (each site toggled by its own
PRNG draw; single-freedom spellings cover each freedom alone), and every canonical output passes an
independently written line-level strict-profile recogniser; same through octave_write(lenient=true).
Correspondence: Lean reader+emitter model canonical text == implementation canonical text.
"""
import asyncio
import os
import random
import tempfile

import vlib
from harness import docgen as G
from harness import strictprofile as SP
from harness import text as T
from harness import textcheck as TC
from props import _text as X

PROPS = ["Octave.Props.C03", "Octave.Props.C03flat", "Octave.Props.C03expr", "Octave.Props.C01blocks", "Octave.Props.C01sections", "Octave.Props.C01lists", "Octave.Props.C01unified", "Octave.Props.C03indent", "Octave.Props.C03tree", "Octave.Props.C01maps", "Octave.Props.C07multiword", "Octave.Props.C07mwnum", "Octave.Props.C07mwbool", "Octave.Props.C07mwfloat", "Octave.Props.C03endindent"]
FREEDOMS = ["alias", "space", "indent", "blank", "trailing_space", "layout", "quotes", "multiword", "constructor", "end"]
CLASSES = {}


def spell_chunk(args):
    """[(seed, idx)] -> per document: canonical text + several lenient spellings, evaluated on the real code."""
    out = []
    for (seed, idx, nsp) in args:
        rng = random.Random(f"{seed}:{idx}")
        d = G.gen_doc(rng)
        ctext, _ = G.render(d, G.Spelling(rng, canonical=True))
        sp = []
        for j in range(nsp):
            if j == 2:
                # the far corner: every site of every documented freedom takes a non-canonical option
                t, _ = G.render(d, G.Spelling(rng, only=set(FREEDOMS) | {"body_indent"}, extreme=True))
                sp.append(("extreme", t, TC.eval_text(t)))
                continue
            if j < 2:
                # every freedom C03 documents, independently per site — and nothing else (omitting the envelope line of a
                # document named INFERRED is a reader feature, not one of C03's freedoms)
                only = set(FREEDOMS) | {"body_indent"}
                p = [0.35, 0.8][j]
            else:
                only = {FREEDOMS[(idx + j) % len(FREEDOMS)]}
                p = 0.9
            t, _ = G.render(d, G.Spelling(rng, p=p, only=only))
            sp.append((sorted(only) if len(only) == 1 else "all", t, TC.eval_text(t)))
        out.append({"model": d, "ctext": ctext, "c": TC.eval_text(ctext), "spellings": sp})
    return out


# --------------------------------------------------------------------------------------------------
# tool route (octave_write, strict and lenient): documents that END IN A FENCE once the optional ===END=== is omitted
# --------------------------------------------------------------------------------------------------
class _EndlessSpelling_toolroute(G.Spelling):
    """a spelling whose `end` site always takes the lenient option (===END=== omitted); every other site as configured."""

    def flip(self, kind):
        return True if kind == "end" else super().flip(kind)


def _asg_toolroute(k, v, lead=()):
    return {"t": "assign", "lead": list(lead), "k": k, "v": v, "trail": None}


def _zone_toolroute(lines, tag=None, fence=3):
    return {"t": "zone", "lines": list(lines), "tag": tag, "fence": fence}


def fence_edge_models_toolroute():
    """[(label, model)] — the envelope line is kept (text without one is wrapped by the tools as plain text: not a C03 freedom);
    the LAST element is a literal zone, so that with ===END=== omitted the text ends in a closing fence: zone at top level
    (column-0 fence), as a block child, as a bare zone, as a section child; every fence shape (plain, tagged, longer run with
    shorter runs inside, empty, content that looks like a document); preceded by nothing / an assignment / META + a nested zone /
    another top-level zone / fence look-alikes in a comment and a string.  Plus documents whose FIRST body line opens a zone."""
    base = lambda: {"name": "RUNBOOK", "gv": None, "fm": None, "meta": [], "sep": False, "nodes": [], "trailing": []}  # noqa: E731
    A, Z = _asg_toolroute, _zone_toolroute
    zones = [("plain", Z(["make check | tee log"])), ("tagged", Z(["make all", "  x -> y"], "sh")), ("long-fence", Z(["```", "x", "```py"], None, 4)),
             ("empty", Z([])), ("looks-like-doc", Z(["===END===", "K::1", "// c"], "oct")), ("tab+trailing", Z(["\ttab", "trailing  ", ""], "json", 5))]
    owner = lambda: A("OWNER", {"t": "word", "v": "platform"})  # noqa: E731
    heads = [("alone", lambda: ([], [])),
             ("after-assign", lambda: ([], [owner()])),
             ("after-meta+nested-zone", lambda: ([["TYPE", {"t": "word", "v": "GUIDE"}]],
                                                 [{"t": "block", "lead": [], "k": "STEPS", "target": None, "orphan": [],
                                                   "ch": [A("INTENT", {"t": "expr", "operands": ["build", "test", "ship"], "ops": ["→", "→"]}), A("SCRIPT", Z(["make all"], "sh"))]},
                                                  owner()])),
             ("after-top-zone", lambda: ([], [A("FIRST", Z(["a", "b"], "python")), A("MID", {"t": "int", "v": 1})])),
             ("after-fence-lookalikes", lambda: ([], [A("K", {"t": "qstr", "v": "``` not a fence"}, lead=["``` in a comment"])]))]
    out = []
    for hn, hf in heads:
        for zn, z in zones:
            meta, nodes = hf()
            d = base(); d["meta"] = meta; d["nodes"] = nodes + [A("VERIFY", z)]
            out.append((f"top-zone-last:{hn}:{zn}", d))
    for zn, z in zones[:4]:
        d = base(); d["nodes"] = [owner(), {"t": "block", "lead": [], "k": "B", "target": None, "orphan": [], "ch": [A("X", {"t": "int", "v": 1}), A("VERIFY", z)]}]
        out.append((f"block-child-zone-last:{zn}", d))
        d = base(); d["nodes"] = [owner(), {"t": "block", "lead": [], "k": "B", "target": "T", "orphan": [], "ch": [A("X", {"t": "int", "v": 1}), {"t": "bzone", "lead": [], "v": z}]}]
        out.append((f"bare-zone-last:{zn}", d))
        d = base(); d["nodes"] = [owner(), {"t": "section", "lead": [], "id": "1", "name": "S", "ann": None, "ch": [A("VERIFY", z)]}]
        out.append((f"section-child-zone-last:{zn}", d))
        d = base(); d["nodes"] = [A("VERIFY", z), owner()]
        out.append((f"top-zone-first:{zn}", d))
    return out


# (name, freedoms toggled besides the forced omission of ===END===, probability per site, write modes)
FENCE_EDGE_SPELLINGS_TOOLROUTE = [("end", set(), 0.0, (True, False)), ("end+blank+trailing_space", {"blank", "trailing_space"}, 0.9, (True, False)),
                                  ("end+all", set(FREEDOMS) | {"body_indent"}, 0.5, (True,))]


def fence_edge_chunk_toolroute(args):
    """worker: [(tag, label, model | None, index)] -> records {label, spelling, lenient, ctext, text, c0, status:[canonical, lenient],
    bytes:[canonical, lenient]} from octave_write on the real code (model None: generated from (tag, index))."""
    from octave_mcp.core.emitter import emit
    from octave_mcp.core.parser import parse
    from octave_mcp.mcp.write import WriteTool
    out = []
    with tempfile.TemporaryDirectory() as td:
        for (tag, label, d, mi) in args:
            rng = random.Random(f"{tag}:{mi}")
            if d is None:
                # a generated content-model document whose last element is made a literal zone (top level / block child), or that has
                # a top-level zone both first and last
                d = G.gen_doc(rng)
                d["trailing"] = []
                z, r = G.gen_zone(rng), rng.random()
                if r < 0.6:
                    d["nodes"].append(_asg_toolroute("ZTAIL", z)); label = "gen:top-zone-last"
                elif r < 0.8:
                    d["nodes"].append({"t": "block", "lead": [], "k": "ZB", "target": None, "orphan": [], "ch": [_asg_toolroute("ZTAIL", z)]}); label = "gen:block-child-zone-last"
                else:
                    d["nodes"].insert(0, _asg_toolroute("ZHEAD", z)); d["nodes"].append(_asg_toolroute("ZTAIL", G.gen_zone(rng))); label = "gen:zone-first-and-last"
            ctext, _ = G.render(d, G.Spelling(rng, canonical=True))
            try:
                c0 = emit(parse(ctext))
            except Exception as e:  # noqa: BLE001
                out.append({"label": label, "ctext": ctext, "canonical_rejected": f"{type(e).__name__}: {str(e)[:80]}"})
                continue
            for (sn, only, p, modes) in FENCE_EDGE_SPELLINGS_TOOLROUTE:
                ltext, _ = G.render(d, _EndlessSpelling_toolroute(rng, p=p, only=set(only)))
                for lenient in modes:
                    rec = {"label": label, "spelling": sn, "lenient": lenient, "ctext": ctext, "text": ltext, "c0": c0, "status": [], "bytes": []}
                    for k, t in enumerate((ctext, ltext)):
                        path = os.path.join(td, f"f{mi}_{k}.oct.md")
                        if os.path.exists(path):
                            os.remove(path)
                        try:
                            w = asyncio.run(WriteTool().execute(target_path=path, content=t, lenient=lenient))
                            st = w.get("status")
                            rec["status"].append(st if st == "success" else f"{st}: {TC.short(w.get('errors'))}")
                            rec["bytes"].append(open(path, "rb").read().decode("utf-8", "replace") if st == "success" and os.path.exists(path) else None)
                        except BaseException as e:  # noqa: BLE001
                            rec["status"].append(f"raised {type(e).__name__}: {str(e)[:80]}")
                            rec["bytes"].append(None)
                    out.append(rec)
    return out


def fence_edge_toolroute(ctx, findings):
    """octave_write (lenient and strict) on the fence-edge family: the bytes written for the spelling that omits ===END=== (alone;
    with blank lines / trailing spaces; with every other freedom) and for the canonical spelling must both be the canonical text
    emit(parse(canonical spelling)), byte for byte, and the tool must not accept one spelling and refuse the other (lenient mode)."""
    fixed = fence_edge_models_toolroute()
    items = [(f"{ctx.seed}:fence-fixed", label, d, i) for i, (label, d) in enumerate(fixed)]
    items += [(f"{ctx.seed}:fence-gen", None, None, i) for i in range(ctx.budget(40, 600))]
    recs = [r for ch in vlib.pmap(fence_edge_chunk_toolroute, [items[i:i + 6] for i in range(0, len(items), 6)], chunksize=1) for r in ch]
    for r in recs:
        if "canonical_rejected" in r:
            X.classify(ctx, findings, CLASSES, {"text": r["ctext"], "family": r["label"]}, f"canonical spelling not canonicalisable: {r['canonical_rejected']}", "canonical-spelling-rejected")
            continue
        entry = f"octave_write(lenient={str(r['lenient']).lower()})"
        case = {"text": r["text"], "canonical_spelling": r["ctext"], "entry": entry, "family": r["label"], "freedoms": r["spelling"]}
        ctx.case({"text": r["text"], "entry": entry})
        ctx.count("fence-edge:" + (r["label"] if r["label"].startswith("gen:") else r["label"].split(":")[0]))
        (s0, s1), (b0, b1) = r["status"], r["bytes"]
        if s0.startswith("raised") or s1.startswith("raised"):
            X.classify(ctx, findings, CLASSES, case, f"{entry}: {s0} / {s1}", "write-raises")
            continue
        for which, b in (("the canonical spelling", b0), ("the spelling that omits ===END===", b1)):
            if b is not None and b != r["c0"]:
                X.classify(ctx, findings, CLASSES, case, f"{entry} on {which} writes bytes that differ from the canonical text", "write-no-convergence",
                           {"written": b, "canonical": r["c0"]})
                break
        if (b0 is None) != (b1 is None):
            if r["lenient"]:
                X.classify(ctx, findings, CLASSES, case, f"{entry} accepts one spelling and refuses the other: {s0} / {s1}", "write-accept-differs")
            else:
                ctx.count("fence-edge:strict-accept-differs")   # strict mode promises no acceptance of lenient spellings: counted only
        elif b0 is None:
            ctx.count("fence-edge:both-refused")


def run(ctx: vlib.Ctx):
    ctx.rule = ("content-model documents (seeded + fixed families: strings beginning/ending with a line break, blank or tab in every quoting style, "
                "chained tensions, runs of empty lists, deep lists); per document the canonical spelling and 4 (thorough 8) lenient spellings: two with every freedom "
                "toggled independently per site (p=0.35 / 0.8), the others exercising one freedom alone (alias, space, indent, blank, "
                "trailing_space, layout, quotes, multiword, constructor, end) in rotation; distinct = distinct lenient text; octave_write (lenient and strict) on the "
                "fence-edge family: documents whose last element is a literal zone (top level / block child / bare / section child, every fence shape) with "
                "===END=== omitted, written bytes == canonical text")
    proj = X.setup(ctx, PROPS)
    findings = vlib.load_findings(ctx.prop)
    nsp = 8 if ctx.thorough else 4
    n = ctx.budget(500, 4000)
    args = [(ctx.seed, i, nsp) for i in range(n)]
    res = [r for ch in vlib.pmap(spell_chunk, [args[i:i + 25] for i in range(0, len(args), 25)], chunksize=1) for r in ch]
    # fixed families (docgen.family_docs), same shape: canonical spelling + corner spellings (every site non-canonical x which
    # alias x which triple-quoted form) + seeded spellings, restricted to the freedoms C03 documents
    fargs = TC.family_args(ctx.seed, only=set(FREEDOMS) | {"body_indent"})
    fam = [r for ch in vlib.pmap(TC.family_chunk, [fargs[i:i + 8] for i in range(0, len(fargs), 8)], chunksize=1) for r in ch]
    fam_res = [{"model": r["model"], "ctext": r["spellings"][0]["text"], "c": r["spellings"][0]["ev"], "family": r["family"],
                "spellings": [("family:" + r["family"], s["text"], s["ev"]) for s in r["spellings"][1:]]} for r in fam]
    texts, impl_c1 = [], []
    for r in res + fam_res:
        c0 = r["c"].get("c1")
        if c0 is None:
            X.classify(ctx, findings, CLASSES, {"text": r["ctext"], "model": r["model"]}, f"canonical spelling not canonicalisable: {TC.short(r['c'])}", "canonical-spelling-rejected")
            continue
        prof = SP.check(c0)
        if prof:
            X.classify(ctx, findings, CLASSES, {"text": r["ctext"], "model": r["model"]}, f"canonical text is outside the strict profile: {prof[:3]}", "strict-profile", {"canonical": c0})
        texts.append(r["ctext"]); impl_c1.append(c0)
        for (which, t, ev) in r["spellings"]:
            case = {"text": t, "canonical_spelling": r["ctext"], "freedoms": which}
            ctx.case({"text": t}, nontrivial=t != r["ctext"])
            ctx.count("freedom:" + (which if isinstance(which, str) else which[0]))
            c1 = ev.get("c1")
            if c1 is None:
                X.classify(ctx, findings, CLASSES, case, f"lenient spelling not canonicalisable: {TC.short(ev.get('pw', ev))}", "lenient-rejected")
            elif c1 != c0:
                X.classify(ctx, findings, CLASSES, case, "lenient and canonical spelling canonicalise to different bytes", "no-convergence",
                           {"from_lenient": c1, "from_canonical": c0})
            texts.append(t); impl_c1.append(c1)
    # correspondence: canonical text (model vs implementation)
    for t, c1, m in zip(texts, impl_c1, X.lean_canon(proj, texts)):
        if T.model_unsupported(m):
            ctx.count("model_unsupported")
        elif c1 is not None and m.get("text") != c1:
            X.corr(ctx, {"text": t}, "canonical text", m, c1)
    # octave_write(lenient=true): file bytes for a lenient spelling == file bytes for the canonical spelling
    from octave_mcp.mcp.write import WriteTool
    # (family members whose class lives in the string / operator spellings go through the tool too, each in two corner spellings)
    wpairs = [(r, 0) for r in res[: ctx.budget(80, 800)]] + [(r, j) for r in fam_res if r["family"] in ("edge-strings", "chained-tension") for j in (0, 1)]
    with tempfile.TemporaryDirectory() as td:
        for k, (r, j) in enumerate(wpairs):
            if r["c"].get("c1") is None:
                continue
            try:
                p0, p1 = os.path.join(td, f"a{k}.oct.md"), os.path.join(td, f"b{k}.oct.md")
                w0 = asyncio.run(WriteTool().execute(target_path=p0, content=r["ctext"], lenient=True))
                w1 = asyncio.run(WriteTool().execute(target_path=p1, content=r["spellings"][j][1], lenient=True))
                case = {"text": r["spellings"][j][1], "canonical_spelling": r["ctext"], "entry": "octave_write(lenient=true)"}
                ctx.case({"text": case["text"], "entry": "octave_write"})
                if w0.get("status") == "success" and w1.get("status") == "success":
                    b0, b1 = open(p0, "rb").read(), open(p1, "rb").read()
                    if b0 != b1:
                        X.classify(ctx, findings, CLASSES, case, "octave_write(lenient=true) writes different bytes for two spellings of one document", "write-no-convergence")
                    prof = SP.check(b1.decode("utf-8"))
                    if prof:
                        X.classify(ctx, findings, CLASSES, case, f"file written by octave_write is outside the strict profile: {prof[:3]}", "write-strict-profile")
                elif w0.get("status") != w1.get("status"):
                    X.classify(ctx, findings, CLASSES, case, f"octave_write accepts one spelling and refuses the other: {TC.short(w0.get('errors'))} / {TC.short(w1.get('errors'))}", "write-accept-differs")
            except BaseException as e:  # noqa: BLE001
                X.classify(ctx, findings, CLASSES, {"text": r["ctext"]}, f"octave_write raised {type(e).__name__}: {str(e)[:80]}", "write-raises")
    fence_edge_toolroute(ctx, findings)
    ctx.assumptions = ["the strict-profile recogniser tools/harness/strictprofile.py is written from the property statement (independent of the emitter)",
                       "proved: emitter-side facts (Props/C03), two spaces per level for block trees (C01blocks), convergence of every whitespace / quote / triple-quote / omitted-END spelling of flat documents (C03flat); of every ASCII-alias spelling of expressions (C03expr), of list layouts (C01lists), of # section markers (C01sections); spellings inside nested documents are decided by the convergence search"]
