"""Common orchestration of the text-pipeline checks (C01 C02 C03 C05 C07 C20): translate, Lean build
and audit, fingerprints, generation of the shared input streams, evaluation on the real code in
worker processes, and the Lean-model side of the correspondence."""
from __future__ import annotations

import vlib
from harness import text as T
from harness import textcheck as TC

PROJECT = "text"
ANCHORS = [("octave_mcp/core/lexer.py", None), ("octave_mcp/core/parser.py", None), ("octave_mcp/core/emitter.py", None)]
TRUSTED = ["Lean 4.33.0 kernel; axioms per theorem listed in coverage.theorems",
           "tools/gen/text.py (regenerated tables) + pinned facts lean/text/Octave/Props/Facts.lean",
           "correspondence harness tools/props/_text.py + tools/harness/{text,textcheck,docgen}.py (differential)",
           "modelled, validated not verified: control flow of lexer.py / parser.py / emitter.py as transcribed in lean/text/Octave/Model; "
           "holographic.py is not modelled (the model answers `unsupported` for lists that would be tried as holographic patterns)"]


def setup(ctx: vlib.Ctx, props):
    ctx.translate(PROJECT)
    proj = ctx.lean(PROJECT, list(props) + ["Octave.Props.Facts"])
    if vlib.fingerprints_changed(ctx.prop, ANCHORS):
        ctx.widen = max(ctx.widen, 4)
        ctx.notes.append("fingerprint of a modelled file changed: search widened")
    ctx.trusted = TRUSTED
    return proj


def doc_cases(ctx: vlib.Ctx, n: int, zones=True):
    """n generated content-model documents, evaluated on the real code (parallel)."""
    args = [(ctx.seed, i, zones) for i in range(n)]
    chunks = [args[i:i + 50] for i in range(0, len(args), 50)]
    return [r for ch in vlib.pmap(TC.eval_chunk, chunks, chunksize=1) for r in ch]


def raw_cases(texts):
    chunks = [texts[i:i + 400] for i in range(0, len(texts), 400)]
    return [r for ch in vlib.pmap(TC.eval_raw_chunk, chunks, chunksize=1) for r in ch]


def corpus_texts():
    out = []
    for p in T.corpus_files():
        try:
            out.append(p.read_text(encoding="utf-8"))
        except Exception:  # noqa: BLE001
            pass
    return out


def lean_parse_warn(proj, texts):
    drv = proj.driver()
    return drv.batch_par([{"op": "parse_warn", "s": s, "env": T.make_env(s)} for s in texts])


def lean_canon(proj, texts):
    drv = proj.driver()
    return drv.batch_par([{"op": "canon", "s": s, "env": T.make_env(s)} for s in texts])


def lean_parse(proj, texts):
    drv = proj.driver()
    return drv.batch_par([{"op": "parse", "s": s, "env": T.make_env(s)} for s in texts])


def classify(ctx, findings, classes, case, why, why_class, extra=None):
    """Route a failure on the real code: inside an open known-finding class -> counted; else -> new violation."""
    for f in findings:
        pred = classes.get(f["cls"])
        if pred is not None and pred(case):
            ctx.known_hits[f["id"]] = ctx.known_hits.get(f["id"], 0) + 1
            return False
    rec = {"case": case, "why": why, "why_class": why_class}
    if extra:
        rec.update(extra)
    ctx.failures.append(rec)
    return True


def corr(ctx, case, view, model, impl):
    if len(ctx.corr_disagreements) < 20:
        ctx.corr_disagreements.append({"case": case, "view": view, "model": model, "impl": impl})
    else:
        ctx.count("corr_disagreements_not_listed")
