"""C01 — Canonicalisation is idempotent and its output is re-readable.

For every input x the lenient reader accepts: c1 = emit(parse_with_warnings(x)) is accepted by the
strict reader and emit(parse(c1)) == c1.  Streams: content-model documents (canonical + lenient
spelling), the repository's own documents, exhaustive token sequences as assignment values, span
mutations.  Entry points: Python API, octave_validate, octave_write (+normalize), CLI (thorough).
Correspondence: the Lean reader+emitter model must give the same canonical text / the same strict
verdict as the implementation on the same inputs.
"""
import asyncio
import os
import random
import re
import subprocess
import tempfile

import vlib
from harness import text as T
from harness import textcheck as TC
from props import _text as X

PROPS = ["Octave.Props.C01", "Octave.Props.C01flat", "Octave.Props.C01roundtrip", "Octave.Props.C01blocks", "Octave.Props.C01tree", "Octave.Props.C01comments", "Octave.Props.C01meta", "Octave.Props.C01sections", "Octave.Props.C01lists", "Octave.Props.C01ctree", "Octave.Props.C01unified", "Octave.Props.C01document", "Octave.Props.C01master", "Octave.Props.C01maps", "Octave.Props.C01nested"]

NUMBER_RE = re.compile(r"-?\d+\.?\d*(?:[eE][+-]?\d+)?")


def kf_nonfinite_number(case) -> bool:
    """F3: a NUMBER lexeme whose float value overflows to infinity (canonical `inf`/`-inf`)."""
    for m in NUMBER_RE.finditer(case["text"]):
        lex = m.group()
        if "." in lex or "e" in lex.lower():
            try:
                if float(lex) in (float("inf"), float("-inf")):
                    return True
            except ValueError:
                pass
    return False


def kf_frontmatter_with_sentinel(case) -> bool:
    """C01N1: YAML frontmatter AND a grammar sentinel: the sentinel pattern only matches at offset 0,
    which the frontmatter padding makes impossible."""
    t = case["text"]
    return t.startswith("---") and re.search(r"(?m)^OCTAVE::\d", t) is not None


def kf_holographic(case) -> bool:
    """F4/F10: a bracket list that is tried as a holographic pattern (contains ∧ or & and is re-emitted
    from a token reconstruction that neither re-escapes strings nor separates adjacent tokens)."""
    t = case["text"]
    return re.search(r"\[[^\[\]\n]*[∧&][^\[\]\n]*\]", t) is not None or ("∧" in t or "&" in t) and "[" in t


def _lenient(case):
    return T.py_parse_warn(case["text"])


def kf_body_node_keyed_meta(case) -> bool:
    """C01N3: the lenient reader yields a top-level BODY node whose key is META (e.g. junk before `META:`);
    its canonical text starts with `META:` and is re-read as the (empty) META block."""
    pw = _lenient(case)
    if "doc" not in pw:
        return False
    for n in pw["doc"]["sections"]:
        k = (n.get("a") or n.get("b") or {}).get("k")
        if k == "META":
            return True
    return False


def kf_nested_inline_map(case) -> bool:
    """C01N4: the lenient reader accepts an inline map whose value holds an inline map (warning
    nested_inline_map); the strict reader refuses exactly that construct (E_NESTED_INLINE_MAP)."""
    pw = _lenient(case)
    return any(w[0] == "nested_inline_map" for w in pw.get("warnings", []))


def kf_zone_in_list(case) -> bool:
    """C01N5: the lenient parse holds a literal zone inside a list (as item or inline-map value)."""
    pw = _lenient(case)
    if "doc" not in pw:
        return False
    import json as _j
    def has(v, inside):
        if isinstance(v, dict):
            if "z" in v:
                return inside
            if "l" in v:
                return any(has(x, True) for x in v["l"])
            if "m" in v:
                return any(has(x, inside) for _k, x in v["m"])
            return any(has(x, inside) for x in v.values())
        if isinstance(v, list):
            return any(has(x, inside) for x in v)
        return False
    return has(pw["doc"], False)


def kf_zone_in_meta(case) -> bool:
    """C01N6: the lenient parse holds a literal zone as a META value (emit_meta prints it inline)."""
    pw = _lenient(case)
    if "doc" not in pw:
        return False
    for _k, mv in pw["doc"]["meta"]:
        vals = [mv["v"]] if "v" in mv else [v for _kk, v in mv["d"]]
        if any(isinstance(v, dict) and "z" in v for v in vals):
            return True
    return False


def kf_cr_in_string_via_file(case) -> bool:
    """C01N7: the text holds a raw carriage return (inside a quoted string: anywhere else the lexer refuses it) AND the route goes
    through a file the tools read back (universal-newline text mode turns CR into LF)."""
    return case.get("entry") in ("tools", "cli") and "\r" in case["text"]


def kf_unlexable_frontmatter_via_strict_write(case) -> bool:
    """C01N8: the route goes through the tools AND the text opens with a YAML frontmatter block (`---` ... `---`) that the OCTAVE
    lexer refuses when it is read as OCTAVE text (parentheses, ...): octave_write's strict path lexes the raw content, frontmatter
    included, before the reader strips it."""
    if case.get("entry") != "tools":
        return False
    lines = case["text"].split("\n")
    if not case["text"].startswith("---") or lines[0].strip() != "---":
        return False
    for i in range(1, len(lines)):
        if lines[i].strip() == "---":
            from octave_mcp.core.lexer import LexerError, tokenize
            try:
                tokenize("\n".join(lines[: i + 1]) + "\n")
            except LexerError:
                return True
            return False
    return False


def write_then_normalize(text, lenient=False):
    """the file route of C01 on one text: octave_write(content) then octave_write(normalize); why or None."""
    from octave_mcp.mcp.write import WriteTool
    with tempfile.TemporaryDirectory() as td:
        p = os.path.join(td, "w.oct.md")
        w1 = asyncio.run(WriteTool().execute(target_path=p, content=text, lenient=lenient))
        if w1.get("status") != "success":
            return None
        w2 = asyncio.run(WriteTool().execute(target_path=p))
        if w2.get("status") != "success":
            return "octave_write normalize fails on the file octave_write wrote"
        if w2.get("canonical_hash") != w1.get("canonical_hash"):
            return f"octave_write normalize changes a file octave_write just wrote ({w2.get('diff')})"
    return None


CLASSES = {"kf_unlexable_frontmatter_via_strict_write": kf_unlexable_frontmatter_via_strict_write, "kf_cr_in_string_via_file": kf_cr_in_string_via_file, "kf_zone_in_meta": kf_zone_in_meta, "kf_zone_in_list": kf_zone_in_list, "kf_body_node_keyed_meta": kf_body_node_keyed_meta, "kf_nested_inline_map": kf_nested_inline_map,
           "kf_frontmatter_with_sentinel": kf_frontmatter_with_sentinel,
           "kf_holographic": kf_holographic}


def oracle(r):
    """-> (why, why_class) or None, for one eval_text result."""
    if "err" in r["pw"]:
        return None  # not accepted: outside the property
    if "c1_err" in r:
        return f"emit raised on an accepted input: {r['c1_err']}", "emit-raises"
    if "strict_err" in r:
        return f"canonical text rejected by the strict reader: {r['strict_err']}", "canonical-rejected"
    if r["c2"] != r["c1"]:
        return "canonicalising the canonical text changes it", "not-idempotent"
    return None


def tool_roundtrip(ctx, texts, findings):
    """octave_validate(content=x).canonical fed back to octave_validate AND to octave_write (strict reader);
    octave_write(content=x, lenient=false/true) then normalize."""
    from octave_mcp.mcp.validate import ValidateTool
    from octave_mcp.mcp.write import WriteTool
    with tempfile.TemporaryDirectory() as td:
        for i, x in enumerate(texts):
            case = {"text": x, "entry": "tools"}
            ctx.case(case)
            try:
                v1 = asyncio.run(ValidateTool().execute(content=x, schema="META"))
                if v1.get("status") == "success" and isinstance(v1.get("canonical"), str):
                    c1 = v1["canonical"]
                    v2 = asyncio.run(ValidateTool().execute(content=c1, schema="META"))
                    if v2.get("status") != "success":
                        X.classify(ctx, findings, CLASSES, case, f"octave_validate rejects its own canonical output: {TC.short(v2.get('errors'))}", "validate-rejects-canonical")
                    elif v2.get("canonical") != c1:
                        X.classify(ctx, findings, CLASSES, case, "octave_validate.canonical is not a fixed point", "validate-not-idempotent",
                                   {"c1": c1, "c2": v2.get("canonical")})
                    # ... and the canonical text one tool returns is readable by the other (octave_write reads strictly by default)
                    w0 = asyncio.run(WriteTool().execute(target_path=os.path.join(td, f"v{i}.oct.md"), content=c1))
                    if w0.get("status") != "success":
                        X.classify(ctx, findings, CLASSES, case, f"octave_write refuses the canonical text octave_validate returned: {TC.short(w0.get('errors'))}", "write-rejects-validate-canonical",
                                   {"c1": c1})
                for lenient in (False, True):
                    p = os.path.join(td, f"w{i}{'l' if lenient else ''}.oct.md")
                    w1 = asyncio.run(WriteTool().execute(target_path=p, content=x, lenient=lenient))
                    if w1.get("status") == "success":
                        h1 = w1.get("canonical_hash")
                        w2 = asyncio.run(WriteTool().execute(target_path=p))  # normalize mode
                        c2 = dict(case, lenient=lenient)
                        if w2.get("status") != "success":
                            X.classify(ctx, findings, CLASSES, c2, f"octave_write normalize fails on the file octave_write(lenient={lenient}) wrote: {TC.short(w2.get('errors'))}", "write-normalize-fails")
                        elif w2.get("canonical_hash") != h1:
                            X.classify(ctx, findings, CLASSES, c2, f"octave_write normalize changes a file octave_write(lenient={lenient}) just wrote", "write-normalize-changes",
                                       {"diff": TC.short(w2.get("diff"))})
            except BaseException as e:  # noqa: BLE001
                X.classify(ctx, findings, CLASSES, case, f"tool raised {type(e).__name__}: {str(e)[:100]}", "tool-raises")


def cli_roundtrip(ctx, texts, findings):
    """`octave normalize f` piped to `octave normalize` (thorough tier; subprocess cost)."""
    with tempfile.TemporaryDirectory() as td:
        for i, x in enumerate(texts):
            p = os.path.join(td, f"c{i}.oct.md")
            with open(p, "w", encoding="utf-8", newline="") as fh:
                fh.write(x)
            r1 = subprocess.run(["/venv/bin/octave", "normalize", p], capture_output=True, text=True, timeout=120)
            if r1.returncode != 0:
                continue
            p2 = os.path.join(td, f"c{i}b.oct.md")
            with open(p2, "w", encoding="utf-8", newline="") as fh:
                fh.write(r1.stdout)
            r2 = subprocess.run(["/venv/bin/octave", "normalize", p2], capture_output=True, text=True, timeout=120)
            case = {"text": x, "entry": "cli normalize"}
            ctx.case(case)
            if r2.returncode != 0:
                X.classify(ctx, findings, CLASSES, case, f"`octave normalize` rejects its own output: {r2.stderr[:120]}", "cli-rejects-canonical")
            elif r2.stdout != r1.stdout:
                X.classify(ctx, findings, CLASSES, case, "`octave normalize` output is not a fixed point", "cli-not-idempotent")


def run(ctx: vlib.Ctx):
    ctx.rule = ("content-model documents (canonical + one seeded lenient spelling each), fixed families of content-model documents (expressions with "
                "two or more tension operators in every position; strings beginning/ending with a line break, blank or tab; runs of empty lists; deep "
                "lists) in canonical, corner and seeded spellings, every OCTAVE document shipped in the repo, "
                "`K::`+every token sequence of length <=2 (thorough 3) over a 38-symbol token alphabet (incl. non-ASCII digits of categories No, Nd, Nl) at top level and as a block child, "
                "seeded span mutations of corpus and generated texts; non-trivial = accepted by the lenient reader; distinct = distinct text")
    proj = X.setup(ctx, PROPS)
    findings = vlib.load_findings(ctx.prop)
    rng = random.Random(ctx.seed)
    n_docs = ctx.budget(600, 6000)
    docs = X.doc_cases(ctx, n_docs)
    texts = []
    for r in docs:
        texts += [r["ctext"], r["ltext"]]
    results = []
    for r in docs:
        results += [r["c"], r["l"]]
    # fixed families (docgen.family_docs): chained tensions, strings with layout characters at their ends, runs of empty lists,
    # deep lists - each in its canonical spelling, the deterministic corners of the spelling space and two seeded spellings
    fargs = TC.family_args(ctx.seed)
    fam = [r for ch in vlib.pmap(TC.family_chunk, [fargs[i:i + 8] for i in range(0, len(fargs), 8)], chunksize=1) for r in ch]
    fam_tool_texts = []
    for r in fam:
        for s in r["spellings"]:
            texts.append(s["text"]); results.append(s["ev"])
            ctx.count("family:" + r["family"])
        if r["family"] in ("chained-tension", "edge-strings"):
            fam_tool_texts += [r["spellings"][0]["text"], r["spellings"][1]["text"]]
    corpus = X.corpus_texts()
    seqs = TC.token_sequences(3 if (ctx.thorough or ctx.widen > 1) else 2, rng, sample=None if ctx.thorough else 12000)
    muts = []
    base = corpus + [r["ctext"] for r in docs[: 200]]
    for _ in range(ctx.budget(1500, 20000)):
        t = rng.choice(base)
        for _ in range(rng.choice([1, 1, 2, 3])):
            t = TC.mutate(t, rng)
        muts.append(t)
    raw = corpus + seqs + muts
    raw_results = X.raw_cases(raw)
    texts += raw
    results += raw_results
    ctx.count("stream:docs", 2 * len(docs)); ctx.count("stream:corpus", len(corpus)); ctx.count("stream:token_sequences", len(seqs)); ctx.count("stream:mutations", len(muts))
    # known findings: replay witnesses
    for f in findings:
        w = f["witness"]
        if w.get("entry") == "tools":
            why = write_then_normalize(w["text"], lenient=bool(w.get("lenient")))
            if why:
                ctx.known_reproduced.append((f, why))
            else:
                ctx.notes.append(f"known finding {f['id']} no longer reproduces on its witness")
            continue
        o = oracle(TC.eval_text(w["text"]))
        if o:
            ctx.known_reproduced.append((f, o[1]))
        else:
            ctx.notes.append(f"known finding {f['id']} no longer reproduces on its witness")
    # Lean model side
    canon = X.lean_canon(proj, texts)
    c1s = [(i, r["c1"]) for i, r in enumerate(results) if "c1" in r]
    strict = dict(zip([i for i, _ in c1s], X.lean_parse(proj, [c for _, c in c1s])))
    n_acc = 0
    for i, (x, r, m) in enumerate(zip(texts, results, canon)):
        case = {"text": x}
        accepted = "err" not in r["pw"]
        ctx.case(case, nontrivial=accepted)
        n_acc += accepted
        # correspondence, view = accept/reject + canonical text, and strict verdict on the canonical text
        if T.model_unsupported(m):
            ctx.count("model_unsupported")
        else:
            if accepted and "c1" in r:
                if m.get("text") != r["c1"]:
                    X.corr(ctx, case, "canonical text emit(parse_with_warnings(x))", m, r["c1"])
            elif not accepted:
                if "err" not in m or m["err"][0] != r["pw"]["err"][0]:
                    X.corr(ctx, case, "accept/reject (exception class)", m, r["pw"])
            sm = strict.get(i)
            if sm is not None and not T.model_unsupported(sm):
                if ("strict_err" in r) != ("err" in sm):
                    X.corr(ctx, case, "strict reader verdict on the canonical text", sm.get("err", "accepted"), r.get("strict_err", "accepted"))
        # oracle
        o = oracle(r)
        if o:
            X.classify(ctx, findings, CLASSES, case, o[0], o[1], {"c1": r.get("c1"), "c2": r.get("c2")})
        ctx.count("accepted" if accepted else "rejected:" + str(r["pw"]["err"][:2]))
    ctx.extra["accepted_fraction"] = round(n_acc / max(1, len(texts)), 3)
    # tools and CLI
    accepted_texts = [x for x, r in zip(texts, results) if "c1" in r]
    tool_roundtrip(ctx, rng.sample(accepted_texts, min(len(accepted_texts), ctx.budget(150, 3000))) + fam_tool_texts, findings)
    if ctx.thorough:
        cli_roundtrip(ctx, rng.sample(accepted_texts, min(len(accepted_texts), 150)) + fam_tool_texts[1::2], findings)
    ctx.assumptions = ["Env (NFC, Unicode classes, repr(float)) supplied per case from the running CPython",
                       "proved for all inputs of each class (the Props modules listed under coverage.theorems): the document-level round trip (emit -> strict read -> same document -> same bytes) for flat documents, nested blocks, META + trees, sections, expressions, list values, commented trees; mixtures outside the listed classes, floats inside documents, inline maps, holographic values, zones in lists/META are decided by the exhaustive/seeded correspondence and the oracle on the real code"]
