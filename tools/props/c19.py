"""C19 — Tools cannot be steered outside the intended files.   Engine: lean/paths.

  translate (tools/gen/paths.py -> Octave/Gen/Paths.lean) -> lean build + audit -> known findings ->
  correspondence (Model/Paths.lean vs. the three validators, loader, hydrator on real trees) ->
  oracle on the real code (audit-hook interposition + before/after snapshots).
See notes/C19.md.
"""
from __future__ import annotations

import hashlib
import itertools
import json
import os
import sys
from concurrent.futures import ThreadPoolExecutor

import vlib

sys.path.insert(0, str(vlib.VERIF / "tools"))
from harness import paths_fs as P  # noqa: E402
from harness import paths_worker as PW  # noqa: E402

PROJECT = "paths"
PROPS = ["Octave.Props.C19", "Octave.Props.C19fuel"]
ANCHORS = [("octave_mcp/mcp/write.py", "WriteTool._validate_path"), ("octave_mcp/mcp/write.py", "WriteTool.execute"),
           ("octave_mcp/mcp/validate.py", "ValidateTool._validate_path"), ("octave_mcp/mcp/validate.py", "ValidateTool.execute"),
           ("octave_mcp/core/file_ops.py", "validate_octave_path"), ("octave_mcp/core/file_ops.py", "atomic_write_octave"),
           ("octave_mcp/schemas/loader.py", "load_schema_by_name"), ("octave_mcp/schemas/loader.py", "get_schema_search_paths"),
           ("octave_mcp/schemas/loader.py", "load_schema"), ("octave_mcp/schemas/loader.py", None),
           ("octave_mcp/core/hydrator.py", "resolve_hermetic_standard"), ("octave_mcp/core/hydrator.py", "compute_vocabulary_hash"),
           ("octave_mcp/core/hydrator.py", "validate_source_uri"), ("octave_mcp/core/hydrator.py", "_check_single_snapshot"),
           ("octave_mcp/cli/main.py", "write")]

# ---- the segment alphabet of the property ------------------------------------------------------
# existing objects of the base tree (harness/paths_fs.template) ...
SEG_TREE = ["f.md", "g.oct.md", "h.txt", "U.MD", "d", "ld", "lin", "lf.md", "lfi.md", "dang.md", "dangd", "loop.md", "up", "trick.md", "selfmiss.md"]
# ... new names with allowed / disallowed / compound / upper-case / odd extensions, specials
SEG_NEW = ["n.md", "n.txt", "n.oct.md", "n.octave", "n.MD", "n", ".md", "a.md.", "n.oct.txt", "é.md", "a.md ", "x.mdx"]
SEG_SPECIAL = [".", "..", "", "z\x00.md", P.LONG_BAD, P.LONG_OK]
SEGS_Q = SEG_TREE + SEG_NEW[:7] + SEG_SPECIAL[:5]
SEGS_T = SEG_TREE + SEG_NEW + SEG_SPECIAL
EXTRA_PATHS = ["", "/", "//", "///", ".", "./", "/.", "{SB}", "{SB}/", "/{SB}/f.md", "//{SB}/f.md", "//{SB}/n.md", "//{SB}/ld/f.md", "//{SB}/d/" + P.LONG_BAD,
               "//{SB}/dang.md", "{SB}/../sb/f.md", "..", "../sb/f.md", "f.md/", "f.md/.", "f.md/n.md", "d//f.md", "./f.md", "d/./f.md", "..md", "...md", "a..md",
               "n.OCT.md", "n.oct.MD", "n.Octave", "n.md.bak", "n.tar.oct.md", ".oct.md", "d/.octave", "n.md/", "n.txt/", "n.md/.", "\x00", "a\x00/n.md",
               " ", "n .md", "-n.md", "~/n.md", "C:/n.md", "C:\\n.md", "d\\..\\n.md", "..\\n.md", "up/out/secret.md", "up/sb/f.md", "d/up/f.md",
               "lin/f.md", "lin/../f.md", "ld/../sb/f.md", "ld/secret.md", "d/ld/d/f.md", "d/d/d/n.md", "d/d/d/d/n.md", "q/r/s/n.md", "dangd/n.md", "dangd/q/n.md",
               "d/dang.md", "d/d/dang.md", "trick.md/n.md", "loop.md/n.md", "lfi.md/", "dang.md/", "dang.md/."]


def corpus(key):
    """minimised past failures (corpus/C19/*.json): always run, through every entry point."""
    out = []
    for f in sorted((vlib.VERIF / "corpus" / "C19").glob("*.json")):
        try:
            out += json.loads(f.read_text()).get(key, [])
        except Exception:  # noqa: BLE001
            pass
    return out


def enum_paths(segs, depth, absolute):
    pre = "{SB}/" if absolute else ""
    for n in range(1, depth + 1):
        for tup in itertools.product(segs, repeat=n):
            yield pre + "/".join(tup)


# ---- known-finding class predicates (input based: path string + file system layout) ------------

def dangling_symlink_component(rec) -> bool:
    """F29: some component of the path (a prefix of the absolute path) is a symlink that does not resolve
    (missing target or loop), i.e. `exists()` is False for it."""
    return bool(rec["cls"]["dangling"])


def uri_resolution_meets_symlink_loop(rec) -> bool:
    """F60: resolving base/uri runs into a symlink cycle (decided by the Lean model on the snapshot of the tree:
    `Octave.uriMeetsLoop`, the predicate negated in the hypothesis of C19_source_uri_partial)."""
    return bool(rec.get("model_loop"))


CLASSES = {"dangling_symlink_component": dangling_symlink_component, "uri_resolution_meets_symlink_loop": uri_resolution_meets_symlink_loop}


# ---- oracle on the results of one chunk ---------------------------------------------------------

def judge(ctx, rec, job, findings, case=None):
    """Apply the property (as read in notes/C19.md) to the observations of one path string."""
    cls = rec["cls"]
    fails = []
    must = cls["must_refuse"]
    for copy, (ok, reason) in rec["val"].items():
        ctx.count(f"validator:{copy}:{'accept' if ok is True else 'raise' if ok == 'raise' else 'refuse:' + reason}")
        if must and ok is True:
            fails.append((f"validator:{copy}", f"{copy} validator accepted a path that must be refused "
                          f"(dotdot={cls['dotdot']} symlink={cls['symlink']} bad_ext={cls['bad_ext']})"))
    for name, ob in rec["eps"].items():
        ctx.count(f"tool:{name}:{'raise' if ob['raise'] else 'refused' if ob['refused'] else 'done'}")
        for c in ob["codes"][:1]:
            if name.startswith(("write_", "validate_")):
                ctx.count(f"code:{name}:{c}")
        if ob["outside"] or ob["out_changed"] or ob["foreign"]:
            fails.append((f"outside:{name}", f"{name} touched or read something outside the sandbox: events={ob['outside'] or ob['foreign']} changed={ob['out_changed']}"))
        if must:
            if not ob["refused"]:
                fails.append((f"not-refused:{name}", f"{name} did not refuse a path that must be refused; changed={ob['changed']}"))
            elif ob["in_sb"] or ob["changed"]:
                fails.append((f"io-before-refusal:{name}", f"{name} refused only after file I/O: events={ob['in_sb']} changed={ob['changed']}"))
    for why_class, why in fails:
        hit = [f for f in findings if CLASSES[f["cls"]](rec)]
        if hit:
            ctx.known_hits[hit[0]["id"]] = ctx.known_hits.get(hit[0]["id"], 0) + 1
        else:
            ctx.failures.append({"case": case or {"path": rec["p"], "tree": job["kind"], "tree_seed": job["seed"]}, "why": why, "why_class": why_class,
                                 "classification": cls, "validators": rec["val"], "observed": rec["eps"].get(why_class.split(":")[-1])})


# ---- model side ------------------------------------------------------------------------------------

def model_batches(drv, batches, timeout=1800):
    """batches: [[request,...]] — each batch is an independent driver session (it starts with its own `fs`
    request); sessions run in parallel threads."""
    if not batches:
        return []
    with ThreadPoolExecutor(min(vlib.NCPU, len(batches))) as ex:
        return list(ex.map(lambda b: drv.batch(b, timeout), batches))


def compare_paths(ctx, job, out, replies):
    """correspondence view: accept / refuse of each of the three validators (reason classes are only counted)."""
    for rec, rep in zip(out["results"], replies):
        if "unsupported" in rep:
            ctx.count("model_unsupported")
            continue
        for copy in ("write", "validate", "fileops"):
            ok, reason = rec["val"][copy]
            m = rep[copy]
            if m == "fuel":
                ctx.count("model_out_of_fuel")
                ctx.corr_disagreements.append({"case": {"path": rec["p"], "tree": job["kind"], "tree_seed": job["seed"], "copy": copy},
                                               "model": "fuel", "impl": [ok, reason], "view": "the model ran out of fuel (C19_fuel_driver says it cannot on a finite tree below the bound)"})
                continue
            if ok == "raise":
                ctx.count("impl_validator_raise")
                continue
            if (m == "ok") != (ok is True):
                ctx.corr_disagreements.append({"case": {"path": rec["p"], "tree": job["kind"], "tree_seed": job["seed"], "copy": copy},
                                               "model": m, "impl": [ok, reason], "view": "accept/refuse of the path validator"})
            elif m != reason:
                ctx.count(f"reason_differs:{copy}:{m}/{reason}")


# ---- job construction ---------------------------------------------------------------------------

def chunked(xs, n):
    return [xs[i:i + n] for i in range(0, len(xs), n)]


def path_jobs(ctx):
    """[(job)] for the path validators / tools.  Counts depend on tier, widen and seed only."""
    wide = ctx.thorough or ctx.widen > 1
    rng = ctx.rng
    jobs = []
    segs = SEGS_T if wide else SEGS_Q
    # (1) exhaustive, validators only (cheap): relative depth<=3 (4 thorough), absolute depth<=2 (3 thorough)
    d_rel, d_abs = (4, 3) if ctx.thorough else (3, 2)
    if ctx.thorough:
        rel = list(enum_paths(SEGS_T, 3, False)) + list(enum_paths(SEGS_Q, 4, False))
    else:
        rel = list(enum_paths(segs, d_rel, False))
    val_paths = rel + list(enum_paths(segs, d_abs, True)) + EXTRA_PATHS
    for k, ch in enumerate(chunked(val_paths, 6000)):
        jobs.append({"kind": "base", "seed": 0, "paths": ch, "tools": False, "tag": f"v{k}"})
    # (2) tools driven: all depth<=2 (relative and absolute) + extras + a seeded sample of deeper paths
    tool_paths = corpus("paths") + list(enum_paths(segs, 2, False)) + list(enum_paths(segs, 1, True)) + EXTRA_PATHS
    n_sample = ctx.budget(2500, 40000)
    deep_pool_depth = 4 if ctx.thorough else 3
    for _ in range(n_sample):
        n = rng.randint(3, deep_pool_depth)
        tup = [rng.choice(segs) for _ in range(n)]
        tool_paths.append(("{SB}/" if rng.random() < 0.25 else "") + "/".join(tup))
    for k, ch in enumerate(chunked(tool_paths, 250)):
        jobs.append({"kind": "base", "seed": 0, "paths": ch, "tools": True, "tag": f"t{k}"})
    # (3) random trees (random link targets): validators on exhaustive depth<=2 + sample, tools on a sample
    n_trees = ctx.budget(6, 40)
    rsegs = P.LINK_NAMES + ["f.md", "d", "h.txt", "n.md", "..", ".", "", "n.txt", "z\x00.md"]
    for t in range(n_trees):
        seed = rng.randrange(1 << 30)
        ps = list(enum_paths(rsegs, 2, False)) + ["/".join(rng.choice(rsegs) for _ in range(rng.randint(3, 4))) for _ in range(600)]
        jobs.append({"kind": "rand", "seed": seed, "paths": ps, "tools": False, "tag": f"r{t}"})
        jobs.append({"kind": "rand", "seed": seed, "paths": rng.sample(ps, 120), "tools": True, "tag": f"rt{t}"})
    return jobs


SCHEMA_ALPHABET = ["A", "a", "0", "_", ".", "/", "-", "\\", "\n", "É"]
SCHEMA_EXTRA = ["META", "SESSION_LOG", "A\n", "A\n\n", "\nA", "A\r", "A\x00", "Z9_", "AZ", "aA", "À", "Ａ", "A１", "A/../../secret", "../secret", "A.oct.md", "A/", "/A", "A\\..\\x",
                "A" * 300, "A_" * 10, "A\n.oct.md", "A b", " A", "A ", "A\t", "A\u2028", "0A", "_A"]


def schema_names(ctx):
    n = 6 if ctx.thorough else (5 if ctx.widen > 1 else 4)
    out = list(SCHEMA_EXTRA)
    for k in range(0, n + 1):
        out += ["".join(t) for t in itertools.product(SCHEMA_ALPHABET, repeat=k)]
    return out


FROZEN_REFS = ["frozen@sha256:{good}", "frozen@sha256:{good:U}", "frozen@sha256:{good:M}", "frozen@sha256:{tampered}", "frozen@sha256:{tampered:U}",
               "frozen@sha256:{collide}", "frozen@sha256:{collide_tail}", "frozen@sha256:{missing}", "frozen@sha256:{dir}", "latest", "latest\n", " latest", "LATEST", "",
               "frozen@sha256:", "frozen@", "frozen", "frozen@sha256:{good}\n", " frozen@sha256:{good}", "frozen@sha256:{good} ", "frozen@SHA256:{good}", "Frozen@sha256:{good}",
               "frozen@sha256:{good}0", "frozen@sha256:{good}/", "frozen@sha256:{good}/../x", "frozen@sha256:../../out/secret.md", "frozen@sha256:../../../../../../etc/passwd",
               "frozen@sha256:" + ("../" * 22)[:64], "frozen@sha256:" + "g" * 64, "frozen@sha256:" + "0" * 63, "frozen@sha256:" + "0" * 65, "frozen@sha256:" + "0" * 16,
               "frozen@sha256:" + "\u0660" * 64, "frozen@sha256:" + "\uff41" * 64, "frozen@sha256:" + "0" * 63 + "\x00", "frozen@sha256:" + "0" * 32 + "\x00" + "0" * 31,
               "frozen@sha256:" + "0" * 63 + "/", "frozen@sha256:" + "." * 64, "frozen@sha256:" + "/" * 64, "frozen@sha256:sha256:{good}", "frozen@sha256:{good}{good}",
               "frozen@md5:{good}", "sha256:{good}", "{good}",
               # 64 characters whose first 16 name an existing file outside the cache directory (../../out/secret + .oct.md)
               "frozen@sha256:../../out/secret" + "/" * 48, "frozen@sha256:../../out/secret" + "0" * 48, "frozen@sha256:../../out/secret" + "a." * 24,
               # … made of hex digits, dots and slashes only: ../deadbeefcafe0 + .oct.md is a file next to the cache directory
               "frozen@sha256:../deadbeefcafe0" + "0" * 48, "frozen@sha256:../deadbeefcafe0" + "/" * 48, "frozen@sha256:../DEADBEEFCAFE0" + "." * 48]


def frozen_refs(ctx):
    refs = list(FROZEN_REFS)
    # single-character mutations of the good reference at every position (hex / non-hex / path characters)
    for pos in range(0, 64, 1 if ctx.thorough or ctx.widen > 1 else 5):
        for ch in ("0", "f", "F", "g", "/", ".", "\n"):
            refs.append("frozen@sha256:{good@%d=%s}" % (pos, ch))
    return refs


URI_SEGS = ["f.md", "d", "ld", "lin", "lf.md", "lfi.md", "dang.md", "dangd", "loop.md", "up", "trick.md", "n.md", ".", "..", "", "z\x00.md", "C:", "h.txt"]
URI_EXTRA = ["../sb-private/f.md", "../sbx/f.md", "../d-private/f.md", "../dx/f.md", "d/../../sb-private/f.md", "../../sbx/f.md", "../../sb-private/f.md", "{SB}-private/f.md",
             "{SB}/../out/secret.md", "{SB}/d/../../out/f.md", "loop.md/../lf.md", "trick.md/../lf.md", "loop.md/../ld/secret.md", "loop.md/../f.md", "d/loop.md/../../lf.md", "", "/", "/etc/passwd", "{SB}/f.md", "C:/x", "C:", "c:\\x", "a:", ":", "x:", "../sb/f.md", "../out/secret.md", "../../x", "up/out/secret.md", "up/sb/f.md",
             "d/../../out/secret.md", "d/up/f.md", "d/up/../../out/f.md", "lin/../f.md", "ld/../sb/f.md", "ld/secret.md", "lf.md", "lfi.md", "dang.md", "loop.md/x", "trick.md",
             "f.md/..", "f.md/../f.md", "n/../f.md", "n/../../out/f.md", ".//f.md", "d//f.md", "\x00", "d/\x00/../f.md", " /etc/passwd", "~/x", "d/" + P.LONG_BAD, P.LONG_BAD + "/../f.md"]


def uri_list(ctx):
    d = 3 if ctx.thorough or ctx.widen > 1 else 2
    return corpus("uris") + list(URI_EXTRA) + ["/".join(t) for n in range(1, d + 1) for t in itertools.product(URI_SEGS, repeat=n)]


def comps(path: str):
    return [c for c in path.split("/") if c]


# ---- stages -------------------------------------------------------------------------------------

def stage_paths(ctx, drv, findings):
    jobs = path_jobs(ctx)
    outs = vlib.pmap(PW.run_paths_chunk, jobs, chunksize=1)
    batches = []
    for job, out in zip(jobs, outs):
        cwd = out["cwd"]
        batches.append([{"op": "fs", "nodes": out["nodes"], "cwd": comps(cwd)}] + [{"op": "vp", "p": r["p"].replace("{SB}", cwd)} for r in out["results"]])
    replies = model_batches(drv, batches)
    for job, out, rep in zip(jobs, outs, replies):
        compare_paths(ctx, job, out, rep[1:])
        for rec in out["results"]:
            depth = len([c for c in rec["p"].replace("{SB}/", "").split("/")])
            ctx.case({"path": rec["p"][:120], "tree": job["kind"], "seed": job["seed"], "tools": job["tools"]},
                     nontrivial=bool(rec["p"]))
            if not job["tools"]:
                ctx.count(f"path_depth:{min(depth, 5)}")
                c = rec["cls"]
                ctx.count("class:" + ("dotdot" if c["dotdot"] else "dangling" if c["dangling"] else "symlink" if c["symlink"] else "bad_ext" if c["bad_ext"] else "acceptable"))
            elif not rec.get("driven", True):
                ctx.count("tools_not_driven(lexically outside the private temp dir)")
            judge(ctx, rec, job, findings)


# ---- sequences of calls in one process, the layout changes between the calls ---------------------------------------
# The property quantifies over path strings AND file-system layouts; a server answers many calls in one process while the
# tree changes under it.  Class explored: a component of the path (an interior directory, or the last component) is an object of
# one kind in one call and of another kind — AT THE SAME ABSOLUTE PATH — in a later call: directory <-> symlink to a directory
# (outside, absolute / relative text; inside), file / absent <-> symlink to a file (outside, inside, dangling), in both orders,
# relative and absolute spellings.  Every call is judged against the layout of its moment, exactly as a single call in a fresh
# process is (same oracle `judge`): whatever an earlier call has seen gives no licence.
SEQ_DIRS = ["d", "d/d", "dx"]
SEQ_DIR_KINDS = ["link-out-abs", "link-out-rel", "link-in"]
SEQ_FILES = ["f.md", "d/f.md", "n.md", "d/d/n.md"]
SEQ_FILE_KINDS = ["flink-out", "flink-in", "dangling"]


def fixed_sequences():
    seqs = []
    for form in ("", "{SB}/"):
        for D in SEQ_DIRS:
            for K in SEQ_DIR_KINDS:
                after = [D + "/secret.md", D + "/f.md", D + "/n.md"] + ([D + "/d/f.md"] if D == "d" else [])
                # a real directory first, then a link at the same absolute path
                seqs.append([["call", form + D + "/f.md"], ["flip", D, K]] + [["call", form + q] for q in after])
                # a link first, then the real directory, then the link again
                seqs.append([["flip", D, K], ["call", form + D + "/f.md"], ["flip", D, "orig"], ["call", form + D + "/f.md"], ["call", form + D + "/n.md"],
                             ["flip", D, K], ["call", form + D + "/f.md"], ["call", form + D + "/secret.md"]])
        for F in SEQ_FILES:
            for K in SEQ_FILE_KINDS:
                seqs.append([["call", form + F], ["flip", F, K], ["call", form + F], ["flip", F, "orig"], ["call", form + F], ["flip", F, K], ["call", form + F]])
    return seqs


def random_sequences(ctx, n):
    rng = ctx.rng
    out = []
    for _ in range(n):
        form = "{SB}/" if rng.random() < 0.4 else ""
        locs = rng.sample(SEQ_DIRS + SEQ_FILES, rng.randint(1, 3))
        state = {}
        steps = []
        for _k in range(rng.randint(3, 9)):
            if rng.random() < 0.4:
                loc = rng.choice(locs)
                kinds = (SEQ_DIR_KINDS if loc in SEQ_DIRS else SEQ_FILE_KINDS + ["absent"]) + ["orig", "orig"]
                kind = rng.choice([k for k in kinds if k != state.get(loc, "orig")])
                state[loc] = kind
                steps.append(["flip", loc, kind])
            else:
                loc = rng.choice(locs)
                steps.append(["call", form + (loc if loc in SEQ_FILES else loc + "/" + rng.choice(["f.md", "secret.md", "n.md", "d/f.md", "g.oct.md"]))])
        if not any(s[0] == "call" for s in steps):
            steps.append(["call", form + "d/f.md"])
        out.append(steps)
    return out


def judge_sequence(ctx, job, res, findings):
    for c in res["calls"]:
        case = {"sequence": res["seq"], "call_step": c["step"], "path": c["rec"]["p"], "tree": job["kind"], "tree_seed": job["seed"]}
        ctx.case(case)
        ctx.count("sequence_call:" + ("must_refuse" if c["rec"]["cls"]["must_refuse"] else "acceptable") + (":after-flip" if c["layout"] else ":first-layout"))
        judge(ctx, c["rec"], job, findings, case=case)


def stage_sequences(ctx, drv, findings):
    seqs = corpus("sequences") + fixed_sequences() + random_sequences(ctx, ctx.budget(12, 600))
    jobs = [{"kind": "base", "seed": 0, "seqs": ch, "tag": f"q{k}-"} for k, ch in enumerate(chunked(seqs, max(1, len(seqs) // (vlib.NCPU * 2) + 1)))]
    outs = vlib.pmap(PW.run_sequence_chunk, jobs, chunksize=1)
    batches = []
    for out in outs:
        b = []
        for res in out["results"]:
            for li, lay in enumerate(res["layouts"]):
                b.append({"op": "fs", "nodes": lay["nodes"], "cwd": comps(lay["cwd"])})
                b += [{"op": "vp", "p": c["rec"]["p"].replace("{SB}", lay["cwd"])} for c in res["calls"] if c["layout"] == li]
        batches.append(b)
    replies = model_batches(drv, batches) if drv is not None else [None] * len(batches)
    for job, out, rep in zip(jobs, outs, replies):
        k = 0
        for res in out["results"]:
            judge_sequence(ctx, job, res, findings)
            ctx.count(f"sequences:flips={sum(1 for s in res['seq'] if s[0] == 'flip')}")
            if rep is None:
                continue
            for li, _lay in enumerate(res["layouts"]):
                k += 1
                cs = [c for c in res["calls"] if c["layout"] == li]
                compare_paths(ctx, {"kind": job["kind"], "seed": job["seed"]}, {"results": [c["rec"] for c in cs]}, rep[k:k + len(cs)])
                k += len(cs)


def stage_cli_subprocess(ctx, findings):
    """the real executable in a subprocess (exit code + snapshots): `octave write PATH` (thorough tier: broad) and the other ways the CLI
    is given a file to write, `octave normalize/seal FILE -o PATH` (every tier: one path of every refusal class)."""
    segs = SEGS_Q
    jobs = []
    if ctx.thorough:
        paths = list(enum_paths(segs, 1, False)) + list(enum_paths(segs, 1, True)) + [p for p in EXTRA_PATHS if "\x00" not in p]
        for _ in range(ctx.budget(0, 900)):
            n = ctx.rng.randint(2, 4)
            paths.append(("{SB}/" if ctx.rng.random() < 0.2 else "") + "/".join(ctx.rng.choice(segs) for _ in range(n)))
        jobs += [{"kind": "base", "seed": 0, "paths": ch} for ch in chunked(paths, 40)]
    opaths = ["n.oct.md", "lf.md", "lfi.md", "dang.md", "ld/n.md", "lin/n.md", "d/../n.md", "../out/n.md", "up/out/n.md", "n.txt", "n.oct.md.sh", "n.md.bak", "{SB}/lf.md",
              "{SB}/d/../../out/secret.md", "d/lf.md", "d/n.OCT.MD", "n.octave", "sub/../../out/n.md"]
    if ctx.thorough:
        opaths += list(enum_paths(segs, 1, False))
    for cmd in ("normalize", "seal"):
        jobs += [{"kind": "base", "seed": 0, "paths": ch, "cmd": cmd} for ch in chunked(opaths, 10)]
    for job, out in zip(jobs, vlib.pmap(PW.run_cli_subprocess_chunk, jobs, chunksize=1)):
        for r in out["results"]:
            entry = "octave write" if job.get("cmd", "write") == "write" else f"octave {job['cmd']} g.oct.md -o"
            case = {"path": r["p"], "tree": "base", "tree_seed": 0, "entry": entry + " (subprocess)"}
            ctx.case(case)
            ctx.count("cli_subprocess:" + ("done" if r["rc"] == 0 else "refused"))
            fails = []
            if r["out_changed"]:
                fails.append(("outside:cli_subprocess", f"`{entry}` changed {r['out_changed']} outside the sandbox"))
            if r["p"] == "" and job.get("cmd", "write") != "write" and not r["changed"] and not r["out_changed"]:
                # `-o ""` is "no output file" to the CLI (the result goes to stdout): no path was given, nothing was touched
                ctx.count("cli_subprocess:empty_output_option")
            elif r["cls"]["must_refuse"] and r["rc"] == 0:
                fails.append(("not-refused:cli_subprocess", f"`{entry}` exited 0 for a path that must be refused; changed={r['changed']}"))
            elif r["cls"]["must_refuse"] and r["changed"]:
                fails.append(("io-before-refusal:cli_subprocess", f"`{entry}` refused but changed {r['changed']}"))
            for why_class, why in fails:
                hit = [f for f in findings if f["cls"] == "dangling_symlink_component" and CLASSES[f["cls"]](r)]
                if hit:
                    ctx.known_hits[hit[0]["id"]] = ctx.known_hits.get(hit[0]["id"], 0) + 1
                else:
                    ctx.failures.append({"case": case, "why": why, "why_class": why_class, "classification": r["cls"], "observed": r})


def stage_schema(ctx, drv):
    names = schema_names(ctx)
    jobs = [{"names": ch, "tag": f"s{k}"} for k, ch in enumerate(chunked(names, max(2000, len(names) // (vlib.NCPU * 2) + 1)))]
    outs = vlib.pmap(PW.run_schema_chunk, jobs, chunksize=1)
    batches = []
    for job, out in zip(jobs, outs):
        dirs = [comps(d) for d in out["dirs_impl"]]
        batches.append([{"op": "fs", "nodes": out["nodes"], "cwd": comps(out["cwd"])}] + [{"op": "schema", "dirs": dirs, "n": n} for n in job["names"]])
    replies = model_batches(drv, batches)
    for job, out, rep in zip(jobs, outs, replies):
        if out["dirs_impl"] != out["dirs_expected"]:
            ctx.failures.append({"case": {"cwd": out["cwd"]}, "why": f"get_schema_search_paths() = {out['dirs_impl']} but the packaged/project schema directories are {out['dirs_expected']}",
                                 "why_class": "schema-search-paths"})
        dirs = out["dirs_impl"]
        allowed_dirs = {os.path.realpath(d) for d in out["dirs_expected"]}
        for r, m in zip(out["results"], rep[1:]):
            case = {"schema_name": r["n"]}
            ctx.case(case, nontrivial=bool(r["n"]))
            ctx.count("schema:" + r["kind"].split(":")[0] + ("" if not r["stat"] else ":probed"))
            probed = [q for q in r["stat"] if q not in dirs]
            dedup = [q for i, q in enumerate(probed) if i == 0 or probed[i - 1] != q]
            opened = [e[1] for e in r["open"] if e[0].startswith("open")]
            # oracle: whatever is probed or opened is a direct child of a schema directory
            for q in probed + opened:
                par = os.path.realpath(os.path.dirname(os.path.abspath(q)))
                if par not in allowed_dirs or os.path.basename(q) in ("", ".", ".."):
                    ctx.failures.append({"case": case, "why": f"load_schema_by_name touched {q!r}, which is not a file directly inside a schema directory",
                                         "why_class": "schema-escape", "observed": {"stat": probed, "open": opened}})
                    break
            mut = [e for e in r["open"] if not e[0].startswith("open-r")]
            if mut:
                ctx.failures.append({"case": case, "why": f"load_schema_by_name performed a mutating file operation {mut[:3]}", "why_class": "schema-mutates"})
            # correspondence: probe sequence and opened file
            if "unsupported" in m:
                ctx.count("model_unsupported")
                continue
            m_probed = ["/" + "/".join(q) for q in m["probed"]]
            m_opened = ["/" + "/".join(m["opened"])] if m["opened"] is not None else []
            if m_probed != dedup or m_opened != opened[:1] or len(opened) > 1:
                ctx.corr_disagreements.append({"case": case, "model": {"probed": m_probed, "opened": m_opened}, "impl": {"probed": dedup, "opened": opened},
                                               "view": "paths probed with exists() and the file opened by load_schema_by_name"})


def stage_frozen(ctx, drv):
    import re as _re
    refs = frozen_refs(ctx)
    jobs = [{"refs": refs, "with_default": wd} for wd in (True, False)]
    outs = vlib.pmap(PW.run_frozen_chunk, jobs, chunksize=1)
    batches = [[{"op": "fs", "nodes": out["nodes"], "cwd": comps(out["root"] + "/sb"), "H": out["H"]}] +
               [{"op": "frozen", "cache": comps(out["cache"]), "ref": r["ref"]} for r in out["results"]] for out in outs]
    replies = model_batches(drv, batches)
    for job, out, rep in zip(jobs, outs, replies):
        for r, m in zip(out["results"], rep[1:]):
            case = {"standard_ref": r["ref"], "with_default": job["with_default"]}
            ctx.case(case)
            ctx.count("frozen:" + r["res"][0])
            shape = _re.fullmatch(r"frozen@sha256:([0-9a-fA-F]{64})", r["ref"], _re.ASCII)
            if r["res"][0] == "ok" and r["ref"].startswith("frozen@"):
                q = r["res"][1]
                if not shape:
                    ctx.failures.append({"case": case, "why": f"a reference that is not frozen@sha256:<64 hex> resolved to {q}", "why_class": "frozen-shape"})
                elif os.path.dirname(q) != out["cache"]:
                    ctx.failures.append({"case": case, "why": f"frozen reference resolved to {q}, not a file of the cache directory", "why_class": "frozen-escape"})
                elif r["sha"] != shape.group(1).lower():
                    ctx.failures.append({"case": case, "why": f"frozen reference resolved to {q} whose bytes hash to {r['sha']}", "why_class": "frozen-hash"})
            bad = [e for e in r["open"] if not P.inside(e[2], out["cache"])]
            if bad:
                ctx.failures.append({"case": case, "why": f"resolve_hermetic_standard opened {bad[:3]} outside the cache directory", "why_class": "frozen-open-outside"})
            if "unsupported" in m:
                ctx.count("model_unsupported")
                continue
            # view: does the reference resolve, and to which path (the kind of refusal is only counted)
            mv = ["ok", "/" + "/".join(m["q"])] if m["r"] == "ok" else ["refused"]
            iv = r["res"] if r["res"][0] == "ok" else ["refused"]
            if mv != iv:
                ctx.corr_disagreements.append({"case": case, "model": [m["r"]] + mv[1:], "impl": r["res"], "view": "resolves? / resolved path of resolve_hermetic_standard"})
            elif m["r"] != r["res"][0] and not (m["r"] == "io" and r["res"][0] == "raise"):
                ctx.count(f"frozen_refusal_kind_differs:{m['r']}/{r['res'][0]}")


# ---- frozen references whose cache file is not the pinned bytes ------------------------------------------------------
# "a frozen@sha256 reference resolves only to a cache file whose BYTES hash to that digest": the reference carries the correct
# digest of the original bytes, the cache file (at the digest-prefix name) holds something else.  Class: every tampering of
# PW.FROZEN_TAMPERS (same text / other bytes: line-ending re-encodings in both directions, final newline added or removed, BOM,
# trailing blanks, tab for blank, NFD, letter case; other content: one flipped bit at three positions, truncations, appended NUL,
# doubled) x every original of PW.frozen_originals() (LF and CRLF schema files, no final newline, non-ASCII, lone CR, a file
# longer than one hashing chunk).  Oracle = the sentence above, on the bytes on disk (hashlib), through both routes.

def frozen_tamper_cases(ctx):
    names = list(PW.frozen_originals())
    tampers = list(PW.FROZEN_TAMPERS)
    return [[o, t] for o in names for t in tampers]


def judge_frozen_tamper(ctx, r, cache_ok=True):
    case = {"frozen_tamper": [r["original"], r["tamper"]], "standard_ref": r["ref"]}
    ctx.case(case)
    if r["same_bytes"]:
        # the pinned bytes themselves (control, or a tampering that does not apply to this original): not judged by C19
        ctx.count("frozen_tamper:untampered:" + ("resolves" if r["res"][0] == "ok" else "refused") + ("+tool-loads" if r["tool"]["loaded"] else ""))
        return
    ctx.count(f"frozen_tamper:{r['tamper']}:" + r["res"][0])
    if r["res"][0] == "ok":
        if os.path.dirname(r["res"][1]) != r["cache"]:
            ctx.failures.append({"case": case, "why": f"frozen reference resolved to {r['res'][1]}, not a file of the cache directory", "why_class": "frozen-escape"})
        elif r["sha"] != r["digest"]:
            ctx.failures.append({"case": case, "why_class": "frozen-hash", "observed": {"res": r["res"], "tool": r["tool"]},
                                 "why": f"reference {r['ref'][:30]}… (digest of the original bytes) resolved to a cache file whose bytes hash to {r['sha']} "
                                        f"(original {r['original']}, tampering {r['tamper']})"})
    if r["tool"]["loaded"]:
        ctx.failures.append({"case": dict(case, route="octave_write(schema=ref)"), "why_class": "frozen-hash-tool", "observed": r["tool"],
                             "why": f"octave_write(schema='{r['ref'][:30]}…') loaded a cache file whose bytes hash to {r['file_sha']}, not to the digest "
                                    f"(original {r['original']}, tampering {r['tamper']})"})
    bad = [e for e in r["open"] if not P.inside(e[2], r["cache"])]
    if bad:
        ctx.failures.append({"case": case, "why": f"resolve_hermetic_standard opened {bad[:3]} outside the cache directory", "why_class": "frozen-open-outside"})


def stage_frozen_tamper(ctx, drv):
    cases = frozen_tamper_cases(ctx)
    jobs = [{"cases": ch} for ch in chunked(cases, max(1, len(cases) // 6 + 1))]
    outs = vlib.pmap(PW.run_frozen_tamper_chunk, jobs, chunksize=1)
    batches = [[{"op": "fs", "nodes": out["nodes"], "cwd": comps(out["root"] + "/sb"), "H": out["H"]}] +
               [{"op": "frozen", "cache": comps(r["cache"]), "ref": r["ref"]} for r in out["results"]] for out in outs]
    replies = model_batches(drv, batches) if drv is not None else [None] * len(batches)
    controls = [0, 0, 0]
    for out, rep in zip(outs, replies):
        for i, r in enumerate(out["results"]):
            judge_frozen_tamper(ctx, r)
            if r["tamper"] == "none":
                controls[0] += 1
                controls[1] += r["res"][0] == "ok"
                controls[2] += bool(r["tool"]["loaded"])
            if rep is None:
                continue
            m = rep[1 + i]
            if "unsupported" in m:
                ctx.count("model_unsupported")
                continue
            mv = ["ok", "/" + "/".join(m["q"])] if m["r"] == "ok" else ["refused"]
            iv = r["res"] if r["res"][0] == "ok" else ["refused"]
            if mv != iv:
                ctx.corr_disagreements.append({"case": {"frozen_tamper": [r["original"], r["tamper"]], "standard_ref": r["ref"]}, "model": [m["r"]] + mv[1:],
                                               "impl": r["res"], "view": "resolves? / resolved path of resolve_hermetic_standard (tampered cache file)"})
    ctx.extra["frozen_tamper_controls"] = {"originals": controls[0], "resolve_through_api": controls[1], "loaded_through_octave_write": controls[2]}
    if controls[1] < controls[0] or controls[2] == 0:
        ctx.notes.append(f"frozen tamper stage: of {controls[0]} untampered originals {controls[1]} resolve through the API and {controls[2]} are loaded "
                         f"through octave_write (the tool route observes a loaded schema only for schema files)")


def stage_uri(ctx, drv, findings):
    uris = uri_list(ctx)
    jobs = [{"kind": "base", "seed": 0, "base": b, "uris": ch} for b in ("", "d", "d/d") for ch in chunked(uris, 1500)]
    n_rand = ctx.budget(4, 24)
    for _ in range(n_rand):
        jobs.append({"kind": "rand", "seed": ctx.rng.randrange(1 << 30), "base": ctx.rng.choice(["", "d"]),
                     "uris": ["/".join(ctx.rng.choice(P.LINK_NAMES + ["f.md", "d", "..", ".", "", "n.md"]) for _ in range(ctx.rng.randint(1, 4))) for _ in range(400)]})
    outs = vlib.pmap(PW.run_uri_chunk, jobs, chunksize=1)
    batches = [[{"op": "fs", "nodes": out["nodes"], "cwd": comps(out["sb"])}] +
               [{"op": "uri", "base": comps(out["base"]), "u": r["u"].replace("{SB}", out["sb"])} for r in out["results"]] for out in outs]
    replies = model_batches(drv, batches)
    for job, out, rep in zip(jobs, outs, replies):
        for r, m in zip(out["results"], rep[1:]):
            case = {"source_uri": r["u"], "base": job["base"], "tree": job["kind"], "tree_seed": job["seed"]}
            ctx.case(case, nontrivial=bool(r["u"]))
            ctx.count("uri:" + r["res"][0])
            ctx.count("snapshot:" + r["snap_status"].split(":")[0])
            fails = []
            if r["res"][0] == "ok" and not P.inside(r["res"][1], out["realbase"]):
                fails.append(("uri-escape", f"validate_source_uri returned {r['res'][1]}, outside the base {out['realbase']}"))
            elif r["res"][0] == "ok" and r["link_prefix"] and not P.inside(r["result_real"], out["realbase"]):
                fails.append(("uri-unresolved", f"validate_source_uri returned {r['res'][1]}, whose component {r['link_prefix']} is a symlink to {r['link_real']}: the URI resolves outside the base"))
            if r["opened_outside"]:
                fails.append(("uri-open-outside", f"_check_single_snapshot opened {r['opened_outside']} outside the base {out['realbase']}"))
            rec = {"model_loop": m.get("loop") if isinstance(m, dict) else None}
            for why_class, why in fails:
                hit = [f for f in findings if f["cls"] == "uri_resolution_meets_symlink_loop" and CLASSES[f["cls"]](rec)]
                if hit:
                    ctx.known_hits[hit[0]["id"]] = ctx.known_hits.get(hit[0]["id"], 0) + 1
                else:
                    ctx.failures.append({"case": case, "why": why, "why_class": why_class, "observed": r})
            if "unsupported" in m:
                ctx.count("model_unsupported")
                continue
            if m["r"] == "fuel":
                ctx.count("model_out_of_fuel")
                continue
            mv = ["ok", "/" + "/".join(m["q"])] if m["r"] == "ok" else ["refused"]
            iv = r["res"] if r["res"][0] == "ok" else ["refused"]
            if mv != iv:
                ctx.corr_disagreements.append({"case": case, "model": [m["r"]] + mv[1:], "impl": r["res"], "view": "accepted? / resolved path of validate_source_uri"})
            elif m["r"] != r["res"][0] and not (m["r"] == "loopRaise" and r["res"][0] == "raise"):
                ctx.count(f"uri_refusal_kind_differs:{m['r']}/{r['res'][0]}")


def replay_findings(ctx, findings):
    """Replay the stored witnesses of the open findings on the real code (validators + tools)."""
    for f in findings:
        w = f["witness"]
        if "uris" in w:
            out = PW.run_uri_chunk({"kind": w.get("tree", "base"), "seed": w.get("tree_seed", 0), "base": w.get("base", ""), "uris": list(w["uris"])})
            details = [f"{r['u']}: validate_source_uri -> {r['res'][1].replace(out['sb'], '{SB}')} (a link to {str(r['link_real']).replace(os.path.dirname(out['sb']), '{ROOT}')}); "
                       f"_check_single_snapshot status {r['snap_status']}, opened outside: {len(r['opened_outside'])}"
                       for r in out["results"] if r["res"][0] == "ok" and ((r["link_prefix"] and not P.inside(r["result_real"], out["realbase"])) or r["opened_outside"])]
            if details:
                ctx.known_reproduced.append((f, "; ".join(details)[:500]))
            continue
        job = {"kind": w.get("tree", "base"), "seed": w.get("tree_seed", 0), "paths": list(w["paths"]), "tools": True, "tag": "kf"}
        out = PW.run_paths_chunk(job)
        details = []
        for rec in out["results"]:
            acc = [c for c, (ok, _r) in rec["val"].items() if ok is True]
            wrote = [n for n, ob in rec["eps"].items() if not ob["refused"]]
            if rec["cls"]["must_refuse"] and CLASSES[f["cls"]](rec) and (acc or wrote):
                details.append(f"{rec['p']}: accepted by {'/'.join(acc) or '-'}; not refused by {'/'.join(wrote) or '-'}")
        if details:
            ctx.known_reproduced.append((f, "; ".join(details)[:400]))


def run(ctx: vlib.Ctx):
    ctx.rule = ("path strings: every sequence of <= D segments of the property's alphabet (relative and absolute) on the base tree + seeded random "
                "paths on trees with random link targets; schema names: every string of length <= L over 10 character classes; frozen references and "
                "source URIs: pools + every single-character mutation / every segment sequence; a case is non-trivial unless the string is empty; "
                "distinct = distinct (input string, tree)")
    ctx.translate(PROJECT)
    proj = ctx.lean(PROJECT, PROPS)
    if vlib.fingerprints_changed(ctx.prop, ANCHORS):
        ctx.widen = max(ctx.widen, 8)
        ctx.notes.append("fingerprint of a modelled function changed: search widened")
    findings = [f for f in vlib.load_findings(ctx.prop) if f["cls"] in CLASSES]
    if ctx.replay:
        return run_replay(ctx, proj, findings)
    replay_findings(ctx, findings)
    drv = proj.driver()
    stage_paths(ctx, drv, findings)
    stage_schema(ctx, drv)
    stage_frozen(ctx, drv)
    stage_uri(ctx, drv, findings)
    stage_cli_subprocess(ctx, findings)
    stage_sequences(ctx, drv, findings)
    stage_frozen_tamper(ctx, drv)
    finish_meta(ctx)


def finish_meta(ctx):
    ctx.trusted = ["Lean 4.33.0 kernel; axioms per theorem in coverage.theorems",
                   "tools/gen/paths.py (Gen/Paths.lean: extension lists, patterns, search order, shapes of the symlink tests, flattened op programs)",
                   "correspondence: tools/props/c19.py + tools/harness/paths_*.py (differential, exhaustive small scope on real directory trees)",
                   "observation layer: sys.addaudithook events + lstat snapshots (CPython raises the events in C)",
                   "modelled, not verified: control flow of the three validators, posixpath.realpath, pathlib.exists/is_symlink/resolve (Model/Paths.lean)",
                   "OS semantics of Model/Paths.lean: lstat/stat/readlink of a static tree, NAME_MAX=255, ELOOP only on genuine cycles (chains < 40 links)"]
    ctx.extra["open_proof_targets"] = ["C19_source_uri with the fixed-point test (Gen.sourceUriFixpoint = true): resolved path is link-free without the loop guard"]
    ctx.extra["partial_clauses"] = ["C19_validate_sound_partial: guard noDangling (F29) unless the walk has the repaired shape",
                                    "C19_symlink_recheck_partial: guard `not dangling` unless the re-check is `is_symlink()` only",
                                    "C19_source_uri_partial: guard uriMeetsLoop = false (F60)",
                                    "time-of-check/time-of-use between validation and write is outside the model"]
    ctx.assumptions = ["the file system does not change between validation and use (time-of-check/time-of-use is outside the model)",
                       "H (SHA-256) is an arbitrary function in the theorems; the correspondence instantiates it with hashlib",
                       "fuel: the walks are monotone in the fuel and never exhaust it from the computable bound fuelBoundR(links, path) on (Props/C19fuel: C19_fuel_walk_adequate, C19_fuel_validate_exact, C19_fuel_driver: the driver's 100000 is as good as infinity whenever the bound is below it); a model answer `fuel` is therefore a broken tie, reported as a disagreement"]


def run_replay(ctx, proj, findings):
    data = json.loads(open(ctx.replay).read())
    case = data.get("case", {})
    drv = proj.driver()
    if "sequence" in case:
        job = {"kind": case.get("tree", "base"), "seed": case.get("tree_seed", 0), "seqs": [case["sequence"]], "tag": "rp"}
        out = PW.run_sequence_chunk(job)
        for res in out["results"]:
            judge_sequence(ctx, job, res, findings)
            print(json.dumps([{"step": c["step"], "p": c["rec"]["p"], "cls": c["rec"]["cls"], "val": c["rec"]["val"],
                               "eps": {n: {k: v for k, v in ob.items() if v} for n, ob in c["rec"]["eps"].items()}} for c in res["calls"]], indent=1, default=str)[:6000])
    elif "frozen_tamper" in case:
        out = PW.run_frozen_tamper_chunk({"cases": [case["frozen_tamper"]]})
        for r in out["results"]:
            judge_frozen_tamper(ctx, r)
        print(json.dumps([{k: v for k, v in r.items() if k != "open"} for r in out["results"]], indent=1)[:3000])
    elif "path" in case:
        job = {"kind": case.get("tree", "base"), "seed": case.get("tree_seed", 0), "paths": [case["path"]], "tools": True, "tag": "rp"}
        out = PW.run_paths_chunk(job)
        rep = drv.batch([{"op": "fs", "nodes": out["nodes"], "cwd": comps(out["cwd"])}] + [{"op": "vp", "p": case["path"].replace("{SB}", out["cwd"])}])
        compare_paths(ctx, job, out, rep[1:])
        for rec in out["results"]:
            ctx.case(case)
            judge(ctx, rec, job, findings)
        print(json.dumps({"impl": out["results"], "model": rep[1:]}, indent=1, default=str)[:3000])
    elif "schema_name" in case:
        ctx.thorough = False
        global SCHEMA_EXTRA
        names = [case["schema_name"]]
        out = PW.run_schema_chunk({"names": names})
        print(json.dumps(out["results"], indent=1)[:3000])
    elif "standard_ref" in case:
        out = PW.run_frozen_chunk({"refs": [case["standard_ref"]], "with_default": case.get("with_default", True)})
        print(json.dumps(out["results"], indent=1)[:3000])
        ctx.case(case)
    elif "source_uri" in case:
        out = PW.run_uri_chunk({"kind": case.get("tree", "base"), "seed": case.get("tree_seed", 0), "base": case.get("base", ""), "uris": [case["source_uri"]]})
        print(json.dumps(out["results"], indent=1)[:3000])
        ctx.case(case)
    else:
        print("replay: unsupported case kind; re-run the check with the recorded seed", file=sys.stderr)
    finish_meta(ctx)
