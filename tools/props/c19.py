"""C19 — Tools cannot be steered outside the intended files.   Engine: lean/paths.

  translate (tools/gen/paths.py -> Octave/Gen/Paths.lean) -> lean build + audit -> known findings ->
  correspondence (Model/Paths.lean vs. the three validators, loader, hydrator on real trees) ->
  oracle on the real code (audit-hook interposition + before/after snapshots).
See notes/C19.md.
"""
from __future__ import annotations

import hashlib
import itertools
import json
import os
import sys
from concurrent.futures import ThreadPoolExecutor

import vlib

sys.path.insert(0, str(vlib.VERIF / "tools"))
from harness import paths_fs as P  # noqa: E402
from harness import paths_worker as PW  # noqa: E402

PROJECT = "paths"
PROPS = ["Octave.Props.C19"]
ANCHORS = [("octave_mcp/mcp/write.py", "WriteTool._validate_path"), ("octave_mcp/mcp/write.py", "WriteTool.execute"),
           ("octave_mcp/mcp/validate.py", "ValidateTool._validate_path"), ("octave_mcp/mcp/validate.py", "ValidateTool.execute"),
           ("octave_mcp/core/file_ops.py", "validate_octave_path"), ("octave_mcp/core/file_ops.py", "atomic_write_octave"),
           ("octave_mcp/schemas/loader.py", "load_schema_by_name"), ("octave_mcp/schemas/loader.py", "get_schema_search_paths"),
           ("octave_mcp/schemas/loader.py", "load_schema"),
           ("octave_mcp/core/hydrator.py", "resolve_hermetic_standard"), ("octave_mcp/core/hydrator.py", "compute_vocabulary_hash"),
           ("octave_mcp/core/hydrator.py", "validate_source_uri"), ("octave_mcp/core/hydrator.py", "_check_single_snapshot"),
           ("octave_mcp/cli/main.py", "write")]

# ---- the segment alphabet of the property ------------------------------------------------------
# existing objects of the base tree (harness/paths_fs.template) ...
SEG_TREE = ["f.md", "g.oct.md", "h.txt", "U.MD", "d", "ld", "lin", "lf.md", "lfi.md", "dang.md", "dangd", "loop.md", "up", "trick.md"]
# ... new names with allowed / disallowed / compound / upper-case / odd extensions, specials
SEG_NEW = ["n.md", "n.txt", "n.oct.md", "n.octave", "n.MD", "n", ".md", "a.md.", "n.oct.txt", "é.md", "a.md ", "x.mdx"]
SEG_SPECIAL = [".", "..", "", "z\x00.md", P.LONG_BAD, P.LONG_OK]
SEGS_Q = SEG_TREE + SEG_NEW[:7] + SEG_SPECIAL[:5]
SEGS_T = SEG_TREE + SEG_NEW + SEG_SPECIAL
EXTRA_PATHS = ["", "/", "//", "///", ".", "./", "/.", "{SB}", "{SB}/", "/{SB}/f.md", "//{SB}/f.md", "//{SB}/n.md", "//{SB}/ld/f.md", "//{SB}/d/" + P.LONG_BAD,
               "//{SB}/dang.md", "{SB}/../sb/f.md", "..", "../sb/f.md", "f.md/", "f.md/.", "f.md/n.md", "d//f.md", "./f.md", "d/./f.md", "..md", "...md", "a..md",
               "n.OCT.md", "n.oct.MD", "n.Octave", "n.md.bak", "n.tar.oct.md", ".oct.md", "d/.octave", "n.md/", "n.txt/", "n.md/.", "\x00", "a\x00/n.md",
               " ", "n .md", "-n.md", "~/n.md", "C:/n.md", "C:\\n.md", "d\\..\\n.md", "..\\n.md", "up/out/secret.md", "up/sb/f.md", "d/up/f.md",
               "lin/f.md", "lin/../f.md", "ld/../sb/f.md", "ld/secret.md", "d/ld/d/f.md", "d/d/d/n.md", "d/d/d/d/n.md", "q/r/s/n.md", "dangd/n.md", "dangd/q/n.md",
               "d/dang.md", "d/d/dang.md", "trick.md/n.md", "loop.md/n.md", "lfi.md/", "dang.md/", "dang.md/."]


def enum_paths(segs, depth, absolute):
    pre = "{SB}/" if absolute else ""
    for n in range(1, depth + 1):
        for tup in itertools.product(segs, repeat=n):
            yield pre + "/".join(tup)


# ---- known-finding class predicates (input based: path string + file system layout) ------------

def dangling_symlink_component(rec) -> bool:
    """F29: some component of the path (a prefix of the absolute path) is a symlink that does not resolve
    (missing target or loop), i.e. `exists()` is False for it."""
    return bool(rec["cls"]["dangling"])


CLASSES = {"dangling_symlink_component": dangling_symlink_component}


# ---- oracle on the results of one chunk ---------------------------------------------------------

def judge(ctx, rec, job, findings):
    """Apply the property (as read in notes/C19.md) to the observations of one path string."""
    cls = rec["cls"]
    fails = []
    must = cls["must_refuse"]
    for copy, (ok, reason) in rec["val"].items():
        ctx.count(f"validator:{copy}:{'accept' if ok is True else 'raise' if ok == 'raise' else 'refuse:' + reason}")
        if must and ok is True:
            fails.append((f"validator:{copy}", f"{copy} validator accepted a path that must be refused "
                          f"(dotdot={cls['dotdot']} symlink={cls['symlink']} bad_ext={cls['bad_ext']})"))
    for name, ob in rec["eps"].items():
        ctx.count(f"tool:{name}:{'raise' if ob['raise'] else 'refused' if ob['refused'] else 'done'}")
        for c in ob["codes"][:1]:
            if name.startswith(("write_", "validate_")):
                ctx.count(f"code:{name}:{c}")
        if ob["outside"] or ob["out_changed"] or ob["foreign"]:
            fails.append((f"outside:{name}", f"{name} touched or read something outside the sandbox: events={ob['outside'] or ob['foreign']} changed={ob['out_changed']}"))
        if must:
            if not ob["refused"]:
                fails.append((f"not-refused:{name}", f"{name} did not refuse a path that must be refused; changed={ob['changed']}"))
            elif ob["in_sb"] or ob["changed"]:
                fails.append((f"io-before-refusal:{name}", f"{name} refused only after file I/O: events={ob['in_sb']} changed={ob['changed']}"))
    for why_class, why in fails:
        hit = [f for f in findings if CLASSES[f["cls"]](rec)]
        if hit:
            ctx.known_hits[hit[0]["id"]] = ctx.known_hits.get(hit[0]["id"], 0) + 1
        else:
            ctx.failures.append({"case": {"path": rec["p"], "tree": job["kind"], "tree_seed": job["seed"]}, "why": why, "why_class": why_class,
                                 "classification": cls, "validators": rec["val"], "observed": rec["eps"].get(why_class.split(":")[-1])})


# ---- model side ------------------------------------------------------------------------------------

def model_batches(drv, batches, timeout=1800):
    """batches: [[request,...]] — each batch is an independent driver session (it starts with its own `fs`
    request); sessions run in parallel threads."""
    if not batches:
        return []
    with ThreadPoolExecutor(min(vlib.NCPU, len(batches))) as ex:
        return list(ex.map(lambda b: drv.batch(b, timeout), batches))


def compare_paths(ctx, job, out, replies):
    """correspondence view: accept / refuse of each of the three validators (reason classes are only counted)."""
    for rec, rep in zip(out["results"], replies):
        if "unsupported" in rep:
            ctx.count("model_unsupported")
            continue
        for copy in ("write", "validate", "fileops"):
            ok, reason = rec["val"][copy]
            m = rep[copy]
            if m == "fuel":
                ctx.count("model_out_of_fuel")
                continue
            if ok == "raise":
                ctx.count("impl_validator_raise")
                continue
            if (m == "ok") != (ok is True):
                ctx.corr_disagreements.append({"case": {"path": rec["p"], "tree": job["kind"], "tree_seed": job["seed"], "copy": copy},
                                               "model": m, "impl": [ok, reason], "view": "accept/refuse of the path validator"})
            elif m != reason:
                ctx.count(f"reason_differs:{copy}:{m}/{reason}")


def run(ctx: vlib.Ctx):
    raise NotImplementedError
