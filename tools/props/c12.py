"""C12 — Every compiled grammar is well-formed GBNF.

Engine `gbnf`.  Protocol (DESIGN.md §2): translate (tools/gen/gbnf.py: every template string of
gbnf_compiler.py becomes Lean data) -> lake build + axiom audit (Props/C12) -> replay known findings
-> correspondence (Lean model `compileSchema` / `compileMetaTokens` vs the real grammar text, exact
string equality, all four observation points) -> oracle on the real code: every grammar string that
is returned is fed to the Lean recogniser `Spec/GbnfSyntax` and to the independent Python recogniser
`tools/harness/gbnf_check.py` (which must agree with each other) and must be well-formed, unless the
*input* lies in a recorded finding class (narrow, input-based predicates in harness/gbnf_common.py).
"""
import itertools
import json
import random
import warnings

import vlib
from harness import gbnf_common as G
from harness.gbnf_check import check as py_check

PROJECT = "gbnf"
PROPS = ["Octave.Lemmas.GenFacts", "Octave.Props.C12", "Octave.Props.C12strict"]
F = "octave_mcp/core/gbnf_compiler.py"
ANCHORS = [(F, "GBNFCompiler._sanitize_rule_name"), (F, "GBNFCompiler._escape_literal"), (F, "GBNFCompiler.compile_constraint"),
           (F, "GBNFCompiler._compile_required"), (F, "GBNFCompiler._compile_optional"), (F, "GBNFCompiler._compile_enum"),
           (F, "GBNFCompiler._compile_const"), (F, "GBNFCompiler._compile_type"), (F, "GBNFCompiler._compile_regex"),
           (F, "GBNFCompiler._compile_dir"), (F, "GBNFCompiler._compile_list"), (F, "GBNFCompiler._compile_range"),
           (F, "GBNFCompiler._compile_max_length"), (F, "GBNFCompiler._compile_min_length"), (F, "GBNFCompiler._compile_date"),
           (F, "GBNFCompiler._compile_iso8601"), (F, "GBNFCompiler.compile_chain"), (F, "GBNFCompiler.compile_schema"),
           (F, "_reconstruct_field_specs_from_tokens"), (F, "_extract_contract_field_specs"), (F, "parse_contract_field"),
           (F, "compile_gbnf_from_meta"), ("octave_mcp/core/grammar.py", None),
           ("octave_mcp/mcp/compile_grammar.py", "CompileGrammarTool.execute"), ("octave_mcp/mcp/eject.py", "EjectTool.execute"),
           ("octave_mcp/core/schema_extractor.py", "_parse_field_assignment"), ("octave_mcp/core/schema_extractor.py", "extract_schema_from_document"),
           ("octave_mcp/core/constraints.py", "ConstraintChain.parse"), ("octave_mcp/core/constraints.py", "_parse_atom")]

# --------------------------------------------------------------------------------------------------
# pools
# --------------------------------------------------------------------------------------------------
# every sanitisation case of the property: case / dot / slash / hyphen / underscore collisions,
# unicode, leading digits, the structural names, empty-after-sanitising, quotes and backslashes
NAME_POOL = [
    "STATUS", "A", "B", "AB", "Ab", "ab", "A_B", "A-B", "A.B", "A/B", "A_DOT_B", "A_SLASH_B", "a_dot_b", "A__B", "A___B", "A_B_", "_A", "A_",
    "A.", ".A", "A..B", "A./B", "A-.B", "__", "_", "___", ".", "/", "-", "...", "A_U3C3", "U3C3_", "AΣ", "Σ", "ς", "σ", "naïve", "NAÏVE", "ß", "SS", "İ", "I",
    "i̇", "K", "K", "🙂", "x̄", "①", "ǅ", "ǆ", "ŉ", "1A", "9", "_1", "-1", ".1", "1", "R_1", "r_1", "1_", "0x", "A1", "A<B>", "AB<C>",
    "ws", "WS", "Ws", "field", "FIELD", "content", "CONTENT", "Content", "document", "DOCUMENT", "root", "ROOT", "Root", "_root_", "r.oot",
    "envelope-start", "ENVELOPE-START", "envelope_start", "envelope-end", "meta-block", "META-BLOCK", "meta-content", "meta-field", "meta_field",
    "unnamed_field", "UNNAMED_FIELD", "unnamed-field", "DOT", "A_DOT", "DOT_B", "SLASH", "U", "u1f642", "R",
    'a"b', "a\\b", 'a\\"b', '"x"', "A B", "A,B", "A\nB", "A\tB", "A]", "A::B", "A#B", "A|B", "é", "É",
]
# chain member texts accepted by ConstraintChain.parse (chains are ∧-joined)
CHAIN_POOL = [
    "REQ", "OPT", "DIR", "APPEND_ONLY", "DATE", "ISO8601", "TYPE[STRING]", "TYPE[NUMBER]", "TYPE[BOOLEAN]", "TYPE[LIST]", "TYPE[LITERAL]",
    "TYPE[BOGUS]", "TYPE[]", "TYPE(NUMBER)", "LANG[python]", "RANGE[1,5]", "RANGE[-1.5,2e3]", "MAX_LENGTH[3]", "MIN_LENGTH[0]", "MIN_LENGTH[1]",
    "MIN_LENGTH[2]", "CONST[ACTIVE]", "CONST[42]", "CONST[-0.5]", "CONST[1e16]", "CONST[true]", "CONST[null]", 'CONST["a\\"b"]', 'CONST["a\\\\b"]',
    'CONST["q\\\\"]', 'CONST[""]', 'CONST["x y"]', "CONST[é]", 'CONST["a\nb"]', "CONST[a]b]", "ENUM[ACTIVE,ACTIVATING,DONE]", "ENUM[A,B]", "ENUM[A]",
    "ENUM[1,2.50,true]", 'ENUM["a\\"b",c]', 'ENUM["q\\\\",z]', "ENUM[]", 'ENUM["x y",z]', "ENUM[a,,b]", 'ENUM["#",|]', "ENUM[(,)]",
    'REGEX["^[a-z]+$"]', 'REGEX["^abc$"]', 'REGEX["^\\d+$"]', 'REGEX["^a.c$"]', 'REGEX["[0-9]*"]',
]
# patterns covering literals, escapes, groups, alternation, quantifier braces, classes, anchors
# one member per kind / per interesting value class, for the quick tier's pairs
CHAIN_QUICK = ["REQ", "OPT", "DIR", "APPEND_ONLY", "DATE", "ISO8601", "TYPE[NUMBER]", "TYPE[BOOLEAN]", "TYPE[LITERAL]", "LANG[python]", "RANGE[1,5]", "MAX_LENGTH[3]",
               "MIN_LENGTH[0]", "MIN_LENGTH[2]", "CONST[ACTIVE]", "CONST[true]", 'CONST["a\\"b"]', "ENUM[A,B]", 'ENUM["q\\\\",z]', "ENUM[]", 'REGEX["^[a-z]+$"]', 'REGEX["^abc$"]']
REGEX_POOL = [
    "^abc$", "abc", "^[a-z]+$", "^[A-Z_]+$", "[0-9]*", "^[a-z]?$", "^[a-z]$", "^[^a-z]+$", "^[a-z]+[0-9]+$", "^a.c$", ".", ".*", ".+", "..", "^$", "",
    "^", "$", "^^[a]$$", "a$b", "^(a|b)$", "^(ab)+$", "^a|b$", "^a{2,3}$", "^[a-z]{2}$", "^[a-z]{2,}$", "^a{2}$", "^a{2,}$", "^\\d+$", "^\\w+$", "^\\s*$",
    "^\\D$", "^\\W$", "^\\S$", "^\\bx\\b$", "^\\Bx$", "^(?:a|b)$", "(?i)abc", "^(?=a)a$", "^a\\.b$", "^\\[x\\]$", "^[\\-a]+$", "^[\\]a]+$", "^[a\\]]+$",
    '^"q"$', '"', "^\"a$", "[a]\n", "a b", "^x-y$", "x_y", "ws", "root", "field", "content", "document", "^#x$", "^a#b$", "a\\$", "\\^a", "^[a-z]+\\n$",
    "^[.]$", "^[.]+$", "^[a.]*$", "^[ab][cd]$", "^[a-z]+|[0-9]+$", "^(a|)$", "^(|a)$", "^()$", "^a||b$", "^a*+$", "^a**$", "^+$", "+", "*", "?", "^?$",
    "^[^\\n]+$", "^[^\\\\]+$", "^[\\\\]+$", "^\\x41$", "^[\\x41]+$", "^\\u0041$", "^\\t$", "^[\\t]+$", "^[\\n]+$", "^é+$", "^[é]+$", "^[а-я]+$",
    "^a{,3}$", "^a{0}$", "^a{0}*$", "^[a-z]+$\n", "^[]a]+$", "^[a-]+$", "^[-a]+$", "^[a-z-]+$", "^[a--]+$", "^[+--]+$", "^[^]a]$", "^[[]+$", "^[a[]+$",
    "^[a-z]{,3}$", "[0-9]{,}", "^[a-z]{2,5}$", "^[a-z]{}$", "^[a-z]{ 2}$", "^[a-z]{2,1}$", "^[a-z]{a}$", "^[a-z]{2}{3}$", "^[a-z]{0}$", "^[a-z]{0,0}$", "^[a-z]{,}$",
    "^:$", "^a::=b$", "^a ::= b$", "^x\nroot ::= y$", "^=$", "^,$", "^{$", "^}$", "^\\{$", "^!$", "^<$", "^a/b$", "^~$", "^'a'$", "^`$",
]
SCHEMA_NAMES = ["S", "SESSION_LOG", "lower", "MiXed", "ß", "ŉ", "a b", 'a"b', "a\\b", "a\nb", "a\rb", "", "#x", "x # y", "UNKNOWN", "Σ", "a\tb", "x y", "===", 'q\\"']
# raw OCTAVE texts for META.TYPE on the CONTRACT route
TYPE_TEXTS = ["S", "SESSION_LOG", "lower", '"a b"', '"a\\"b"', '"a\\\\b"', '"a\\nb"', '"ß"', '"#x"', '""']
# raw texts inside FIELD[...] on the CONTRACT route
CONTRACT_NAMES = ["STATUS", "A", "a", "A.B", "A_DOT_B", "A-B", "A_B", "A/B", "content", "CONTENT", "ws", "root", "field", "document", "1", "1A", "1.5", '"x"',
                  '"a\\"b"', '"a\\\\b"', '"a b"', '"a\\nb"', "A B", "A,B", "naïve", "Σ", "🙂", "_", "__", "true", "null", '""', "A→B", "A::B", "A∧B", "[A]", "A[B"]
CONTRACT_CHAINS = ["REQ", "OPT", "REQ∧ENUM[ACTIVE,PAUSED]", "ENUM[A,B]", "CONST[X]", "CONST[42]", "CONST[1.50]", "CONST[true]", 'CONST["a\\"b"]', 'CONST["a\\\\b"]',
                   'CONST["x\\ny"]', "TYPE[NUMBER]", "TYPE[BOOLEAN]", "TYPE[STRING]", "TYPE[LIST]", "TYPE[LITERAL]", "DATE", "ISO8601", "DIR", "APPEND_ONLY",
                   "RANGE[1,5]", "MAX_LENGTH[3]", "MIN_LENGTH[0]", "MIN_LENGTH[2]", "LANG[py]", 'REGEX["^[a-z]+$"]', 'REGEX["^abc$"]', 'REGEX["^a|b$"]',
                   'REGEX["^\\\\d+$"]', "BOGUS", "", "REQ∧OPT", "ENUM[]", "REQ→§SELF", "REQ OPT", "ENUM[A,[B]]"]
# field keys / envelope names usable on the document routes (the reader decides; unreadable ones are counted and skipped)
DOC_SCHEMA_NAMES = ["S", "SESSION_LOG", "lower", "MiXed", "_x", "S9"]
HINT_SCHEMA_NAMES = ["GBNFH", "GBNF_H2", "G9"]


def chain_texts(L):
    out = [None, ""]
    for n in range(1, L + 1):
        for combo in itertools.product(CHAIN_POOL, repeat=n):
            out.append("∧".join(combo))
    return out


# --------------------------------------------------------------------------------------------------
# evaluating one case on the real code (worker side)
# --------------------------------------------------------------------------------------------------
_pycache = {}


def _pc(g):
    r = _pycache.get(g)
    if r is None:
        r = (py_check(g, True), py_check(g, False))
        if len(_pycache) < 50000:
            _pycache[g] = r
    return r


def _obs(label, grammar, name, fields_enc, envelope, lean_req, exc=None):
    o = {"label": label, "grammar": grammar, "name": name, "fields": fields_enc, "envelope": envelope, "lean": lean_req, "exc": exc}
    if isinstance(grammar, str):
        o["py"] = _pc(grammar)
    return o


def _tool_exc(r):
    """an explicit 'the compiler raised' marker in a tool response, if any"""
    for e in (r.get("errors") or []):
        if isinstance(e, dict) and e.get("code") == "E_COMPILE":
            return "E_COMPILE: " + str(e.get("message"))[:120]
    gh = r.get("grammar_hint") or {}
    if isinstance(gh, dict) and gh.get("error"):
        return str(gh.get("error"))
    return None


def _schema_obs(prefix, schema, envelopes=(False, True)):
    from octave_mcp.core.gbnf_compiler import GBNFCompiler
    out = []
    fields_enc = [(n, G.enc_field(n, fd)["chain"]) for n, fd in schema.fields.items()]
    for env in envelopes:
        try:
            g, exc = GBNFCompiler().compile_schema(schema, include_envelope=env), None
        except Exception as e:
            g, exc = None, f"{type(e).__name__}: {e}"
        out.append(_obs(f"{prefix}:api:env={int(env)}", g, schema.name, fields_enc, env, G.enc_schema(schema, env), exc))
    return out, fields_enc


def _meta_env(contract):
    """tables for the Lean model of compile_gbnf_from_meta, read from the real runtime."""
    from octave_mcp.core import gbnf_compiler as GC
    from octave_mcp.core.constraints import ConstraintChain
    specs = GC._extract_contract_field_specs(contract)
    chains, lowers = {}, {}
    for sp in specs:
        m = GC._CONTRACT_FIELD_PATTERN.match(sp.strip())
        if not m:
            continue
        nm, cs = m.group(1).strip(), m.group(2).strip()
        lowers[nm] = nm.lower()
        if cs and cs not in chains:
            try:
                chains[cs] = G.enc_chain(ConstraintChain.parse(cs))
            except ValueError:
                chains[cs] = None
    return specs, [[k, v] for k, v in chains.items()], [[k, v] for k, v in lowers.items()]


def _meta_fields(meta):
    """(name, chain_enc) of the schema compile_gbnf_from_meta builds (via the real helpers)."""
    from octave_mcp.core import gbnf_compiler as GC
    fields = {}
    for sp in GC._extract_contract_field_specs(meta.get("CONTRACT")):
        try:
            nm, ch = GC.parse_contract_field(sp)
        except ValueError:
            continue
        fields[nm] = G.enc_chain(ch) if ch is not None else None
    return list(fields.items())


# --------------------------------------------------------------------------------------------------
# tool route: grammar_hint of INVALID octave_validate / octave_write responses, for INVALID documents of every kind — the hint
# is "a grammar that is returned" whatever document was being validated, so the offending values are drawn from a pool of texts that
# are not inert inside a grammar (line breaks, '#', quotes, backslashes, rule syntax)
# --------------------------------------------------------------------------------------------------
HINT_VALUES_TOOLROUTE = ["DRAFT\nsecond line", "a\rb", "a\r\nb", "\n", "x # y", "#", 'say "hi"', '"', "a\\b", "back\\", 'root ::= "x"', 'a ::= b\nroot ::= a', "# c\n#",
                         "tab\there", "é ü", "[a-z]+ | (", "plain"]
# constrained fields of the section schema: every constraint kind whose verdict echoes the value, the schema text or neither
HINT_FIELDS_TOOLROUTE = [["STATUS", "REQ∧ENUM[A,B]"], ["C", "CONST[K]"], ["R", 'REGEX["^[a-z]+$"]'], ["D", "DATE"], ["N", "RANGE[1,5]"], ["I", "ISO8601"], ["M", "MAX_LENGTH[3]"],
                         ["T", "TYPE[NUMBER]"], ["L", "TYPE[LIST]"]]
# schema-side texts that are echoed in verdicts (allowed values, constants, patterns) and are not inert either
HINT_SCHEMA_SIDE_TOOLROUTE = [["E2", 'ENUM["a#b","c\\"d"]'], ["C2", 'CONST["x\\ny"]'], ["C3", 'CONST["# k"]'], ["R2", 'REGEX["^[a-z#]+$"]']]


def octave_quote_toolroute(s: str) -> str:
    """a quoted OCTAVE string for `s` (carriage returns stay raw: the reader has no escape for them)."""
    return '"' + s.replace("\\", "\\\\").replace('"', '\\"').replace("\n", "\\n").replace("\t", "\\t") + '"'


def hint_instance_toolroute(route, schema_name, assignments):
    """an instance document: META assignments for the builtin META schema, a block keyed by the schema's name for a section schema."""
    q = octave_quote_toolroute
    body = "".join(f"  {k}::{v if raw else q(v)}\n" for (k, v, raw) in assignments)
    if route == "META":
        return f"===TEST===\nMETA:\n{body}===END===\n"
    return f'===INSTANCE===\nMETA:\n  TYPE::X\n  VERSION::"1.0"\n\n{schema_name}:\n{body}===END===\n'


def hint_instance_cases_toolroute(ctx):
    cases = []
    add = cases.append
    sch = {"name": "GBNFHV", "fields": HINT_FIELDS_TOOLROUTE + HINT_SCHEMA_SIDE_TOOLROUTE}
    for v in HINT_VALUES_TOOLROUTE:
        # the packaged META schema: the offending value in the ENUM-constrained STATUS, in TYPE position of a list, next to a missing TYPE
        add({"kind": "hint-instance", "schema": "META", "instance": hint_instance_toolroute("META", "META", [("TYPE", "X", False), ("VERSION", "1.0", False), ("STATUS", v, False)])})
        add({"kind": "hint-instance", "schema": "META", "instance": hint_instance_toolroute("META", "META", [("VERSION", "1.0", False), ("STATUS", "[" + octave_quote_toolroute(v) + ",ok]", True)])})
        # a section schema: the value in every constrained field in turn (quick: three fields per value in rotation + ENUM and CONST always)
        k0 = HINT_VALUES_TOOLROUTE.index(v)
        fs = HINT_FIELDS_TOOLROUTE if (ctx.thorough or ctx.widen > 1) else HINT_FIELDS_TOOLROUTE[:2] + [HINT_FIELDS_TOOLROUTE[2 + (k0 + j) % (len(HINT_FIELDS_TOOLROUTE) - 2)] for j in range(3)]
        for (k, _c) in fs:
            asg = ([("STATUS", "A", True)] if k != "STATUS" else []) + [(k, v, False)]
            add({"kind": "hint-instance", "schema": sch, "instance": hint_instance_toolroute("section", sch["name"], asg)})
        for (k, _c) in HINT_SCHEMA_SIDE_TOOLROUTE[k0 % 2::2]:
            add({"kind": "hint-instance", "schema": sch, "instance": hint_instance_toolroute("section", sch["name"], [("STATUS", "A", True), (k, v, False)])})
    # more than ten verdicts at once, every one echoing a value
    many = [(k, HINT_VALUES_TOOLROUTE[i % len(HINT_VALUES_TOOLROUTE)], False) for i, (k, _c) in enumerate(HINT_FIELDS_TOOLROUTE + HINT_SCHEMA_SIDE_TOOLROUTE)]
    add({"kind": "hint-instance", "schema": sch, "instance": hint_instance_toolroute("section", sch["name"], many)})
    add({"kind": "hint-instance", "schema": sch, "instance": hint_instance_toolroute("section", sch["name"], list(reversed(many)))})
    # seeded random values over the same alphabet, in a random constrained field of either schema
    rng = random.Random(f"{ctx.seed}:hint-instance")
    alpha = ["\n", "\r", "#", '"', "\\", " ", "::=", "root", "a", "|", "[", "]", "é", "\t", "(", "*", "x y", "'", "0"]
    allf = HINT_FIELDS_TOOLROUTE + HINT_SCHEMA_SIDE_TOOLROUTE
    for _ in range(ctx.budget(40, 1500)):
        v = "".join(rng.choice(alpha) for _ in range(rng.randint(1, 6)))
        if rng.random() < 0.3:
            add({"kind": "hint-instance", "schema": "META", "instance": hint_instance_toolroute("META", "META", [("TYPE", "X", False), ("VERSION", "1.0", False), ("STATUS", v, False)])})
        else:
            ks = rng.sample([k for k, _c in allf], rng.randint(1, 3))
            asg = ([("STATUS", "A", True)] if "STATUS" not in ks else []) + [(k, v, False) for k in ks]
            add({"kind": "hint-instance", "schema": sch, "instance": hint_instance_toolroute("section", sch["name"], asg)})
    return cases


def hint_instance_obs_toolroute(case, res):
    """observations of one hint-instance case: grammar_hint.grammar of octave_validate and octave_write (grammar_hint=True) on the instance."""
    from octave_mcp.mcp.validate import ValidateTool
    from octave_mcp.mcp.write import WriteTool
    sref = case["schema"]
    with G.Sandbox() as sb:
        if isinstance(sref, dict):
            from octave_mcp.core.parser import parse
            from octave_mcp.core.schema_extractor import extract_schema_from_document
            text = G.fields_doc(sref["name"], [tuple(f) for f in sref["fields"]])
            try:
                schema = extract_schema_from_document(parse(text))
            except Exception:
                res["skip"] = "doc-unreadable"
                return []
            sb.put_schema(sref["name"], text)
            sname = sref["name"]
        else:
            from octave_mcp.schemas.loader import load_schema_by_name
            schema = load_schema_by_name(sref)
            if schema is None:
                res["skip"] = "packaged-schema-not-found"
                return []
            sname = sref
        fields_enc = [(n, G.enc_field(n, fd)["chain"]) for n, fd in schema.fields.items()]
        req = G.enc_schema(schema, True)
        obs = []
        r = G.run_tool(ValidateTool(), content=case["instance"], schema=sname, grammar_hint=True)
        obs.append(_obs("hint-instance:validate_hint", (r.get("grammar_hint") or {}).get("grammar"), schema.name, fields_enc, True, req, _tool_exc(r)))
        res["verdicts"] = [r.get("validation_status")]
        r = G.run_tool(WriteTool(), target_path=sb.fresh_target(), content=case["instance"], schema=sname, grammar_hint=True)
        obs.append(_obs("hint-instance:write_hint", (r.get("grammar_hint") or {}).get("grammar"), schema.name, fields_enc, True, req, _tool_exc(r)))
        res["verdicts"].append(r.get("validation_status"))
    return obs


def eval_case(case):
    """-> {"case", "skip"?, "obs":[…]}   Never raises for reasons attributable to the code under test."""
    kind = case["kind"]
    res = {"case": case, "obs": []}
    warnings.simplefilter("ignore")
    try:
        if kind == "api":
            try:
                schema = G.api_schema(case["name"], [tuple(f) for f in case["fields"]])
            except ValueError as e:
                res["skip"] = "chain-rejected-by-reader"
                return res
            res["obs"], _ = _schema_obs("api", schema)
        elif kind == "doc":
            from octave_mcp.core.parser import parse
            from octave_mcp.core.schema_extractor import extract_schema_from_document
            text = G.fields_doc(case["name"], [tuple(f) for f in case["fields"]])
            try:
                doc = parse(text)
                schema = extract_schema_from_document(doc)
            except Exception as e:
                res["skip"] = "doc-unreadable"
                return res
            obs, fields_enc = _schema_obs("doc", schema)
            req = G.enc_schema(schema, True)
            g, _r = G.route_compile_tool(content=text)
            obs.append(_obs("doc:compile_tool", g, schema.name, fields_enc, True, req, _tool_exc(_r)))
            g, _r = G.route_eject(text)
            obs.append(_obs("doc:eject", g, schema.name, fields_enc, True, req))
            if case.get("hint"):
                with G.Sandbox() as sb:
                    sb.put_schema(case["name"], text)
                    g, _r = G.route_validate_hint(case["name"])
                    obs.append(_obs("doc:validate_hint", g, schema.name, fields_enc, True, req, _tool_exc(_r)))
                    g, _r = G.route_write_hint(case["name"], sb.fresh_target())
                    obs.append(_obs("doc:write_hint", g, schema.name, fields_enc, True, req, _tool_exc(_r)))
            res["obs"] = obs
        elif kind == "contract":
            from octave_mcp.core.gbnf_compiler import compile_gbnf_from_meta
            from octave_mcp.core.parser import parse
            text = G.contract_doc(case["type"], case["entries"])
            try:
                doc = parse(text)
            except Exception:
                res["skip"] = "doc-unreadable"
                return res
            meta = doc.meta or {}
            t = meta.get("TYPE", "UNKNOWN")
            c = meta.get("CONTRACT")
            if "CONTRACT" not in meta or not isinstance(t, str):
                res["skip"] = "no-contract-or-nonstring-type"
                return res
            from octave_mcp.core.ast_nodes import ListValue
            specs, chains, lowers = _meta_env(c)
            fields_enc = _meta_fields(meta)
            req = {"op": "compile_meta", "type": t, "upper": t.upper(), "chains": chains, "lowers": lowers, "_specs": specs}
            # _extract_contract_field_specs: list of str | ListValue with tokens (modelled) | ListValue with items only (not modelled) | anything else -> []
            if not c:
                req["specs"] = []          # `if contract:` is false
            elif isinstance(c, list):
                req["specs"] = [x for x in c if isinstance(x, str)]
            elif isinstance(c, ListValue) and getattr(c, "tokens", None):
                req["tokens"] = G.enc_tokens(c.tokens)
            elif isinstance(c, ListValue) and c.items:
                req = None
            else:
                req["specs"] = []
            try:
                g, exc = compile_gbnf_from_meta(meta), None
            except Exception as e:
                g, exc = None, f"{type(e).__name__}: {e}"
            obs = [_obs("contract:api", g, t, fields_enc, True, req, exc)]
            g, _r = G.route_compile_tool(content=text)
            obs.append(_obs("contract:compile_tool", g, t, fields_enc, True, req, _tool_exc(_r)))
            g, _r = G.route_eject(text)
            obs.append(_obs("contract:eject", g, t, fields_enc, True, req))
            res["obs"] = obs
        elif kind == "contract-list":
            from octave_mcp.core.gbnf_compiler import compile_gbnf_from_meta
            meta = {"TYPE": case["type"], "VERSION": "1.0", "CONTRACT": list(case["specs"])}
            specs, chains, lowers = _meta_env(meta["CONTRACT"])
            fields_enc = _meta_fields(meta)
            t = case["type"]
            req = {"op": "compile_meta", "type": t, "upper": t.upper(), "specs": specs, "chains": chains, "lowers": lowers, "_specs": specs}
            try:
                g, exc = compile_gbnf_from_meta(meta), None
            except Exception as e:
                g, exc = None, f"{type(e).__name__}: {e}"
            res["obs"] = [_obs("contract-list:api", g, t, fields_enc, True, req, exc)]
        elif kind == "packaged":
            from octave_mcp.schemas.loader import load_schema_by_name
            schema = load_schema_by_name(case["name"])
            if schema is None:
                res["skip"] = "packaged-schema-not-found"
                return res
            obs, fields_enc = _schema_obs("packaged", schema)
            g, _r = G.route_compile_tool(schema=case["name"])
            obs.append(_obs("packaged:compile_tool", g, schema.name, fields_enc, True, G.enc_schema(schema, True)))
            res["obs"] = obs
        elif kind == "hint-instance":
            res["obs"] = hint_instance_obs_toolroute(case, res)
        elif kind == "emit":
            from octave_mcp.core.grammar import emit_grammar_for_schema
            g = emit_grammar_for_schema(case["name"])
            n = case["name"]
            res["obs"] = [_obs("emit_grammar_for_schema", g, n, [], True, {"op": "compile_schema", "name": n, "upper": n.upper(), "envelope": True, "fields": []})]
        else:
            res["skip"] = "unknown-kind"
    except Exception as e:   # a tool raised: not a C12 matter (C20), but record it
        res["skip"] = f"route-raised:{type(e).__name__}"
        res["detail"] = str(e)[:200]
    return res


# --------------------------------------------------------------------------------------------------
# classification of an ill-formed grammar against the recorded finding classes
# --------------------------------------------------------------------------------------------------
def describe(rep):
    """why a grammar is not well-formed (lenient report)"""
    if not rep["ok"]:
        return "does not parse: " + str(rep.get("error"))
    reasons = []
    if rep["duplicates"]:
        reasons.append(f"rules defined twice {rep['duplicates']}")
    if rep["undefined"]:
        reasons.append(f"undefined rules {rep['undefined']}")
    if rep["empty_alts"]:
        reasons.append(f"empty alternative in {rep['empty_alts']}")
    if not rep["root"]:
        reasons.append("root not defined")
    return "; ".join(reasons)


def same_report(p, m):
    if p["ok"] != m["ok"]:
        return False
    if not p["ok"]:
        return True
    return all(sorted(set(p[k])) == sorted(set(m[k])) for k in ("refs", "duplicates", "undefined", "empty_alts")) and \
        p["root"] == m["root"] and p["wellformed"] == m["wellformed"] and p["defined"] == m["defined"]


# --------------------------------------------------------------------------------------------------
# recogniser-vs-recogniser fuzz (machinery self-check)
# --------------------------------------------------------------------------------------------------
FUZZ_ALPHA = list('"[]()|*+?{},.#\\\n\r\t :=-_a0Z^n x') + ["::=", "\\n", '\\"', "{2,3}", "[^\\n]", " | ", "é"]
GBNF_SAMPLES = [
    'root ::= "a"', 'root ::= a\na ::= "x" | "y"*', 'root ::= ("a" |\n "b")\n', 'root ::= [a-z]+ # c\n# c2\n\nx ::= root{2,3}',
    'root ::= [^\\]]* "]" .', 'root ::= "\\x41\\u00e9\\U0001F642\\t\\r\\n\\\\\\"\\[\\]"', 'a-b ::= [a\\-z] | [-a] [a-] [a--] [^] []\nroot ::= a-b? (a-b (a-b)){1,}',
    'root ::= x{2}{0,}{3,4} ( # c\n y | z )*\nx ::= "1"\ny::="2"\nz ::=\n "3"', 'root\t::=\t"a"\r\nb ::= "c"\r', 'root ::= "a" |\n\n  "b" |\n#c\n "c"',
]


def fuzz_recognisers(ctx, drv, seeds, n):
    rng = random.Random(ctx.seed * 7919 + 13)
    texts = []
    base = list(seeds) + GBNF_SAMPLES
    for k in range(n):
        s = base[k % len(base)] if k < 2 * len(base) else rng.choice(base)
        if k >= len(base):
            for _ in range(rng.randint(1, 3)):
                i = rng.randrange(len(s) + 1)
                op = rng.random()
                if op < 0.4 and s:
                    j = min(len(s), i + rng.randint(1, 3))
                    s = s[:i] + s[j:]
                elif op < 0.8:
                    s = s[:i] + rng.choice(FUZZ_ALPHA) + s[i:]
                else:
                    j = min(len(s), i + rng.randint(1, 12))
                    s = s[:j] + s[i:j] + s[j:]
        texts.append(s)
    reqs = [{"op": "gbnf_check", "text": t, "lenient": l} for t in texts for l in (True, False)]
    reps = drv.batch_par(reqs)
    ok = 0
    for k, t in enumerate(texts):
        for li, l in enumerate((True, False)):
            p, m = py_check(t, l), reps[2 * k + li]
            if "unsupported" in m or not same_report(p, m):
                path = vlib.VERIF / "replays" / "C12-recogniser-disagreement.json"
                path.parent.mkdir(exist_ok=True)
                path.write_text(json.dumps({"text": t, "lenient": l, "python": p, "lean": m}, indent=1, ensure_ascii=False))
                raise vlib.Infra(f"the two GBNF recognisers disagree (machinery bug), see {path}")
            ok += p["ok"]
    ctx.extra["recogniser_fuzz"] = {"texts": len(texts), "parsed_ok": ok}


# --------------------------------------------------------------------------------------------------
# case generation
# --------------------------------------------------------------------------------------------------

def gen_cases(ctx):
    wide = ctx.thorough or ctx.widen > 1
    rng = ctx.rng
    cases = []
    add = cases.append
    # E0 packaged schemas + emit_grammar_for_schema
    for n in ("META", "SKILL", "TEST_HOLOGRAPHIC", "DEBATE_TRANSCRIPT"):
        add({"kind": "packaged", "name": n})
    for n in SCHEMA_NAMES:
        add({"kind": "emit", "name": n})
    # E1 every name x three chains, every schema name
    for nm in NAME_POOL:
        for ct in ("REQ", "ENUM[A,B]", None):
            add({"kind": "api", "name": "S", "fields": [[nm, ct]]})
    for sn in SCHEMA_NAMES:
        add({"kind": "api", "name": sn, "fields": [["STATUS", "REQ"]]})
        add({"kind": "api", "name": sn, "fields": []})
    # E2 every chain of length <= L over the pool (single field); quick: all single members, all pairs over one member per kind
    if wide:
        e2 = chain_texts(3 if ctx.thorough else 2)
    else:
        e2 = chain_texts(1) + ["∧".join(c) for c in itertools.product(CHAIN_QUICK, repeat=2)]
    for ct in e2:
        add({"kind": "api", "name": "S", "fields": [["F", ct]]})
    # E3 every regex pattern alone and after REQ / before TYPE
    for p in REGEX_POOL:
        for tmpl in ('REGEX["%s"]', 'REQ∧REGEX["%s"]', 'REGEX["%s"]∧TYPE[STRING]', 'REGEX[%s]'):
            add({"kind": "api", "name": "S", "fields": [["P", tmpl % p]]})
        add({"kind": "api", "name": "S", "fields": [["abc", "REQ"], ["P", 'REGEX["%s"]' % p], ["x-y", "OPT"]]})
    # E4 pairs of names (collisions): thorough all pairs; quick every pair whose sanitised names are equal or structural,
    # every name against its two neighbours, and a fixed stride through the rest
    for k, (a, b) in enumerate(itertools.combinations(NAME_POOL, 2)):
        ra, rb = G.ref_sanitize(a), G.ref_sanitize(b)
        if wide or ra == rb or ra in G.STRUCTURAL or rb in G.STRUCTURAL or k % 13 == 0:
            add({"kind": "api", "name": "S", "fields": [[a, "REQ"], [b, "OPT"]]})
    for a, b, c in zip(NAME_POOL, NAME_POOL[1:], NAME_POOL[2:]):
        add({"kind": "api", "name": "S", "fields": [[a, "REQ"], [b, "OPT"], [c, None], [a.lower(), "REQ"], [b.upper(), "REQ"]]})
    # wide schemas: many fields / long names (the `field` alternation and every per-field rule grow with the schema)
    for n_fields in (12, 20, 40, 120):
        add({"kind": "api", "name": "WIDE", "fields": [[f"FIELD_{i:03d}", ["REQ", "OPT", "OPT∧ENUM[A,B]", "TYPE[NUMBER]"][i % 4]] for i in range(n_fields)]})
    add({"kind": "api", "name": "LONGNAMES", "fields": [[f"section.sub_{i}.a_rather_long_dotted/field-name_{i}", "REQ"] for i in range(6)]})
    add({"kind": "doc", "name": "S", "fields": [[f"F{i}", "REQ"] for i in range(30)]})
    # E5 document routes: names x chains (reader decides what it accepts)
    doc_chains = [None, "REQ", "OPT∧ENUM[A,B]", 'CONST["a\\"b"]', 'REGEX["^[a-z]+$"]', 'REGEX["^abc$"]', "TYPE[NUMBER]", "DATE", "REQ∧ISO8601", "CONST[42]", "ENUM[1,2.50,true]",
                  'CONST["a\\\\b"]', "TYPE[LIST]", "APPEND_ONLY", "DIR", "RANGE[1,5]", "MIN_LENGTH[2]", "MAX_LENGTH[3]", "TYPE[LITERAL]", "LANG[python]", 'REGEX["^a.c$"]', 'REGEX["^\\\\d+$"]']
    doc_names = [n for n in NAME_POOL if not any(c in n for c in '"\\ ,\n\t]#|')]
    k = 0
    for nm in doc_names:
        for ct in (doc_chains if wide else [doc_chains[(k + j) % len(doc_chains)] for j in range(3)]):
            add({"kind": "doc", "name": DOC_SCHEMA_NAMES[k % len(DOC_SCHEMA_NAMES)], "fields": [[nm, ct]]})
            k += 1
    for ct in doc_chains:
        add({"kind": "doc", "name": "S", "fields": [["STATUS", ct], ["A.B", "REQ"], ["A_DOT_B", ct]]})
    for sn in DOC_SCHEMA_NAMES:
        add({"kind": "doc", "name": sn, "fields": []})
    # E6 grammar_hint routes (schema on the loader's search path)
    hint_sets = [[["STATUS", "REQ∧ENUM[A,B]"]], [["A.B", "REQ"], ["A_DOT_B", "OPT"]], [["CONTENT", "REQ"]], [["P", 'REGEX["^abc$"]']], [["N", "TYPE[NUMBER]"], ["D", "DATE"]],
                 [["OPTIONAL_FIELD", "OPT"]], [["naïve", 'CONST["a\\"b"]']], [["L", "TYPE[LIST]"], ["I", "ISO8601"], ["R", "RANGE[1,5]"]]]
    for i, fs in enumerate(hint_sets + ([[[n, c]] for n, c in zip(doc_names, itertools.cycle(doc_chains))] if wide else [])):
        add({"kind": "doc", "name": HINT_SCHEMA_NAMES[i % len(HINT_SCHEMA_NAMES)], "fields": fs, "hint": True})
    # E7 CONTRACT route (token reconstruction): every name x 3 chains, every chain x 2 names, every TYPE text
    k = 0
    for nm in CONTRACT_NAMES:
        for j in range(3 if not wide else len(CONTRACT_CHAINS)):
            ct = CONTRACT_CHAINS[(k + j) % len(CONTRACT_CHAINS)]
            add({"kind": "contract", "type": TYPE_TEXTS[k % len(TYPE_TEXTS)], "entries": [f"FIELD[{nm}]::{ct}"] + (["FIELD[ZZ]::OPT"] if j % 2 == 0 else [])})
        k += 1
    for ct in CONTRACT_CHAINS:
        add({"kind": "contract", "type": "S", "entries": [f"FIELD[STATUS]::{ct}", f"FIELD[A.B]::{ct}", "FIELD[A_DOT_B]::OPT", "FIELD[STATUS]::OPT"]})
    for tt in TYPE_TEXTS:
        add({"kind": "contract", "type": tt, "entries": ["FIELD[STATUS]::REQ∧ENUM[ACTIVE,PAUSED]"]})
        add({"kind": "contract", "type": tt, "entries": []})
    for ent in (["FIELD[A]"], ["FIELD[A]::"], ["NOTFIELD[A]::REQ"], ["FIELD[]::REQ"], ["FIELD[A]::REQ", "junk", "FIELD[B]::OPT"], ["FIELD[A]::ENUM[X,Y],FIELD[B]::REQ"],
                ["[FIELD[A]::REQ]"], ["FIELD[A]::REQ,"], [",FIELD[A]::REQ"], ["FIELD[A]::CONST[1.50]", "FIELD[B]::CONST[1e5]", "FIELD[C]::CONST[-3]"], ['"FIELD[A]::REQ"'],
                ["FIELD[A]::REQ\n    ", "FIELD[B]::OPT"], ["FIELD [A] :: REQ"], ["FIELD[A]::REQ∧ENUM[X,Y]∧TYPE[STRING]"]):
        add({"kind": "contract", "type": "S", "entries": ent})
    # E8 CONTRACT as a list of strings (programmatic META)
    for nm in NAME_POOL:
        add({"kind": "contract-list", "type": "S", "specs": [f"FIELD[{nm}]::REQ", "FIELD[STATUS]::OPT"]})
    for ct in chain_texts(1):
        add({"kind": "contract-list", "type": "S", "specs": [f"FIELD[F]::{ct if ct is not None else ''}"]})
    for sn in SCHEMA_NAMES:
        add({"kind": "contract-list", "type": sn, "specs": ["FIELD[STATUS]::REQ"]})
    for specs in (["  FIELD[A]::REQ  "], ["FIELD[ A ]:: REQ "], ["FIELD[A]::REQ\n"], ["FIELD[A]::REQ\nX"], ["FIELD[A\nB]::REQ"], ["FIELD[A]::"], ["FIELD[A]:: "], ["FIELD[]::REQ"],
                  ["FIELD[ ]::REQ"], ["FIELD[A]]::REQ"], ["xFIELD[A]::REQ"], ["FIELD[A]::REQ", "FIELD[A]::OPT", "FIELD[B]::REQ", "FIELD[A]::ENUM[X]"], ["FIELD[A]::REQ "],
                  [" FIELD[A]::REQ　"], ["FIELD[A]::REQ\x1f"], ["FIELD[A]::REQ\x85"], ["FIELD[A]::REQ​"], ["FIELD[ A ]:: REQ"]):
        add({"kind": "contract-list", "type": "S", "specs": specs})
    # R seeded structured random schemas (all routes)
    n_rand = ctx.budget(500, 12000)
    ch1 = chain_texts(1)
    for i in range(n_rand):
        nf = rng.choice([0, 1, 1, 2, 2, 3, 4, 6])
        fields = []
        for _ in range(nf):
            nm = rng.choice(NAME_POOL)
            r = rng.random()
            if r < 0.25:
                ct = 'REGEX["%s"]' % rng.choice(REGEX_POOL)
                if rng.random() < 0.4:
                    ct = rng.choice(["REQ∧", "OPT∧", "TYPE[STRING]∧"]) + ct
            else:
                ct = rng.choice(ch1)
                if ct and rng.random() < 0.5:
                    ct = ct + "∧" + rng.choice(CHAIN_POOL)
            fields.append([nm, ct])
        r = rng.random()
        if r < 0.6:
            add({"kind": "api", "name": rng.choice(SCHEMA_NAMES), "fields": fields})
        elif r < 0.8:
            add({"kind": "contract-list", "type": rng.choice(SCHEMA_NAMES), "specs": [f"FIELD[{n}]::{c or ''}" for n, c in fields]})
        elif r < 0.9:
            add({"kind": "doc", "name": rng.choice(DOC_SCHEMA_NAMES), "fields": [[n, c] for n, c in fields if n in doc_names]})
        else:
            add({"kind": "contract", "type": rng.choice(TYPE_TEXTS), "entries": [f"FIELD[{rng.choice(CONTRACT_NAMES)}]::{rng.choice(CONTRACT_CHAINS)}" for _ in range(nf)]})
    # H grammar_hint of INVALID verdicts on documents whose offending values are not inert inside a grammar (tool route)
    cases += hint_instance_cases_toolroute(ctx)
    return cases


def replay_cases(path):
    d = json.loads(open(path).read())
    if "case" in d:
        return [d["case"]]
    cs = [x["case"] for x in d.get("correspondence_disagreements", []) if isinstance(x.get("case"), dict) and "kind" in x["case"]]
    return cs or []


# --------------------------------------------------------------------------------------------------
def run(ctx: vlib.Ctx):
    ctx.rule = ("a case = one schema (kind: api / FIELDS document / META.CONTRACT tokens / CONTRACT list / packaged) evaluated at every "
                "observation point that applies (API with and without envelope, octave_compile_grammar, octave_eject format=gbnf, grammar_hint of "
                "INVALID validate/write); exhaustive over the name pool x chains, chains of length<=L over the constraint pool, the REGEX pool, all "
                "name pairs, plus seeded random multi-field schemas; grammar_hint of INVALID validate/write verdicts on documents whose offending values hold "
                "line breaks, #, quotes, backslashes, rule syntax (builtin META and a section schema); non-trivial = at least one grammar was returned; distinct = distinct case")
    ctx.translate(PROJECT)
    proj = ctx.lean(PROJECT, PROPS)
    changed = vlib.fingerprints_changed(ctx.prop, ANCHORS)
    if changed:
        ctx.widen = max(ctx.widen, 8)
        ctx.notes.append(f"fingerprint changed: {changed}: search widened")
    drv = proj.driver()

    findings = vlib.load_findings(ctx.prop)
    if ctx.replay:
        cases = replay_cases(ctx.replay)
    else:
        corpus = [json.loads(f.read_text())["case"] for f in sorted((vlib.VERIF / "corpus" / ctx.prop).glob("*.json"))]
        cases = [f["witness"]["case"] for f in findings] + corpus + gen_cases(ctx)
        ctx.extra["corpus_cases"] = len(corpus)
    n_known = 0 if ctx.replay else len(findings)

    results = vlib.pmap(eval_case, cases)

    # ---- Lean side: model output + recogniser verdicts, batched -----------------------------------
    reqs, index = [], {}
    gtexts = {}

    def want(req):
        key = json.dumps(req, sort_keys=True, ensure_ascii=False)
        if key not in index:
            index[key] = len(reqs)
            reqs.append(req)
        return index[key]

    for r in results:
        for o in r["obs"]:
            if o["lean"] is None:
                o["lean_i"] = None
                ctx.count("not-modelled:" + o["label"])
            else:
                lr = dict(o["lean"])
                lr.pop("_specs", None)
                o["lean_i"] = want(lr)
            if isinstance(o["grammar"], str):
                g = o["grammar"]
                if g not in gtexts:
                    gtexts[g] = (want({"op": "gbnf_check", "text": g, "lenient": True}), want({"op": "gbnf_check", "text": g, "lenient": False}))
    replies = drv.batch_par(reqs)

    # ---- evaluate -----------------------------------------------------------------------------------
    reproduced = {}
    for ci, r in enumerate(results):
        case = r["case"]
        is_witness = ci < n_known
        if "skip" in r:
            ctx.count("skip:" + r["skip"])
            ctx.case(case, nontrivial=False)
            continue
        got_any = any(isinstance(o["grammar"], str) for o in r["obs"])
        ctx.case(case, nontrivial=got_any)
        ctx.count("kind:" + case["kind"])
        for v in r.get("verdicts", []):
            ctx.count(f"hint-instance:verdict:{v}")
        for o in r["obs"]:
            route = o["label"]
            g = o["grammar"]
            # correspondence (view: the grammar text, or "raises")
            tool_silent = (not isinstance(g, str)) and not o["exc"] and ":api" not in route
            if tool_silent:
                ctx.count("tool-returned-no-grammar:" + route)       # e.g. no INVALID verdict -> no grammar_hint: nothing to compare
            elif o["lean_i"] is not None:
                m = replies[o["lean_i"]]
                model = m.get("grammar") if "grammar" in m else ("<raise>" if m.get("raise") else "<" + json.dumps(m)[:80] + ">")
                impl = g if isinstance(g, str) else ("<raise>" if o["exc"] else "<no grammar returned>")
                if "_specs" in o["lean"] and m.get("specs") is not None and m["specs"] != o["lean"]["_specs"]:
                    ctx.corr_disagreements.append({"case": case, "route": route, "view": "reconstructed CONTRACT specs", "model": m["specs"], "impl": o["lean"]["_specs"]})
                elif model != impl:
                    ctx.corr_disagreements.append({"case": case, "route": route, "view": "grammar text", "model": model[:600], "impl": impl[:600]})
            if not isinstance(g, str):
                ctx.count("no-grammar:" + route.split(":")[0] + (":raised" if o["exc"] else ""))
                continue
            ctx.count("route:" + route)
            # the two recognisers must agree
            (pl, ps), (il, istrict) = o["py"], gtexts[g]
            ml, ms = replies[il], replies[istrict]
            for p, m, l in ((pl, ml, True), (ps, ms, False)):
                if "unsupported" in m or not same_report(p, m):
                    path = vlib.VERIF / "replays" / "C12-recogniser-disagreement.json"
                    path.parent.mkdir(exist_ok=True)
                    path.write_text(json.dumps({"text": g, "lenient": l, "python": p, "lean": m, "case": case}, indent=1, ensure_ascii=False))
                    raise vlib.Infra(f"the two GBNF recognisers disagree (machinery bug), see {path}")
            # oracle: the grammar must be well-formed (lenient alphabet); strict alphabet separately
            args = (o["name"], [tuple(f) for f in o["fields"]], o["envelope"])
            if not pl["wellformed"]:
                why = describe(pl)
                ctx.count("illformed")          # no finding class is open for the lenient alphabet: every ill-formed grammar is a violation
                ctx.failures.append({"case": case, "route": route, "why": "returned grammar is not well-formed GBNF: " + why,
                                     "why_class": "illformed:" + why.split(":")[0].split("[")[0][:40], "grammar": g[:3000], "recogniser_report": pl})
            else:
                ctx.count("wellformed")
                if not ps["wellformed"]:
                    if G.kf_underscore_rule_name(*args):
                        ctx.known_hits["F23"] = ctx.known_hits.get("F23", 0) + 1
                        ctx.count("strict-alphabet:F23")
                        if is_witness and findings[ci]["id"] == "F23":
                            reproduced.setdefault(ci, f"{route}: not accepted under the strict llama.cpp name alphabet [a-zA-Z0-9-]: " + str(ps.get("error") or ps.get("undefined")))
                    else:
                        ctx.failures.append({"case": case, "route": route, "why": "grammar is well-formed only if '_' is a rule-name character, and no field name explains the underscore",
                                             "why_class": "strict-alphabet", "grammar": g[:3000], "recogniser_report": ps})
                else:
                    ctx.count("wellformed-strict")
    for ci, f in enumerate(findings if not ctx.replay else []):
        if ci in reproduced:
            ctx.known_reproduced.append((f, reproduced[ci]))
        else:
            ctx.notes.append(f"known finding {f['id']} did not reproduce on this tree (witness now yields a well-formed grammar)")

    if not ctx.replay:
        fuzz_recognisers(ctx, drv, list(gtexts)[:: max(1, len(gtexts) // 300)], ctx.budget(1500, 40000))
    ctx.extra["distinct_grammars"] = len(gtexts)
    ctx.extra["lean_requests"] = len(reqs)
    ctx.n_facts = 0
    ctx.trusted = ["Lean 4.33.0 kernel; axioms per theorem in coverage.theorems",
                   "tools/gen/gbnf.py (extraction of every template / table of gbnf_compiler.py into Gen/Gbnf.lean)",
                   "correspondence harness tools/props/c12.py + tools/harness/gbnf_common.py (differential, exact grammar text)",
                   "Spec/GbnfSyntax.lean: GBNF syntax written from llama.cpp's published grammar description (llama.cpp itself is not available offline); cross-checked against the independent recogniser tools/harness/gbnf_check.py",
                   "modelled, not verified: control flow of gbnf_compiler.py (validated differentially)"]
    ctx.assumptions = ["str.lower()/str.upper()/str() of the running CPython are supplied per case (parameters of the model)",
                       "ConstraintChain.parse on the CONTRACT route is a parameter (Env.chains) supplied from the real runtime",
                       "the schema reader (lexer/parser/holographic) is not modelled: the schema objects it produces are the model's input",
                       "rule names: theorems are for the lenient alphabet ('_' allowed); the strict llama.cpp alphabet is finding F23"]
